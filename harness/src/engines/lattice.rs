//! C10 – "Any two compatibly configured endpoints connect and exchange data and media".
//!
//! Engine `lattice`: every cell of a *written* configuration lattice is one pair of real
//! `rustrtc::PeerConnection`s in this process, joined over the loopback network by exchanging
//! their SDP (as text, like any signalling channel does).  Level: exploration; the thorough
//! tier enumerates the written lattice completely, the quick tier a seed-rotated pairwise
//! covering subset.
//!
//! What the oracle demands per cell – and why this is no more than the statement:
//!  * every offer/answer API call returns `Ok`                       ("a complete offer/answer exchange succeeds");
//!  * `wait_for_connected()` resolves `Ok` on both ends              ("both report Connected within the
//!    configured timeouts"); an `Err` (the connection itself reported Failed/Closed) is a violation.  A
//!    connect that neither completes nor fails is decided by a *stall witness* (DESIGN 2.3, quiet form), not
//!    by a deadline: all configurable connection-phase timers are set small (`T_*` below), B = the sum of
//!    the configured timeouts that can elapse before Connected or a terminal state (`connect_bound`; the
//!    hard-coded 30 s DTLS deadline is added once a DTLS transport visibly exists); at 3 x B after
//!    signalling completed neither end is Connected/Failed/Closed, the observable state of both ends
//!    (peer / ICE / gathering / signaling state, ICE role, nomination, selected pair, DTLS state) did not
//!    change during the last B, and the 10 ms scheduler canary never lagged > 250 ms (a lag restarts the
//!    window) => violation `connect_stalled[ice=<off>/<ans>;pc=..;role=..;dtls=..]`.  Between B and 3 x B we
//!    keep waiting; our own watchdog without a witness is *inconclusive* (no wall-clock verdicts);
//!  * WebRtc mode with a data channel in the mix: one message each way is received byte-identical
//!    ("a data-channel message ... sent in each direction arrive[s] intact");
//!  * media in the mix: for each direction and each kind at least one of K paced RTP packets is
//!    delivered by the receiving transceiver's track of the same kind with payload, payload type,
//!    sequence number and timestamp equal to what the sender put on the wire (taken from rustrtc's
//!    own `RtpSenderInterceptor`, i.e. after its documented seq/timestamp rewrite)
//!    ("an RTP packet sent in each direction arrive[s] intact").  RTP is unreliable, so a single lost
//!    packet is not a violation: non-delivery is only reported after K=50 packets were accepted by
//!    the sender's transport (its own `packets_sent()` counter) and none reached the track while a
//!    scheduler canary shows the process was not starved (retry witness, DESIGN §2.3);
//!  * WebRtc mode: hook H5 – the two DTLS transports run complementary roles and
//!    `export_keying_material("EXTRACTOR-dtls_srtp")` is equal ("complementary DTLS roles and identical
//!    SRTP keys").  Srtp mode is SDES (no DTLS): key agreement is covered by the SRTP-protected RTP
//!    packet decrypting to the identical payload.
//!
//! Written lattice rules (invalid combinations removed, each justified from src/config.rs docs / code):
//!  R1 data channels only in WebRtc mode (SCTP needs DTLS; `create_data_channel` has no transport otherwise).
//!  R2 ICE options ice-tcp / tcp-only / udp-mux only in WebRtc mode: Rtp and Srtp are "direct" modes that
//!     "skip ICE gathering/connectivity" (peer_connection.rs `is_direct_mode`); ice-lite additionally in Rtp
//!     mode (build_description documents "ICE-lite in RTP mode"); Srtp gets `plain` only.
//!     `enable_ice_lite` is accepted by the public configuration in WebRtc mode as well (no doc restricts
//!     it), so `ice=lite@A` is a WebRtc cell too - with A as the offerer *and* as the answerer (the other
//!     end is a full agent, R3); the quick subset covers both placements explicitly (T1 below).
//!  R3 never ice-lite on both ends (a lite agent never initiates checks – RFC 8445 §6.1.1 – so a
//!     lite/lite pair cannot connect by definition).
//!  R4 udp-mux on both ends uses *different* mux ports (one shared socket cannot talk to itself; the
//!     doc says the port is shared by PeerConnections that "agree on it", i.e. one server side).
//!  R5 tcp-only: the active side gathers no UDP hosts, the passive side gets `tcp_port_range`
//!     (config docs of `IceTcpPolicy` / gather(): "controlling peers with no TCP listen range advertise active locals").
//!  R6 probation (`probation_max_packets`) only together with latching and only in the direct modes
//!     Rtp/Srtp, where the remote address is learnt from media; WebRtc gets latching {off,on}.
//!  R7 bundle policy dimension only where ≥2 m-sections exist (a single section has nothing to bundle).
//!  R8 workload dimension `order` (in which order the application adds its tracks: `same`, `rev@ans` =
//!     the answerer adds video first against an audio,video offer, `rev@off` = the offerer adds video
//!     first) only where ≥2 media kinds exist.  The statement quantifies over configurations, not over the
//!     call order of `add_track`, and m-sections are paired by MID (or by kind when MID-less), never by the
//!     local insertion order – so every order is inside the statement.
//! Quick tier: greedy cover of all value pairs plus two written classes of triples, T1 (mode, asymmetric
//! option, offerer) and T2 (mode, compat, order≠same) – see `pairwise_subset` – plus `--extra` random cells.
//! Violation keys: `<projection>,fail=<failure>` where the projection is the *minimal* failing
//! configuration: after the main pass one representative per (mode, failure) is delta-debugged towards
//! the baseline cell (bundle=balanced, compat=SS, rtcpmux=RR, ice=plain, latch=off, offerer=A, order=same,
//! simplest media sub-mix) by re-running neighbouring cells; dimensions whose reset keeps the identical failure
//! are dropped (`media=` names the sections needed; larger mixes match).  A failure that does not
//! reproduce deterministically (a race) is keyed `mode=<m>,fail=<failure>` only.  Keys of open known
//! findings are matched as projections first, so the steady state needs no minimisation runs.
//! Debug options: `--cells a+b+c` (substring filter on cell keys), `--no-minimise`, `--extra N`
//! (random cells added to the pairwise subset in quick, default 90), `--concurrency N`.
//!
//!  "compatible" = same transport mode on both ends (statement).  Both ends are configured identically
//!  except for the explicitly asymmetric values (`compat=SL`, `rtcpmux=RN`, `ice=lite@A|mux@A|tcponly`),
//!  where the option sits on endpoint A; dimension `offerer` decides whether A or B makes the offer.

use crate::common::*;
use async_trait::async_trait;
use bytes::Bytes;
use rustrtc::media::MediaStreamTrack;
use rustrtc::media::frame::{AudioFrame, MediaKind as FrameKind, MediaSample, VideoFrame};
use rustrtc::media::track::{SampleStreamSource, SampleStreamTrack, sample_track};
use rustrtc::rtp::RtpPacket;
use rustrtc::transports::sctp::{DataChannel, DataChannelConfig};
use rustrtc::{
    BundlePolicy, DataChannelEvent, IceTcpPolicy, MediaKind, PeerConnection, PeerConnectionEvent,
    RtcConfiguration, RtcpMuxPolicy, RtpCodecParameters, RtpSender, RtpSenderInterceptor,
    SdpCompatibilityMode, SdpType, SessionDescription, TransportMode,
};
use serde_json::{Value, json};
use std::collections::{BTreeMap, BTreeSet, HashSet};
use std::net::SocketAddr;
use std::sync::Arc;
use std::sync::atomic::{AtomicU32, AtomicU64, Ordering};
use std::time::{Duration, Instant};

// ------------------------------------------------------------------ lattice

const MODES: &[&str] = &["webrtc", "srtp", "rtp"];
const MEDIA: &[&str] = &["dc", "audio", "video", "audio+video", "dc+audio+video"];
const BPOL: &[&str] = &["balanced", "maxcompat", "maxbundle"];
/// SS / LL: both Standard / both LegacySip; SL: A Standard, B LegacySip.
const COMPAT: &[&str] = &["SS", "LL", "SL"];
/// RR / NN: both Require / both Negotiate; RN: A Require, B Negotiate.
const RTCPMUX: &[&str] = &["RR", "NN", "RN"];
const ICE: &[&str] = &["plain", "lite@A", "tcp", "tcponly", "mux", "mux@A"];
const LATCH: &[&str] = &["off", "on", "on+probation"];
const OFFERER: &[&str] = &["A", "B"];
/// Workload dimension "media add order": the order in which the *application* adds its tracks.
/// `same`: audio then video on both ends; `rev@ans`: the answerer adds video first (against an
/// audio,video offer); `rev@off`: the offerer adds video first (video,audio offer against an
/// answerer that added audio first).  Role-relative on purpose (the offer's m-line order is what matters).
const ORDER: &[&str] = &["same", "rev@ans", "rev@off"];

const DIM_NAMES: &[&str] = &[
    "mode", "media", "bundle", "compat", "rtcpmux", "ice", "latch", "offerer", "order",
];
const NDIM: usize = 9;
const D_MODE: usize = 0;
const D_COMPAT: usize = 3;
const D_RTCPMUX: usize = 4;
const D_ICE: usize = 5;
const D_OFFERER: usize = 7;
const D_ORDER: usize = 8;

#[derive(Clone, Debug, PartialEq, Eq, Hash, PartialOrd, Ord)]
struct Cell {
    mode: &'static str,
    media: &'static str,
    bundle: &'static str,
    compat: &'static str,
    rtcpmux: &'static str,
    ice: &'static str,
    latch: &'static str,
    offerer: &'static str,
    order: &'static str,
}

fn intern(table: &[&'static str], s: &str) -> Option<&'static str> {
    table.iter().copied().find(|x| *x == s)
}

impl Cell {
    fn dims(&self) -> [&'static str; NDIM] {
        [
            self.mode,
            self.media,
            self.bundle,
            self.compat,
            self.rtcpmux,
            self.ice,
            self.latch,
            self.offerer,
            self.order,
        ]
    }
    fn to_json(&self) -> Value {
        json!({
            "mode": self.mode, "media": self.media, "bundle": self.bundle, "compat": self.compat,
            "rtcpmux": self.rtcpmux, "ice": self.ice, "latch": self.latch, "offerer": self.offerer,
            "order": self.order,
        })
    }
    fn from_json(v: &Value) -> Option<Cell> {
        Some(Cell {
            mode: intern(MODES, v.get("mode")?.as_str()?)?,
            media: intern(MEDIA, v.get("media")?.as_str()?)?,
            bundle: intern(BPOL, v.get("bundle")?.as_str()?)?,
            compat: intern(COMPAT, v.get("compat")?.as_str()?)?,
            rtcpmux: intern(RTCPMUX, v.get("rtcpmux")?.as_str()?)?,
            ice: intern(ICE, v.get("ice")?.as_str()?)?,
            latch: intern(LATCH, v.get("latch")?.as_str()?)?,
            offerer: intern(OFFERER, v.get("offerer")?.as_str()?)?,
            // replays written before the dimension existed ran with the same order on both ends
            order: match v.get("order") {
                Some(o) => intern(ORDER, o.as_str()?)?,
                None => "same",
            },
        })
    }
    /// `mode=rtp,media=audio+video,...` – the full projection, used as the prefix of violation keys.
    fn key(&self) -> String {
        format!(
            "mode={},media={},bundle={},compat={},rtcpmux={},ice={},latch={},offerer={},order={}",
            self.mode,
            self.media,
            self.bundle,
            self.compat,
            self.rtcpmux,
            self.ice,
            self.latch,
            self.offerer,
            self.order
        )
    }
    fn has_dc(&self) -> bool {
        self.media.contains("dc")
    }
    fn kinds(&self) -> Vec<MediaKind> {
        let mut v = vec![];
        if self.media.contains("audio") {
            v.push(MediaKind::Audio);
        }
        if self.media.contains("video") {
            v.push(MediaKind::Video);
        }
        v
    }
    fn sections(&self) -> usize {
        self.kinds().len() + usize::from(self.has_dc())
    }
    /// The written validity rules R1..R7 (see module doc).
    fn valid(&self) -> bool {
        let webrtc = self.mode == "webrtc";
        if self.has_dc() && !webrtc {
            return false; // R1
        }
        match self.ice {
            "plain" => {}
            "lite@A" => {
                if self.mode == "srtp" {
                    return false; // R2
                }
            }
            _ => {
                if !webrtc {
                    return false; // R2
                }
            }
        }
        if self.latch == "on+probation" && webrtc {
            return false; // R6
        }
        if self.bundle != "balanced" && self.sections() < 2 {
            return false; // R7
        }
        if self.order != "same" && self.kinds().len() < 2 {
            return false; // R8
        }
        true
    }
}

fn full_lattice() -> Vec<Cell> {
    let mut out = vec![];
    for &mode in MODES {
        for &media in MEDIA {
            for &bundle in BPOL {
                for &compat in COMPAT {
                    for &rtcpmux in RTCPMUX {
                        for &ice in ICE {
                            for &latch in LATCH {
                                for &offerer in OFFERER {
                                    for &order in ORDER {
                                        let c = Cell {
                                            mode,
                                            media,
                                            bundle,
                                            compat,
                                            rtcpmux,
                                            ice,
                                            latch,
                                            offerer,
                                            order,
                                        };
                                        if c.valid() {
                                            out.push(c);
                                        }
                                    }
                                }
                            }
                        }
                    }
                }
            }
        }
    }
    out
}

/// Is this value one of the explicitly *asymmetric* settings (the option sits on endpoint A only)?
fn asymmetric(dim: usize, v: &str) -> bool {
    match dim {
        D_COMPAT => v == "SL",
        D_RTCPMUX => v == "RN",
        D_ICE => matches!(v, "lite@A" | "mux@A" | "tcponly"),
        _ => false,
    }
}

/// Greedy covering subset of the valid cells, rotated by the seed (random start, random
/// tie-breaks).  Covered are
///  * every pair of dimension values (2-way), and
///  * two written classes of 3-way interactions that pairwise selection cannot guarantee:
///    T1 (mode, asymmetric option, offerer): an option that sits on one endpoint only is run with
///       that endpoint as the offerer *and* as the answerer in every mode that admits it (ICE
///       role / DTLS role / who-declines-what all depend on which end made the offer);
///    T2 (mode, compat, media add order != same): how m-sections are paired with the local
///       transceivers (by MID with BUNDLE, by kind/position without) depends on mode and compat,
///       so each reversed order is run in every (mode, compat) regime.
/// Only tuples that occur in some valid cell count.
fn pairwise_subset(cells: &[Cell], rng: &mut Rng) -> Vec<usize> {
    type Tuple = (usize, &'static str, usize, &'static str, usize, &'static str);
    const NONE: (usize, &str) = (usize::MAX, "");
    let tuples_of = |c: &Cell| -> Vec<Tuple> {
        let d = c.dims();
        let mut v = vec![];
        for i in 0..d.len() {
            for j in (i + 1)..d.len() {
                v.push((i, d[i], j, d[j], NONE.0, NONE.1));
            }
        }
        for i in [D_COMPAT, D_RTCPMUX, D_ICE] {
            if asymmetric(i, d[i]) {
                v.push((D_MODE, d[D_MODE], i, d[i], D_OFFERER, d[D_OFFERER])); // T1
            }
        }
        if d[D_ORDER] != "same" {
            v.push((D_MODE, d[D_MODE], D_COMPAT, d[D_COMPAT], D_ORDER, d[D_ORDER])); // T2
        }
        v
    };
    let mut uncovered: HashSet<Tuple> = HashSet::new();
    for c in cells {
        uncovered.extend(tuples_of(c));
    }
    let all: Vec<Vec<Tuple>> = cells.iter().map(|c| tuples_of(c)).collect();
    let mut chosen = vec![];
    let mut order: Vec<usize> = (0..cells.len()).collect();
    while !uncovered.is_empty() {
        rng.shuffle(&mut order);
        let mut best = None;
        let mut best_n = 0usize;
        for &i in &order {
            let n = all[i].iter().filter(|p| uncovered.contains(*p)).count();
            if n > best_n {
                best_n = n;
                best = Some(i);
            }
        }
        let Some(b) = best else { break };
        for p in &all[b] {
            uncovered.remove(p);
        }
        chosen.push(b);
    }
    chosen
}

// ------------------------------------------------------------------ per-cell machinery

/// What rustrtc says it put on the wire (post seq/timestamp rewrite), per PeerConnection.
#[derive(Default)]
struct SentLog {
    packets: parking_lot::Mutex<Vec<SentRec>>,
}
#[derive(Clone, Debug)]
struct SentRec {
    ssrc: u32,
    pt: u8,
    seq: u16,
    ts: u32,
    payload: Bytes,
}
#[async_trait]
impl RtpSenderInterceptor for SentLog {
    async fn on_packet_sent(&self, packet: &RtpPacket, _dst: SocketAddr, _local: SocketAddr) {
        let mut g = self.packets.lock();
        if g.len() < 4096 {
            g.push(SentRec {
                ssrc: packet.header.ssrc,
                pt: packet.header.payload_type,
                seq: packet.header.sequence_number,
                ts: packet.header.timestamp,
                payload: packet.payload.clone(),
            });
        }
    }
}

/// Disjoint port blocks for udp-mux / tcp listen ranges of concurrently running cells
/// (below the Linux ephemeral range so they do not collide with rustrtc's own `:0` binds).
static NEXT_PORT_BLOCK: AtomicU32 = AtomicU32::new(0);
fn alloc_port_block() -> u16 {
    let pid_salt = (std::process::id() % 97) * 8;
    let n = NEXT_PORT_BLOCK.fetch_add(1, Ordering::SeqCst);
    (20000 + ((pid_salt + n * 8) % 12000)) as u16
}
fn free_udp_port() -> Option<u16> {
    for _ in 0..64 {
        let p = alloc_port_block();
        if std::net::UdpSocket::bind(("0.0.0.0", p)).is_ok() {
            return Some(p);
        }
    }
    None
}
fn free_tcp_range() -> Option<(u16, u16)> {
    for _ in 0..64 {
        let p = alloc_port_block();
        if std::net::TcpListener::bind(("0.0.0.0", p)).is_ok() {
            return Some((p, p + 3));
        }
    }
    None
}

struct Side {
    name: &'static str,
    pc: PeerConnection,
    sent: Arc<SentLog>,
    sources: Vec<(MediaKind, SampleStreamSource, Arc<RtpSender>, u8)>,
    /// data channels announced by the peer (in-band DCEP)
    dc_rx: tokio::sync::mpsc::UnboundedReceiver<Arc<DataChannel>>,
    ev_task: tokio::task::JoinHandle<()>,
}

fn mode_of(s: &str) -> TransportMode {
    match s {
        "srtp" => TransportMode::Srtp,
        "rtp" => TransportMode::Rtp,
        _ => TransportMode::WebRtc,
    }
}

// Connection-phase timers of both endpoints (`RtcConfiguration`; defaults are 5 s / 10 s / 120 s /
// 30 s / 60 s).  The values are the ones the C17 engine has been running with on this machine.
const T_STUN: Duration = Duration::from_millis(1000);
const T_NOMINATION: Duration = Duration::from_millis(1000);
const T_ICE_CONNECTION: Duration = Duration::from_millis(4000);
const T_ICE_DISCONNECT_THRESHOLD: Duration = Duration::from_millis(2000);
const T_ICE_DISCONNECT_GRACE: Duration = Duration::from_millis(1000);
/// rustrtc's hard-coded DTLS handshake deadline (src/transports/dtls/mod.rs).
const T_DTLS_DEADLINE: Duration = Duration::from_secs(30);

/// B: the longest chain of configured timeouts that can elapse after signalling completed before a
/// PeerConnection either reports Connected or a terminal state (Failed / Closed):
///   connectivity checks: each check gives up after `stun_timeout`; a Checking transport that hears
///     nothing fails after `ice_connection_timeout`;
///   nomination: the connection loop waits `6 x nomination_timeout` for nomination_complete
///     (peer_connection.rs run_ice_dtls_loop), a nominating check gives up after `nomination_timeout` (=> Failed);
///   silence on a Connected transport: Disconnected after `ice_disconnect_threshold`
///     (< `ice_connection_timeout`, same clock), torn down `ice_disconnect_grace` later, or Failed after
///     `ice_connection_timeout`;
///   DTLS: fixed 30 s deadline (=> DtlsFailed), counted only once a DTLS transport visibly exists.
/// The phases are summed although several overlap: a larger B only delays the witness.
fn connect_bound(dtls_started: bool) -> Duration {
    debug_assert!(T_ICE_DISCONNECT_THRESHOLD <= T_ICE_CONNECTION);
    let b = T_STUN + T_NOMINATION * 6 + T_ICE_CONNECTION + T_ICE_DISCONNECT_GRACE;
    if dtls_started { b + T_DTLS_DEADLINE } else { b }
}

/// Build the two configurations of a cell (A, B).  `Err` = harness could not reserve ports.
/// The third element keeps harness-owned listeners alive that occupy the front of B's
/// `tcp_port_range` (tcp-only cells): the range is documented as inclusive, so an endpoint whose
/// first k ports are taken must listen on a later one, the last one included.
fn configs(cell: &Cell, payload_seed: u64) -> Result<(RtcConfiguration, RtcConfiguration, Vec<std::net::TcpListener>), String> {
    let mut occupied: Vec<std::net::TcpListener> = vec![];
    let mut a = RtcConfiguration::default();
    let mut b = RtcConfiguration::default();
    for c in [&mut a, &mut b] {
        c.transport_mode = mode_of(cell.mode);
        // every configurable connection-phase timer is set small, so that "within the configured
        // timeouts" is a short bound (see `connect_bound`)
        c.stun_timeout = T_STUN;
        c.nomination_timeout = T_NOMINATION;
        c.ice_connection_timeout = T_ICE_CONNECTION;
        c.ice_disconnect_threshold = T_ICE_DISCONNECT_THRESHOLD;
        c.ice_disconnect_grace = T_ICE_DISCONNECT_GRACE;
        c.bundle_policy = match cell.bundle {
            "maxcompat" => BundlePolicy::MaxCompat,
            "maxbundle" => BundlePolicy::MaxBundle,
            _ => BundlePolicy::Balanced,
        };
        match cell.latch {
            "on" => c.enable_latching = true,
            "on+probation" => {
                c.enable_latching = true;
                c.probation_max_packets = Some(3);
            }
            _ => {}
        }
    }
    let (ca, cb) = match cell.compat {
        "LL" => (SdpCompatibilityMode::LegacySip, SdpCompatibilityMode::LegacySip),
        "SL" => (SdpCompatibilityMode::Standard, SdpCompatibilityMode::LegacySip),
        _ => (SdpCompatibilityMode::Standard, SdpCompatibilityMode::Standard),
    };
    a.sdp_compatibility = ca;
    b.sdp_compatibility = cb;
    let (ma, mb) = match cell.rtcpmux {
        "NN" => (RtcpMuxPolicy::Negotiate, RtcpMuxPolicy::Negotiate),
        "RN" => (RtcpMuxPolicy::Require, RtcpMuxPolicy::Negotiate),
        _ => (RtcpMuxPolicy::Require, RtcpMuxPolicy::Require),
    };
    a.rtcp_mux_policy = ma;
    b.rtcp_mux_policy = mb;
    match cell.ice {
        "lite@A" => a.enable_ice_lite = true,
        "tcp" => {
            a.ice_tcp_policy = IceTcpPolicy::Enabled;
            b.ice_tcp_policy = IceTcpPolicy::Enabled;
        }
        "tcponly" => {
            // A: active TCP only; B: passive TCP listener only (R5)
            a.ice_gather_udp_hosts = false;
            a.ice_tcp_policy = IceTcpPolicy::Enabled;
            b.ice_gather_udp_hosts = false;
            b.ice_tcp_policy = IceTcpPolicy::Enabled;
            let (s, e) = free_tcp_range().ok_or("no free tcp port block")?;
            b.tcp_port_range_start = Some(s);
            b.tcp_port_range_end = Some(e);
            // 0..=3 of the 4 ports are already in use by somebody else (here: the harness)
            for p in s..s + (payload_seed % 4) as u16 {
                occupied.push(std::net::TcpListener::bind(("0.0.0.0", p)).map_err(|e| format!("occupy tcp port {p}: {e}"))?);
            }
        }
        "mux" => {
            a.ice_udp_mux = true;
            a.ice_udp_mux_port = Some(free_udp_port().ok_or("no free udp port")?);
            b.ice_udp_mux = true;
            b.ice_udp_mux_port = Some(free_udp_port().ok_or("no free udp port")?);
        }
        "mux@A" => {
            a.ice_udp_mux = true;
            a.ice_udp_mux_port = Some(free_udp_port().ok_or("no free udp port")?);
        }
        _ => {}
    }
    Ok((a, b, occupied))
}

fn codec(kind: MediaKind) -> RtpCodecParameters {
    match kind {
        MediaKind::Video => RtpCodecParameters {
            payload_type: 96,
            name: "VP8".into(),
            clock_rate: 90000,
            channels: 0,
        },
        _ => RtpCodecParameters {
            payload_type: 111,
            name: "opus".into(),
            clock_rate: 48000,
            channels: 2,
        },
    }
}

fn make_side(name: &'static str, mut cfg: RtcConfiguration, cell: &Cell) -> Result<Side, String> {
    let sent = Arc::new(SentLog::default());
    cfg.recorder_interceptors.senders.push(sent.clone());
    let pc = PeerConnection::new(cfg);
    let mut sources = vec![];
    // dimension `order`: the reversed end adds video before audio
    let is_offerer = (name == "A") == (cell.offerer == "A");
    let reversed = match cell.order {
        "rev@off" => is_offerer,
        "rev@ans" => !is_offerer,
        _ => false,
    };
    let mut kinds = cell.kinds();
    if reversed {
        kinds.reverse();
    }
    for kind in kinds {
        let fk = if kind == MediaKind::Video {
            FrameKind::Video
        } else {
            FrameKind::Audio
        };
        let (source, track, _fb) = sample_track(fk, 128);
        let params = codec(kind);
        let pt = params.payload_type;
        let track: Arc<SampleStreamTrack> = track;
        let sender = pc
            .add_track(track as Arc<dyn MediaStreamTrack>, params)
            .map_err(|e| format!("add_track({kind:?}) on {name}: {e}"))?;
        sources.push((kind, source, sender, pt));
    }
    let (dc_tx, dc_rx) = tokio::sync::mpsc::unbounded_channel();
    let pc2 = pc.clone();
    let ev_task = tokio::spawn(async move {
        while let Some(ev) = pc2.recv().await {
            if let PeerConnectionEvent::DataChannel(dc) = ev {
                let _ = dc_tx.send(dc);
            }
        }
    });
    Ok(Side {
        name,
        pc,
        sent,
        sources,
        dc_rx,
        ev_task,
    })
}

/// Outcome of one cell.
struct Outcome {
    verdict: Verdict,
    obs: BTreeMap<String, Value>,
    nontrivial: bool,
}

/// A failure observed in a cell.  The key is only the `fail=` part here; the driver prepends the
/// (minimised) configuration projection.
fn fail(_cell: &Cell, what_key: &str, what: String, witness: Value) -> Verdict {
    Verdict::violated(what_key.to_string(), what, witness)
}

/// Scheduler canary: a task ticking every 10 ms; `max_lag_ms` is the worst overshoot seen.
struct Canary {
    max_lag_ms: Arc<AtomicU64>,
    task: tokio::task::JoinHandle<()>,
}
impl Canary {
    fn start() -> Canary {
        let max = Arc::new(AtomicU64::new(0));
        let m = max.clone();
        let task = tokio::spawn(async move {
            loop {
                let t = Instant::now();
                tokio::time::sleep(Duration::from_millis(10)).await;
                let lag = t.elapsed().as_millis().saturating_sub(10) as u64;
                m.fetch_max(lag, Ordering::Relaxed);
            }
        });
        Canary {
            max_lag_ms: max,
            task,
        }
    }
    fn reset(&self) {
        self.max_lag_ms.store(0, Ordering::Relaxed);
    }
    fn lag(&self) -> u64 {
        self.max_lag_ms.load(Ordering::Relaxed)
    }
}
impl Drop for Canary {
    fn drop(&mut self) {
        self.task.abort();
    }
}

macro_rules! step {
    ($cell:expr, $obs:expr, $wd:expr, $name:expr, $fut:expr) => {
        match tokio::time::timeout($wd, $fut).await {
            Err(_) => {
                return Outcome {
                    verdict: Verdict::Inconclusive(format!(
                        "watchdog in step {} cell {}",
                        $name,
                        $cell.key()
                    )),
                    obs: $obs,
                    nontrivial: false,
                };
            }
            Ok(Err(e)) => {
                let msg = format!("{e}");
                return Outcome {
                    verdict: fail(
                        $cell,
                        &format!("api_error:{}", $name),
                        format!("{} returned Err: {}", $name, msg),
                        json!({"step": $name, "error": msg}),
                    ),
                    obs: $obs,
                    nontrivial: false,
                };
            }
            Ok(Ok(v)) => v,
        }
    };
}

/// `Some(TransportStartFailed("internal error: Missing crypto ..."))` → `TransportStartFailed:Missing crypto ...`
fn norm_reason(r: &str) -> String {
    let r = r.trim_start_matches("Some(").trim_end_matches(')');
    let r = r.replace("internal error: ", "").replace("(\"", ":").replace("\")", "").replace('"', "");
    r.replace(',', ";")
}

fn sdp_summary(d: &SessionDescription) -> Value {
    let bundle = d
        .session
        .attributes
        .iter()
        .any(|a| a.key == "group" && a.value.as_deref().is_some_and(|v| v.starts_with("BUNDLE")));
    let secs: Vec<Value> = d
        .media_sections
        .iter()
        .map(|m| {
            json!({
                "kind": format!("{:?}", m.kind),
                "mid": m.mid,
                "port": m.port,
                "proto": m.protocol,
                "rtcp_mux": m.attributes.iter().any(|a| a.key == "rtcp-mux"),
                "setup": m.attributes.iter().find(|a| a.key == "setup").and_then(|a| a.value.clone()),
                "crypto": m.attributes.iter().any(|a| a.key == "crypto"),
                "candidates": m.attributes.iter().filter(|a| a.key == "candidate").count(),
            })
        })
        .collect();
    json!({"bundle": bundle, "ice_lite": d.session.attributes.iter().any(|a| a.key=="ice-lite"), "sections": secs})
}

/// Re-parse the SDP text like a remote endpoint behind a signalling channel would.
fn through_text(d: &SessionDescription) -> Result<SessionDescription, rustrtc::SdpError> {
    SessionDescription::parse(d.sdp_type, &d.to_sdp_string())
}

const K_RTP: u32 = 50; // paced RTP packets per (direction, kind) before non-delivery is a witness
const CANARY_LIMIT_MS: u64 = 250;

/// Everything about the connection phase of one PeerConnection that is observable from outside.
#[derive(Clone, Debug, PartialEq, Eq)]
struct ConnSnapshot {
    pc: String,
    ice: String,
    ice_transport: String,
    role: String,
    gathering: String,
    signaling: String,
    nomination: String,
    pair: String,
    dtls: String,
    reason: String,
}
impl ConnSnapshot {
    fn to_json(&self) -> Value {
        json!({"peer_state": self.pc, "ice_connection_state": self.ice, "ice_transport_state": self.ice_transport,
               "ice_role": self.role, "gathering": self.gathering, "signaling": self.signaling,
               "nomination_complete": self.nomination, "selected_pair": self.pair, "dtls": self.dtls,
               "disconnect_reason": self.reason})
    }
    fn line(&self) -> String {
        format!(
            "[pc={} ice={} role={} nomination={} pair={} dtls={}]",
            self.pc, self.ice, self.role, self.nomination, self.pair, self.dtls
        )
    }
}
fn conn_snapshot(pc: &PeerConnection) -> ConnSnapshot {
    let it = pc.ice_transport();
    ConnSnapshot {
        pc: format!("{:?}", *pc.subscribe_peer_state().borrow()),
        ice: format!("{:?}", *pc.subscribe_ice_connection_state().borrow()),
        ice_transport: format!("{:?}", it.state()),
        role: format!("{:?}", it.role()),
        gathering: format!("{:?}", it.gather_state()),
        signaling: format!("{:?}", pc.signaling_state()),
        nomination: format!("{:?}", *it.subscribe_nomination_complete().borrow()),
        pair: match it.get_selected_pair() {
            Some(p) => format!("{}:{:?}>{}:{:?}", p.local.transport, p.local.typ, p.remote.transport, p.remote.typ),
            None => "none".into(),
        },
        dtls: match pc.verif_dtls() {
            Some(d) => format!("{}", *d.subscribe_state().borrow()),
            None => "none".into(),
        },
        reason: format!("{:?}", pc.disconnect_reason()),
    }
}

async fn run_cell(cell: &Cell, payload_seed: u64, watchdog: Duration) -> Outcome {
    let mut obs: BTreeMap<String, Value> = BTreeMap::new();
    let inconclusive = |why: String, obs: BTreeMap<String, Value>| Outcome {
        verdict: Verdict::Inconclusive(why),
        obs,
        nontrivial: false,
    };
    let (cfg_a, cfg_b, _occupied) = match configs(cell, payload_seed) {
        Ok(x) => x,
        Err(e) => return inconclusive(format!("harness: {e}"), obs),
    };
    let mut a = match make_side("A", cfg_a, cell) {
        Ok(s) => s,
        Err(e) => {
            return Outcome {
                verdict: fail(cell, "api_error:add_track", e.clone(), json!({"error": e})),
                obs,
                nontrivial: false,
            };
        }
    };
    let mut b = match make_side("B", cfg_b, cell) {
        Ok(s) => s,
        Err(e) => {
            a.pc.close();
            a.ev_task.abort();
            return Outcome {
                verdict: fail(cell, "api_error:add_track", e.clone(), json!({"error": e})),
                obs,
                nontrivial: false,
            };
        }
    };
    let out = run_cell_inner(cell, payload_seed, watchdog, &mut a, &mut b, &mut obs).await;
    a.pc.close();
    b.pc.close();
    a.ev_task.abort();
    b.ev_task.abort();
    // give close a moment so sockets of this cell are released before the slot is reused
    tokio::time::sleep(Duration::from_millis(20)).await;
    Outcome {
        verdict: out.0,
        obs,
        nontrivial: out.1,
    }
}

async fn run_cell_inner(
    cell: &Cell,
    payload_seed: u64,
    watchdog: Duration,
    a: &mut Side,
    b: &mut Side,
    obs_out: &mut BTreeMap<String, Value>,
) -> (Verdict, bool) {
    // The macro returns an `Outcome`; adapt by running the fallible part in a closure-like block.
    let o = async {
        let mut obs: BTreeMap<String, Value> = BTreeMap::new();
        let mut rng = Rng::new(payload_seed);
        let a_offers = cell.offerer == "A";
        // ------------------------------------------------ data channel (created before the offer)
        let dc_label = "c10";
        let dc_local: Option<Arc<DataChannel>> = if cell.has_dc() {
            let off = if a_offers { &a.pc } else { &b.pc };
            match off.create_data_channel(
                dc_label,
                Some(DataChannelConfig {
                    ordered: true,
                    ..Default::default()
                }),
            ) {
                Ok(dc) => Some(dc),
                Err(e) => {
                    let msg = format!("{e}");
                    return Outcome {
                        verdict: fail(
                            cell,
                            "api_error:create_data_channel",
                            format!("create_data_channel: {msg}"),
                            json!({"error": msg}),
                        ),
                        obs,
                        nontrivial: false,
                    };
                }
            }
        } else {
            None
        };

        // ------------------------------------------------ offer / answer (non-trickle, as tests/*.rs do)
        {
            let (off, ans) = if a_offers { (&a.pc, &b.pc) } else { (&b.pc, &a.pc) };
            let _ = step!(cell, obs, watchdog, "create_offer", off.create_offer());
            step!(cell, obs, watchdog, "gather_offerer", async {
                off.wait_for_gathering_complete().await;
                Ok::<(), rustrtc::RtcError>(())
            });
            let offer = step!(cell, obs, watchdog, "create_offer", off.create_offer());
            obs.insert("offer".into(), sdp_summary(&offer));
            step!(cell, obs, watchdog, "set_local_description(offer)", async {
                off.set_local_description(offer.clone())
            });
            let offer_rx = step!(cell, obs, watchdog, "parse(offer)", async {
                through_text(&offer)
            });
            step!(
                cell,
                obs,
                watchdog,
                "set_remote_description(offer)",
                ans.set_remote_description(offer_rx)
            );
            let _ = step!(cell, obs, watchdog, "create_answer", ans.create_answer());
            step!(cell, obs, watchdog, "gather_answerer", async {
                ans.wait_for_gathering_complete().await;
                Ok::<(), rustrtc::RtcError>(())
            });
            let answer = step!(cell, obs, watchdog, "create_answer", ans.create_answer());
            obs.insert("answer".into(), sdp_summary(&answer));
            step!(cell, obs, watchdog, "set_local_description(answer)", async {
                ans.set_local_description(answer.clone())
            });
            let answer_rx = step!(cell, obs, watchdog, "parse(answer)", async {
                through_text(&answer)
            });
            step!(
                cell,
                obs,
                watchdog,
                "set_remote_description(answer)",
                off.set_remote_description(answer_rx)
            );
            debug_assert_eq!(answer.sdp_type, SdpType::Answer);
        }

        // ------------------------------------------------ both report Connected
        // Three outcomes: both `wait_for_connected()` resolve Ok (go on); one resolves Err (the
        // connection itself reported Failed/Closed: violation); neither - then the *stall witness*
        // decides (DESIGN 2.3, quiet form): at 3 x B after signalling completed neither end is
        // Connected nor terminal, the observable state of both ends has not changed during the last
        // B, and the scheduler canary never lagged (a lag restarts the 3 x B window).  Between B and
        // 3 x B we keep waiting; our own watchdog without a witness stays inconclusive.
        {
            let t_sig = Instant::now();
            let canary = Canary::start();
            let (off, ans) = if a_offers { (&*a, &*b) } else { (&*b, &*a) };
            let fa = a.pc.wait_for_connected();
            let fb = b.pc.wait_for_connected();
            tokio::pin!(fa, fb);
            let (mut ra, mut rb): (Option<Result<(), String>>, Option<Result<(), String>>) = (None, None);
            let mut window_start = t_sig;
            let mut last_change = t_sig;
            let mut last_snap = (conn_snapshot(&off.pc), conn_snapshot(&ans.pc));
            let mut dtls_started = false;
            let mut changes = 0u32;
            let mut lag_restarts = 0u32;
            let mut worst_lag = 0u64;
            loop {
                tokio::select! {
                    r = &mut fa, if ra.is_none() => ra = Some(r.map_err(|e| format!("{e}"))),
                    r = &mut fb, if rb.is_none() => rb = Some(r.map_err(|e| format!("{e}"))),
                    _ = tokio::time::sleep(Duration::from_millis(25)) => {}
                }
                for (s, r) in [(&*a, &ra), (&*b, &rb)] {
                    let Some(Err(msg)) = r else { continue };
                    let reason = s.pc.disconnect_reason();
                    let lag = canary.lag().max(worst_lag);
                    // The ICE timers of this cell are deliberately tight (1-4 s instead of 5-120 s): a
                    // timer-driven ICE failure while the process was starved is our doing, not rustrtc's.
                    if lag > CANARY_LIMIT_MS
                        && matches!(
                            reason,
                            Some(rustrtc::DisconnectReason::IceFailed)
                                | Some(rustrtc::DisconnectReason::IceDisconnected)
                        )
                    {
                        obs.insert("connect_failed_under_lag".into(), json!({"side": s.name, "lag_ms": lag,
                            "reason": format!("{reason:?}")}));
                        return Outcome {
                            verdict: Verdict::Inconclusive(format!(
                                "{} reported {reason:?} while the scheduler canary lagged {lag} ms (tight ICE timers), cell {}",
                                s.name,
                                cell.key()
                            )),
                            obs,
                            nontrivial: false,
                        };
                    }
                    return Outcome {
                        verdict: fail(
                            cell,
                            &format!("connect_failed[{}]", norm_reason(&format!("{reason:?}"))),
                            format!(
                                "wait_for_connected on {} returned Err ({msg}), disconnect_reason={reason:?}",
                                s.name
                            ),
                            json!({"side": s.name, "error": msg, "disconnect_reason": format!("{reason:?}"),
                                   "after_ms": t_sig.elapsed().as_millis() as u64,
                                   "offer": obs.get("offer"), "answer": obs.get("answer")}),
                        ),
                        obs,
                        nontrivial: false,
                    };
                }
                if matches!((&ra, &rb), (Some(Ok(())), Some(Ok(())))) {
                    break;
                }
                // ---- stall observer
                let now = Instant::now();
                let snap = (conn_snapshot(&off.pc), conn_snapshot(&ans.pc));
                if snap != last_snap {
                    last_snap = snap;
                    last_change = now;
                    changes += 1;
                }
                if !dtls_started && (a.pc.verif_dtls().is_some() || b.pc.verif_dtls().is_some()) {
                    dtls_started = true;
                }
                let lag = canary.lag();
                if lag > CANARY_LIMIT_MS {
                    worst_lag = worst_lag.max(lag);
                    lag_restarts += 1;
                    window_start = now;
                    canary.reset();
                }
                let bound = connect_bound(dtls_started);
                let stalled = now.duration_since(window_start) >= (bound * 3).max(Duration::from_secs(3))
                    && now.duration_since(last_change) >= bound;
                let expired = t_sig.elapsed() >= watchdog;
                if !stalled && !expired {
                    continue;
                }
                let (so, sa) = (&last_snap.0, &last_snap.1);
                let stuck = json!({
                    "offerer": so.to_json(), "answerer": sa.to_json(),
                    "offerer_is": off.name,
                    "since_signalling_ms": t_sig.elapsed().as_millis() as u64,
                    "state_unchanged_for_ms": now.duration_since(last_change).as_millis() as u64,
                    "state_changes_seen": changes,
                    "bound_B_ms": bound.as_millis() as u64,
                    "dtls_started": dtls_started,
                    "canary_max_lag_ms": lag.max(worst_lag),
                    "canary_window_restarts": lag_restarts,
                });
                obs.insert("stuck".into(), stuck.clone());
                if stalled {
                    let fkey = format!(
                        "connect_stalled[ice={}/{};pc={}/{};role={}/{};dtls={}]",
                        so.ice, sa.ice, so.pc, sa.pc, so.role, sa.role,
                        if dtls_started { "started" } else { "none" }
                    );
                    return Outcome {
                        verdict: fail(
                            cell,
                            &fkey,
                            format!(
                                "{} ms after the offer/answer exchange completed (3 x B, B = {} ms = sum of the configured \
                                 stun/nomination/ice-connection/disconnect timeouts{}) neither end reports Connected, Failed or \
                                 Closed, and nothing observable changed on either end for the last {} ms (canary lag <= {} ms): \
                                 offerer {} / answerer {}",
                                now.duration_since(window_start).as_millis(),
                                bound.as_millis(),
                                if dtls_started { " + the 30 s DTLS deadline" } else { "" },
                                now.duration_since(last_change).as_millis(),
                                CANARY_LIMIT_MS,
                                so.line(),
                                sa.line()
                            ),
                            json!({"stall": stuck, "timers_ms": {"stun_timeout": T_STUN.as_millis() as u64,
                                   "nomination_timeout": T_NOMINATION.as_millis() as u64,
                                   "ice_connection_timeout": T_ICE_CONNECTION.as_millis() as u64,
                                   "ice_disconnect_threshold": T_ICE_DISCONNECT_THRESHOLD.as_millis() as u64,
                                   "ice_disconnect_grace": T_ICE_DISCONNECT_GRACE.as_millis() as u64},
                                   "offer": obs.get("offer"), "answer": obs.get("answer")}),
                        ),
                        obs,
                        nontrivial: false,
                    };
                }
                return Outcome {
                    verdict: Verdict::Inconclusive(format!(
                        "watchdog waiting for Connected without a stall witness (offerer {} / answerer {}) cell {}",
                        so.line(),
                        sa.line(),
                        cell.key()
                    )),
                    obs,
                    nontrivial: false,
                };
            }
        }
        obs.insert("connected".into(), json!(true));
        if let Some(p) = a.pc.ice_transport().get_selected_pair() {
            obs.insert(
                "selected_A".into(),
                json!(format!("{}:{:?}", p.local.transport, p.local.typ)),
            );
        }

        // ------------------------------------------------ H5: DTLS roles and exporter (WebRtc only)
        if cell.mode == "webrtc" {
            let (da, db) = (a.pc.verif_dtls(), b.pc.verif_dtls());
            match (da, db) {
                (Some(da), Some(db)) => {
                    let (ra, rb) = (da.verif_is_client(), db.verif_is_client());
                    obs.insert("dtls_client".into(), json!(if ra { "A" } else { "B" }));
                    if ra == rb {
                        return Outcome {
                            verdict: fail(
                                cell,
                                "dtls_roles_not_complementary",
                                format!("both ends run DTLS as client={ra}"),
                                json!({"a_is_client": ra, "b_is_client": rb}),
                            ),
                            obs,
                            nontrivial: false,
                        };
                    }
                    // the role the PeerConnection derived from SDP must be the one the transport runs
                    let (pa, pb) = (a.pc.verif_dtls_role(), b.pc.verif_dtls_role());
                    obs.insert(
                        "dtls_role_sdp".into(),
                        json!(format!("A={pa:?},B={pb:?}")),
                    );
                    let ea = da.export_keying_material("EXTRACTOR-dtls_srtp", 60);
                    let eb = db.export_keying_material("EXTRACTOR-dtls_srtp", 60);
                    match (ea, eb) {
                        (Ok(x), Ok(y)) => {
                            if x != y || x.iter().all(|b| *b == 0) {
                                return Outcome {
                                    verdict: fail(
                                        cell,
                                        "srtp_keys_differ",
                                        "export_keying_material(EXTRACTOR-dtls_srtp) differs between the ends (or is all-zero)".into(),
                                        json!({"a": hex(&x), "b": hex(&y)}),
                                    ),
                                    obs,
                                    nontrivial: false,
                                };
                            }
                            obs.insert("ekm_equal".into(), json!(true));
                        }
                        (x, y) => {
                            // Connected PeerConnection whose DTLS transport cannot export: the ends did not
                            // derive SRTP keys at all.
                            return Outcome {
                                verdict: fail(
                                    cell,
                                    "srtp_keys_unavailable",
                                    "export_keying_material failed on a Connected PeerConnection".into(),
                                    json!({"a": format!("{:?}", x.err().map(|e| e.to_string())),
                                           "b": format!("{:?}", y.err().map(|e| e.to_string()))}),
                                ),
                                obs,
                                nontrivial: false,
                            };
                        }
                    }
                }
                (x, y) => {
                    return Outcome {
                        verdict: Verdict::Inconclusive(format!(
                            "hook H5: no DTLS transport on a Connected WebRtc PeerConnection (A={}, B={})",
                            x.is_some(),
                            y.is_some()
                        )),
                        obs,
                        nontrivial: false,
                    };
                }
            }
        }

        // A Connected PeerConnection that negotiated m=application must own an SCTP transport: it is
        // created inside the transport start, before Connected is signalled, and never later – so its
        // absence is a logical (not timed) witness that no data-channel message can ever be exchanged.
        if cell.has_dc() {
            for s in [&*a, &*b] {
                if s.pc.verif_sctp().is_none() {
                    let role = if (s.name == "A") == a_offers { "offerer" } else { "answerer" };
                    return Outcome {
                        verdict: fail(
                            cell,
                            &format!("no_sctp_transport[{role}]"),
                            format!(
                                "{} ({role}) reports Connected but created no SCTP transport although m=application was negotiated; send_data can only fail",
                                s.name
                            ),
                            json!({"side": s.name, "role": role,
                                   "peer_sctp": if s.name == "A" { b.pc.sctp_diagnostic_info() } else { a.pc.sctp_diagnostic_info() },
                                   "offer": obs.get("offer"), "answer": obs.get("answer")}),
                        ),
                        obs,
                        nontrivial: false,
                    };
                }
            }
        }

        let mut compared_each_way = (0u32, 0u32); // payloads compared A→B, B→A

        // ------------------------------------------------ data channel message each way
        if let Some(dc_off) = dc_local {
            let (off, ans) = if a_offers { (&mut *a, &mut *b) } else { (&mut *b, &mut *a) };
            // offerer side: wait for Open
            let dc_ans = match tokio::time::timeout(watchdog, ans.dc_rx.recv()).await {
                Ok(Some(dc)) => dc,
                Ok(None) => {
                    return Outcome {
                        verdict: Verdict::Inconclusive("event task ended before DataChannel event".into()),
                        obs,
                        nontrivial: false,
                    };
                }
                Err(_) => {
                    obs.insert(
                        "dc_stuck".into(),
                        json!({"what": "no DataChannel event on answerer",
                               "offerer_channel_state": dc_off.state.load(Ordering::SeqCst),
                               "sctp_offerer": off.pc.sctp_diagnostic_info(),
                               "sctp_answerer": ans.pc.sctp_diagnostic_info()}),
                    );
                    return Outcome {
                        verdict: Verdict::Inconclusive(format!(
                            "watchdog: answerer never announced the data channel, cell {}",
                            cell.key()
                        )),
                        obs,
                        nontrivial: false,
                    };
                }
            };
            if dc_ans.label != dc_label {
                return Outcome {
                    verdict: fail(
                        cell,
                        "dc_label_differs",
                        format!("announced channel label {:?} != {:?}", dc_ans.label, dc_label),
                        json!({"got": dc_ans.label, "want": dc_label}),
                    ),
                    obs,
                    nontrivial: false,
                };
            }
            let len_o = rng.range(1, 3000) as usize;
            let len_n = rng.range(1, 3000) as usize;
            let msg_o2n = rng.bytes(len_o);
            let msg_n2o = rng.bytes(len_n);
            // Each side sends once its own channel is Open (an Open event or state Open).
            for (pc, dc, msg, dir) in [
                (&off.pc, &dc_off, &msg_o2n, "offerer→answerer"),
                (&ans.pc, &dc_ans, &msg_n2o, "answerer→offerer"),
            ] {
                let t0 = Instant::now();
                loop {
                    let st = dc.state.load(Ordering::SeqCst);
                    if st == rustrtc::DataChannelState::Open as usize {
                        break;
                    }
                    if st > rustrtc::DataChannelState::Open as usize {
                        return Outcome {
                            verdict: fail(
                                cell,
                                "dc_closed_before_open",
                                format!("data channel went to state {st} before Open ({dir})"),
                                json!({"dir": dir, "state": st}),
                            ),
                            obs,
                            nontrivial: false,
                        };
                    }
                    if t0.elapsed() > watchdog {
                        return Outcome {
                            verdict: Verdict::Inconclusive(format!(
                                "watchdog: data channel never Open ({dir}) cell {}",
                                cell.key()
                            )),
                            obs,
                            nontrivial: false,
                        };
                    }
                    tokio::time::sleep(Duration::from_millis(5)).await;
                }
                step!(cell, obs, watchdog, "send_data", pc.send_data(dc.id, msg));
            }
            for (dc, want, dir, slot) in [
                (&dc_ans, &msg_o2n, if a_offers { "a2b" } else { "b2a" }, a_offers),
                (&dc_off, &msg_n2o, if a_offers { "b2a" } else { "a2b" }, !a_offers),
            ] {
                let t0 = Instant::now();
                loop {
                    let left = watchdog.saturating_sub(t0.elapsed());
                    match tokio::time::timeout(left, dc.recv()).await {
                        Err(_) => {
                            obs.insert("dc_stuck".into(), json!(format!("message {dir} not delivered")));
                            return Outcome {
                                verdict: Verdict::Inconclusive(format!(
                                    "watchdog: data-channel message {dir} not delivered, cell {}",
                                    cell.key()
                                )),
                                obs,
                                nontrivial: false,
                            };
                        }
                        Ok(Some(DataChannelEvent::Open)) => continue,
                        Ok(Some(DataChannelEvent::Message(m))) => {
                            if m.as_ref() != want.as_slice() {
                                return Outcome {
                                    verdict: fail(
                                        cell,
                                        &format!("dc_corrupt_{dir}"),
                                        format!(
                                            "data-channel message {dir} arrived altered ({} bytes sent, {} received)",
                                            want.len(),
                                            m.len()
                                        ),
                                        json!({"sent": hex_cap(want, 64), "got": hex_cap(&m, 64),
                                               "sent_len": want.len(), "got_len": m.len()}),
                                    ),
                                    obs,
                                    nontrivial: false,
                                };
                            }
                            if slot {
                                compared_each_way.0 += 1;
                            } else {
                                compared_each_way.1 += 1;
                            }
                            break;
                        }
                        Ok(Some(DataChannelEvent::Close)) | Ok(None) => {
                            return Outcome {
                                verdict: fail(
                                    cell,
                                    &format!("dc_closed_{dir}"),
                                    format!("data channel closed before the message {dir} arrived"),
                                    json!({"dir": dir}),
                                ),
                                obs,
                                nontrivial: false,
                            };
                        }
                    }
                }
            }
            obs.insert("dc_bytes".into(), json!([len_o, len_n]));
        }

        // ------------------------------------------------ RTP each way, each kind
        if !cell.kinds().is_empty() {
            let canary = Canary::start();
            let r = rtp_exchange(cell, payload_seed % 4 == 1, &mut rng, a, b, &canary, &mut obs).await;
            match r {
                Ok((x, y)) => {
                    compared_each_way.0 += x;
                    compared_each_way.1 += y;
                }
                Err(v) => {
                    return Outcome {
                        verdict: v,
                        obs,
                        nontrivial: false,
                    };
                }
            }
        }

        // both ends must still say Connected after the exchange
        for s in [&*a, &*b] {
            let st = *s.pc.subscribe_peer_state().borrow();
            if matches!(
                st,
                rustrtc::PeerConnectionState::Failed | rustrtc::PeerConnectionState::Closed
            ) {
                return Outcome {
                    verdict: fail(
                        cell,
                        &format!(
                            "connect_lost[{}]",
                            norm_reason(&format!("{:?}", s.pc.disconnect_reason()))
                        ),
                        format!("{} went to {st:?} during the exchange", s.name),
                        json!({"side": s.name, "state": format!("{st:?}"),
                               "reason": format!("{:?}", s.pc.disconnect_reason())}),
                    ),
                    obs,
                    nontrivial: false,
                };
            }
        }
        obs.insert(
            "compared".into(),
            json!([compared_each_way.0, compared_each_way.1]),
        );
        Outcome {
            verdict: Verdict::Held,
            obs,
            nontrivial: compared_each_way.0 > 0 && compared_each_way.1 > 0,
        }
    }
    .await;
    *obs_out = o.obs;
    (o.verdict, o.nontrivial)
}

#[derive(Clone)]
struct Expect {
    kind: MediaKind,
    /// generated payloads (index = packet number)
    payloads: Vec<Bytes>,
    ts: Vec<u32>,
    app_controlled: bool,
    pt: u8,
}

#[derive(Debug, Clone)]
struct Got {
    track_kind: MediaKind,
    pt: Option<u8>,
    seq: Option<u16>,
    ts: u32,
    payload: Bytes,
}

fn sample_to_got(track_kind: MediaKind, s: MediaSample) -> Got {
    match s {
        MediaSample::Audio(f) => Got {
            track_kind,
            pt: f.payload_type,
            seq: f.sequence_number,
            ts: f.rtp_timestamp,
            payload: f.data,
        },
        MediaSample::Video(f) => Got {
            track_kind,
            pt: f.payload_type,
            seq: f.sequence_number,
            ts: f.rtp_timestamp,
            payload: f.data,
        },
    }
}

fn kind_name(k: MediaKind) -> &'static str {
    match k {
        MediaKind::Audio => "audio",
        MediaKind::Video => "video",
        _ => "other",
    }
}

/// Returns (compared A→B, compared B→A) or a verdict to report.
async fn rtp_exchange(
    cell: &Cell,
    jumbo: bool,
    rng: &mut Rng,
    a: &mut Side,
    b: &mut Side,
    canary: &Canary,
    obs: &mut BTreeMap<String, Value>,
) -> Result<(u32, u32), Verdict> {
    // receivers: one reader task per receiving track of every transceiver (right and wrong kinds)
    let (got_tx, mut got_rx) = tokio::sync::mpsc::unbounded_channel::<(&'static str, Got)>();
    let mut readers = vec![];
    let mut tracks_per_side: BTreeMap<&'static str, Vec<String>> = BTreeMap::new();
    for s in [&*a, &*b] {
        for t in s.pc.get_transceivers() {
            if t.kind() != MediaKind::Audio && t.kind() != MediaKind::Video {
                continue;
            }
            let Some(rcv) = t.receiver() else { continue };
            tracks_per_side
                .entry(s.name)
                .or_default()
                .push(format!("{}:{:?}", kind_name(t.kind()), t.mid()));
            let track = rcv.track();
            let tx = got_tx.clone();
            let name = s.name;
            let k = t.kind();
            readers.push(tokio::spawn(async move {
                while let Ok(sample) = track.recv().await {
                    if tx.send((name, sample_to_got(k, sample))).is_err() {
                        break;
                    }
                }
            }));
        }
    }
    obs.insert("rx_tracks".into(), json!(tracks_per_side));
    drop(got_tx);

    // what each side will send; in every fourth cell the audio frames are as large as one datagram allows
    obs.insert("audio_frame_size".into(), json!(if jumbo { "jumbo" } else { "small" }));
    let mut expects: BTreeMap<(&'static str, &'static str), Expect> = BTreeMap::new();
    for s in [&*a, &*b] {
        for (kind, _, _, pt) in &s.sources {
            let app_controlled = rng.bool();
            let base_ts = rng.u32();
            let step = if *kind == MediaKind::Video { 3000 } else { 960 };
            let mut payloads = vec![];
            let mut ts = vec![];
            for i in 0..K_RTP {
                // tag: side, kind, index – so that a payload identifies its origin
                let mut p = format!("C10|{}|{}|{:04}|", s.name, kind_name(*kind), i).into_bytes();
                let mut extra = rng.range(8, 160) as usize;
                if jumbo && *kind == MediaKind::Audio {
                    // one audio frame = one RTP packet whatever its size: datagrams just below the
                    // 1500-byte read buffers (plain RTP: 12 + 1470 + extensions; SRTP: + 10..16 tag)
                    extra = if cell.mode == "rtp" { 1470 } else { 1452 } - p.len();
                }
                p.extend_from_slice(&rng.bytes(extra));
                payloads.push(Bytes::from(p));
                ts.push(base_ts.wrapping_add(i.wrapping_mul(step)));
            }
            expects.insert(
                (s.name, kind_name(*kind)),
                Expect {
                    kind: *kind,
                    payloads,
                    ts,
                    app_controlled,
                    pt: *pt,
                },
            );
        }
    }

    canary.reset();
    let mut intact: BTreeMap<(&'static str, &'static str), u32> = BTreeMap::new(); // (sender, kind) → count
    let need: BTreeSet<(&'static str, &'static str)> = expects.keys().cloned().collect();
    let mut sent_n = 0u32;
    let mut verdict: Option<Verdict> = None;
    let mut first_intact_after: BTreeMap<String, u32> = BTreeMap::new();

    let check = |from: &'static str, g: &Got, a: &Side, b: &Side| -> Result<Option<(&'static str, &'static str)>, Verdict> {
        // `from` is the *receiving* side; the sender is the other one
        let (snd, rcv_name) = if from == "A" { (b, "A") } else { (a, "B") };
        let dir = if snd.name == "A" { "a2b" } else { "b2a" };
        // identify the payload
        let txt = String::from_utf8_lossy(&g.payload[..g.payload.len().min(24)]).to_string();
        let mut it = txt.split('|');
        let (magic, side, kind, idx) = (it.next(), it.next(), it.next(), it.next());
        let parsed = match (magic, side, kind, idx.and_then(|x| x.parse::<usize>().ok())) {
            (Some("C10"), Some(sd), Some(k), Some(i)) if sd == snd.name => expects
                .iter()
                .find(|((s0, k0), _)| *s0 == snd.name && *k0 == k)
                .map(|(key, e)| (*key, e, i)),
            _ => None,
        };
        let Some((key, exp, i)) = parsed else {
            return Err(fail(
                cell,
                &format!("rtp_corrupt_{dir}"),
                format!("{rcv_name} received an RTP payload that {} never sent", snd.name),
                json!({"dir": dir, "got": hex_cap(&g.payload, 64), "track": kind_name(g.track_kind)}),
            ));
        };
        if i >= exp.payloads.len() || exp.payloads[i] != g.payload {
            return Err(fail(
                cell,
                &format!("rtp_corrupt_{dir}_{}", key.1),
                format!("RTP payload #{i} {dir} arrived altered"),
                json!({"dir": dir, "kind": key.1, "index": i, "got": hex_cap(&g.payload, 64),
                       "sent": exp.payloads.get(i).map(|p| hex_cap(p, 64))}),
            ));
        }
        if g.track_kind != exp.kind {
            return Err(fail(
                cell,
                &format!("rtp_wrong_track_{dir}_{}", key.1),
                format!(
                    "{} packet {dir} was delivered on the {} track",
                    key.1,
                    kind_name(g.track_kind)
                ),
                json!({"dir": dir, "sent_kind": key.1, "track_kind": kind_name(g.track_kind), "index": i}),
            ));
        }
        // header fields against what the sender's own interceptor saw on the way out
        let rec = snd
            .sent
            .packets
            .lock()
            .iter()
            .find(|r| r.payload == g.payload)
            .cloned();
        let Some(rec) = rec else {
            // delivered although the sender interceptor never saw it – cannot compare header fields
            return Err(Verdict::Inconclusive(
                "received packet not found in the sender interceptor log".into(),
            ));
        };
        let mut diffs = vec![];
        if g.pt != Some(rec.pt) {
            diffs.push(format!("pt sent {} got {:?}", rec.pt, g.pt));
        }
        if g.seq != Some(rec.seq) {
            diffs.push(format!("seq sent {} got {:?}", rec.seq, g.seq));
        }
        if g.ts != rec.ts {
            diffs.push(format!("timestamp sent {} got {}", rec.ts, g.ts));
        }
        // the sender itself must have used the negotiated PT, and our timestamp when we control it
        if rec.pt != exp.pt {
            diffs.push(format!("sender stamped pt {} instead of {}", rec.pt, exp.pt));
        }
        if exp.app_controlled && rec.ts != exp.ts[i] {
            diffs.push(format!(
                "app-controlled timestamp {} went out as {}",
                exp.ts[i], rec.ts
            ));
        }
        if !diffs.is_empty() {
            return Err(fail(
                cell,
                &format!("rtp_header_altered_{dir}_{}", key.1),
                format!("RTP packet #{i} {dir} ({}) header differs: {}", key.1, diffs.join("; ")),
                json!({"dir": dir, "kind": key.1, "index": i, "diffs": diffs,
                       "sent": {"pt": rec.pt, "seq": rec.seq, "ts": rec.ts, "ssrc": rec.ssrc},
                       "got": {"pt": g.pt, "seq": g.seq, "ts": g.ts}}),
            ));
        }
        Ok(Some(key))
    };

    // paced sending; stop early once every (sender, kind) has an intact packet
    'outer: for i in 0..K_RTP {
        for s in [&*a, &*b] {
            for (kind, source, _, _) in &s.sources {
                let e = &expects[&(s.name, kind_name(*kind))];
                let (seq, pt) = if e.app_controlled {
                    (Some(i as u16), None)
                } else {
                    (None, None)
                };
                let sample = match kind {
                    MediaKind::Video => MediaSample::Video(VideoFrame {
                        rtp_timestamp: e.ts[i as usize],
                        data: e.payloads[i as usize].clone(),
                        is_last_packet: true,
                        sequence_number: seq,
                        payload_type: pt,
                        ..Default::default()
                    }),
                    _ => MediaSample::Audio(AudioFrame {
                        rtp_timestamp: e.ts[i as usize],
                        clock_rate: 48000,
                        data: e.payloads[i as usize].clone(),
                        sequence_number: seq,
                        payload_type: pt,
                        ..Default::default()
                    }),
                };
                if let Err(err) = source.send(sample) {
                    verdict = Some(fail(
                        cell,
                        &format!("api_error:track_send_{}", kind_name(*kind)),
                        format!("SampleStreamSource::send failed on {}: {err}", s.name),
                        json!({"side": s.name, "error": format!("{err}")}),
                    ));
                    break 'outer;
                }
            }
        }
        sent_n = i + 1;
        // collect for 20 ms
        let until = tokio::time::Instant::now() + Duration::from_millis(20);
        loop {
            match tokio::time::timeout_at(until, got_rx.recv()).await {
                Err(_) => break,
                Ok(None) => break,
                Ok(Some((from, g))) => match check(from, &g, a, b) {
                    Ok(Some(key)) => {
                        let n = intact.entry(key).or_insert(0);
                        *n += 1;
                        if *n == 1 {
                            first_intact_after.insert(format!("{}:{}", key.0, key.1), sent_n);
                        }
                    }
                    Ok(None) => {}
                    Err(v) => {
                        verdict = Some(v);
                        break 'outer;
                    }
                },
            }
        }
        if need.iter().all(|k| intact.get(k).copied().unwrap_or(0) > 0) && i >= 2 {
            break;
        }
    }
    // drain what is in flight (also catches late wrong-track deliveries)
    if verdict.is_none() {
        let until = tokio::time::Instant::now()
            + if need.iter().all(|k| intact.get(k).copied().unwrap_or(0) > 0) {
                Duration::from_millis(60)
            } else {
                Duration::from_millis(1000)
            };
        loop {
            match tokio::time::timeout_at(until, got_rx.recv()).await {
                Err(_) | Ok(None) => break,
                Ok(Some((from, g))) => match check(from, &g, a, b) {
                    Ok(Some(key)) => {
                        *intact.entry(key).or_insert(0) += 1;
                    }
                    Ok(None) => {}
                    Err(v) => {
                        verdict = Some(v);
                        break;
                    }
                },
            }
        }
    }
    for r in readers {
        r.abort();
    }
    obs.insert("rtp_sent_rounds".into(), json!(sent_n));
    obs.insert(
        "rtp_intact".into(),
        json!(intact
            .iter()
            .map(|(k, v)| (format!("{}:{}", k.0, k.1), *v))
            .collect::<BTreeMap<_, _>>()),
    );
    obs.insert("rtp_first_intact_after".into(), json!(first_intact_after));
    if let Some(v) = verdict {
        return Err(v);
    }
    // non-delivery: retry witness
    let lag = canary.lag();
    let mut missing = vec![];
    for k in &need {
        if intact.get(k).copied().unwrap_or(0) == 0 {
            missing.push(*k);
        }
    }
    if !missing.is_empty() {
        if lag > CANARY_LIMIT_MS {
            return Err(Verdict::Inconclusive(format!(
                "RTP missing but scheduler canary lagged {lag} ms"
            )));
        }
        // minimal description: which (direction, kind) are missing, and whether the sender's transport
        // accepted the packets (`packets_sent`) – "not sent" and "not received" are different defects.
        let mut parts = vec![];
        let mut detail = vec![];
        for (sname, kname) in &missing {
            let s = if *sname == "A" { &*a } else { &*b };
            let dir = if *sname == "A" { "a2b" } else { "b2a" };
            let wire = s
                .sources
                .iter()
                .find(|(k, _, _, _)| kind_name(*k) == *kname)
                .map(|(_, _, sender, _)| sender.packets_sent())
                .unwrap_or(0);
            let seen_by_interceptor = s
                .sent
                .packets
                .lock()
                .iter()
                .filter(|r| r.payload.starts_with(format!("C10|{sname}|{kname}|").as_bytes()))
                .count();
            let what = if wire == 0 { "rtp_not_sent" } else { "rtp_not_received" };
            parts.push((what, format!("{dir}_{kname}")));
            let r = if *sname == "A" { &*b } else { &*a };
            detail.push(json!({"dir": dir, "kind": kname, "sender_packets_sent": wire,
                "sender_interceptor_saw": seen_by_interceptor, "rounds": sent_n,
                "receiver_transport_rtp_packets": r.pc.received_rtp_packets()}));
        }
        parts.sort();
        // e.g. `rtp_not_received[a2b_audio+a2b_video]`
        let mut key = String::new();
        for what in ["rtp_not_sent", "rtp_not_received"] {
            let l: Vec<String> = parts.iter().filter(|p| p.0 == what).map(|p| p.1.clone()).collect();
            if !l.is_empty() {
                if !key.is_empty() {
                    key.push(';');
                }
                key.push_str(&format!("{what}[{}]", l.join("+")));
            }
        }
        return Err(fail(
            cell,
            &key,
            format!(
                "after {sent_n} paced RTP packets per stream nothing intact arrived for {:?} (canary lag {lag} ms)",
                missing
            ),
            json!({"missing": detail, "offer": obs.get("offer"), "answer": obs.get("answer"),
                   "intact": obs.get("rtp_intact"), "rx_tracks": obs.get("rx_tracks")}),
        ));
    }
    let a2b: u32 = intact.iter().filter(|(k, _)| k.0 == "A").map(|(_, v)| *v).sum();
    let b2a: u32 = intact.iter().filter(|(k, _)| k.0 == "B").map(|(_, v)| *v).sum();
    Ok((a2b, b2a))
}

// ------------------------------------------------------------------ driver

fn scenario(cell: &Cell, payload_seed: u64) -> Value {
    json!({"cell": cell.to_json(), "payload_seed": payload_seed})
}

const BASELINE: [Option<&str>; NDIM] = [
    None,             // mode: always part of the key
    None,             // media: always part of the key (reduced to the simplest failing sub-mix)
    Some("balanced"), // bundle
    Some("SS"),       // compat
    Some("RR"),       // rtcpmux
    Some("plain"),    // ice
    Some("off"),      // latch
    Some("A"),        // offerer
    Some("same"),     // order
];

fn with_dim(c: &Cell, d: usize, v: &'static str) -> Cell {
    let mut n = c.clone();
    match d {
        0 => n.mode = v,
        1 => n.media = v,
        2 => n.bundle = v,
        3 => n.compat = v,
        4 => n.rtcpmux = v,
        5 => n.ice = v,
        6 => n.latch = v,
        7 => n.offerer = v,
        _ => n.order = v,
    }
    n
}

/// Replace the media mix and reset the dimensions that only exist for larger mixes (R7, R8).
fn with_media(c: &Cell, m: &'static str) -> Cell {
    let mut n = with_dim(c, 1, m);
    if n.sections() < 2 {
        n.bundle = "balanced"; // R7
    }
    if n.kinds().len() < 2 {
        n.order = "same"; // R8
    }
    n
}

/// Projection of a cell on the dimensions that differ from the baseline (+ mode and media).
fn projection_key(c: &Cell, keep_all: bool, media_relevant: bool) -> String {
    let d = c.dims();
    let mut parts = vec![];
    for i in 0..NDIM {
        if i == 1 && !media_relevant && !keep_all {
            continue;
        }
        if keep_all || BASELINE[i].is_none() || BASELINE[i] != Some(d[i]) {
            parts.push(format!("{}={}", DIM_NAMES[i], d[i]));
        }
    }
    parts.join(",")
}

/// Does `key` (`dim=v,dim=v,...,fail=F`) describe this cell and failure?
fn key_matches(key: &str, cell: &Cell, fail: &str) -> bool {
    let Some((proj, f)) = key.split_once(",fail=") else {
        return false;
    };
    if f != fail {
        return false;
    }
    let d = cell.dims();
    proj.split(',').all(|kv| match kv.split_once('=') {
        // media: the key names the sections needed for the failure; larger mixes contain them
        Some(("media", v)) => v.split('+').all(|part| d[1].split('+').any(|x| x == part)),
        Some((k, v)) => DIM_NAMES
            .iter()
            .position(|n| *n == k)
            .is_some_and(|i| d[i] == v),
        None => false,
    })
}

fn sub_mixes(media: &str) -> Vec<&'static str> {
    // proper sub-mixes, simplest first
    let all: &[&'static str] = match media {
        "dc+audio+video" => &["audio", "video", "dc", "audio+video"],
        "audio+video" => &["audio", "video"],
        _ => &[],
    };
    all.to_vec()
}

/// Run a cell until it fails in `cat` (passing runs are cheap, so they are retried; rustrtc's own
/// randomness and the scheduler are not seedable).  Returns the `fail=` string on failure.
async fn fails_like(
    cell: Cell,
    cat: String,
    tries: u32,
    watchdog: Duration,
    sem: Arc<tokio::sync::Semaphore>,
) -> (Cell, Option<String>) {
    for t in 0..tries {
        let _p = sem.clone().acquire_owned().await;
        let c2 = cell.clone();
        let h = tokio::spawn(async move { run_cell(&c2, 0xC10 + t as u64, watchdog).await });
        if let Ok(o) = h.await {
            if let Verdict::Violated { key, .. } = &o.verdict {
                if *key == cat {
                    return (cell, Some(key.clone()));
                }
            }
        }
    }
    (cell, None)
}

/// One run of a cell, classified against an expected failure: 1 = same failure, 0 = cell passed,
/// 2 = something else (different failure / inconclusive).
async fn probe(
    cell: Cell,
    fail: String,
    salt: u64,
    watchdog: Duration,
    sem: Arc<tokio::sync::Semaphore>,
) -> u8 {
    let _p = sem.acquire_owned().await;
    let h = tokio::spawn(async move { run_cell(&cell, 0xC10C10 + salt, watchdog).await });
    match h.await {
        Ok(o) => match &o.verdict {
            Verdict::Violated { key, .. } if *key == fail => 1,
            Verdict::Held => 0,
            _ => 2,
        },
        Err(_) => 2,
    }
}

/// Delta-debug a failing cell towards the baseline: which dimensions are needed for the failure?
/// Returns (minimal failing cell, its fail string, deterministic?, media mix relevant?).
/// Stage 1: every single-dimension reset and media sub-mix in parallel; stage 2: the cell with all
/// individually irrelevant dimensions reset is probed 6x in parallel (deterministic = it never
/// passes and fails identically >= 3 times) together with the other single-section media mixes.
async fn minimise(
    cell: Cell,
    fail: String,
    watchdog: Duration,
    sem: Arc<tokio::sync::Semaphore>,
) -> (Cell, String, bool, bool) {
    let (mut m, mf, found) = minimise_inner(cell.clone(), fail.clone(), watchdog, sem.clone()).await;
    // outcomes of the minimal cell accumulated over up to 3 rounds of 6 probes: runs that end in a
    // *different* failure (another defect racing in) neither confirm nor refute and are repeated
    let (mut same, mut pass) = (0, 0);
    for attempt in 0..3 {
        let mut set = tokio::task::JoinSet::new();
        for k in 0..6u64 {
            let (c, f, s2) = (m.clone(), mf.clone(), sem.clone());
            set.spawn(async move { (None, probe(c, f, k, watchdog, s2).await) });
        }
        let others: Vec<Cell> = if m.sections() == 1 {
            ["audio", "video", "dc"]
                .iter()
                .filter(|x| **x != m.media)
                .map(|x| with_dim(&m, 1, intern_any(x)))
                .filter(|c| c.valid())
                .collect()
        } else {
            vec![]
        };
        let total = others.len();
        for c in others {
            let (f, s2) = (mf.clone(), sem.clone());
            set.spawn(async move {
                let (c2, r) = fails_like(c, f, 6, watchdog, s2).await;
                (Some(c2), if r.is_some() { 1 } else { 0 })
            });
        }
        let mut media_ok = 0;
        while let Some(r) = set.join_next().await {
            match r {
                Ok((None, 1)) => same += 1,
                Ok((None, 0)) => pass += 1,
                Ok((Some(_), 1)) => media_ok += 1,
                _ => {}
            }
        }
        if same >= 3 && pass == 0 {
            let media_relevant = !(m.sections() == 1 && total > 0 && media_ok == total);
            return (m, mf, true, media_relevant);
        }
        if pass > 0 || attempt == 2 {
            return (m, mf, false, true); // a race, not a configuration interaction
        }
        if same == 0 && attempt == 0 && found {
            // the jump candidate never failed: interacting dimensions – be conservative, keep the original cell
            m = cell.clone();
        }
    }
    (m, mf, false, true)
}

async fn minimise_inner(
    cell: Cell,
    fail: String,
    watchdog: Duration,
    sem: Arc<tokio::sync::Semaphore>,
) -> (Cell, String, bool) {
    // "the same failure" = the identical fail string (category, reason, directions and kinds)
    let cat = fail.clone();
    // round 1: every single-dimension reset and every media sub-mix, concurrently
    let mut cands: Vec<Cell> = vec![];
    let d = cell.dims();
    for i in 2..NDIM {
        if let Some(b) = BASELINE[i] {
            if d[i] != b {
                let c = with_dim(&cell, i, intern_any(b));
                if c.valid() {
                    cands.push(c);
                }
            }
        }
    }
    for m in sub_mixes(cell.media) {
        let c = with_media(&cell, m);
        if c.valid() {
            cands.push(c);
        }
    }
    let mut set = tokio::task::JoinSet::new();
    for c in cands {
        set.spawn(fails_like(c, cat.clone(), 6, watchdog, sem.clone()));
    }
    let mut still_fails: BTreeMap<Cell, String> = BTreeMap::new();
    while let Some(r) = set.join_next().await {
        if let Ok((c, Some(f))) = r {
            still_fails.insert(c, f);
        }
    }
    // jump: reset everything that was individually irrelevant
    let mut reduced = cell.clone();
    for m in sub_mixes(cell.media) {
        let c = with_media(&cell, m);
        if still_fails.contains_key(&c) {
            reduced = with_media(&reduced, m);
            break;
        }
    }
    for i in 2..NDIM {
        if let Some(b) = BASELINE[i] {
            if d[i] != b && still_fails.contains_key(&with_dim(&cell, i, intern_any(b))) {
                reduced = with_dim(&reduced, i, intern_any(b));
            }
        }
    }
    if reduced == cell {
        return (cell, fail, false);
    }
    if reduced.valid() {
        return (reduced, fail, true);
    }
    // fallback: greedy, one dimension at a time (interacting dimensions)
    let mut cur = cell.clone();
    let mut cur_fail = fail.clone();
    let mut any = false;
    for i in (1..NDIM).rev() {
        let tries: Vec<Cell> = if i == 1 {
            sub_mixes(cur.media)
                .into_iter()
                .map(|m| with_media(&cur, m))
                .collect()
        } else {
            match BASELINE[i] {
                Some(b) if cur.dims()[i] != b => vec![with_dim(&cur, i, intern_any(b))],
                _ => vec![],
            }
        };
        for c in tries {
            if !c.valid() {
                continue;
            }
            if let (_, Some(f)) = fails_like(c.clone(), cat.clone(), 3, watchdog, sem.clone()).await {
                cur = c;
                cur_fail = f;
                any = true;
                break;
            }
        }
    }
    if !any {
        let (_, f) = fails_like(cell.clone(), cat.clone(), 3, watchdog, sem.clone()).await;
        return (cell, f.clone().unwrap_or(fail), f.is_some());
    }
    (cur, cur_fail, true)
}

fn intern_any(s: &str) -> &'static str {
    for t in [MODES, MEDIA, BPOL, COMPAT, RTCPMUX, ICE, LATCH, OFFERER, ORDER] {
        if let Some(x) = intern(t, s) {
            return x;
        }
    }
    "?"
}

pub fn run(args: &Args) -> i32 {
    let mut report = Report::new(
        args,
        "exploration",
        "a cell is non-trivial when both PeerConnections reported Connected and at least one payload \
         (data-channel message or RTP packet) was compared byte-for-byte in each direction",
    );
    report.assume("both endpoints are rustrtc PeerConnections in one process on the loopback network (127.0.0.1 / local interface); no NAT, no loss injected");
    report.assume("'compatible' = same transport mode; invalid combinations are removed by rules R1..R7 written in engines/lattice.rs");
    report.assume("the RTP reference is what rustrtc's own RtpSenderInterceptor reports as sent (post documented seq/timestamp rewrite); payloads are compared against the harness-generated bytes");
    report.assume("watchdog expiry (no Failed/Closed reported by rustrtc) is inconclusive, never a violation");
    report.assume("'within the configured timeouts': all configurable connection-phase timers are set small (stun 1 s, nomination 1 s, ice connection 4 s, disconnect threshold 2 s, grace 1 s); a connect that neither completes nor fails is a violation only by the stall witness: 3 x B after signalling (B = stun + 6 x nomination + ice connection + grace = 12 s; + 30 s DTLS deadline once a DTLS transport exists) neither end is Connected/Failed/Closed, no observable state changed for the last B, canary lag <= 250 ms");
    report.assume("an ICE failure (IceFailed/IceDisconnected) reported while the scheduler canary lagged > 250 ms is inconclusive (the tight ICE timers are the harness's choice)");
    report.max_samples = 8;

    let lattice = full_lattice();
    let all_n = lattice.len();
    // must leave room for the stall witness (3 x B = 36 s) plus one canary-lag restart early in the wait
    let watchdog = Duration::from_secs(args.tier.pick(60, 90));
    let concurrency: usize = args
        .opt("--concurrency")
        .and_then(|s| s.parse().ok())
        .unwrap_or(args.tier.pick(16, 32));

    // ---- choose the cells
    let mut picked: Vec<(Cell, u64)> = vec![];
    let replaying = args.replay.is_some();
    let debugging = args.opt("--cells").is_some();
    if let Some(p) = &args.replay {
        let Some(sc) = load_replay(p) else {
            eprintln!("cannot load replay {}", p.display());
            return 2;
        };
        let Some(cell) = sc.get("cell").and_then(Cell::from_json) else {
            eprintln!("replay has no valid cell");
            return 2;
        };
        let ps = sc.get("payload_seed").and_then(|v| v.as_u64()).unwrap_or(1);
        for _ in 0..5 {
            picked.push((cell.clone(), ps));
        }
    } else if let Some(f) = args.opt("--cells") {
        // debugging aid: '+'-separated substrings that a cell key must contain
        let needles: Vec<&str> = f.split('+').collect();
        for c in &lattice {
            if needles.iter().all(|n| c.key().contains(n)) {
                picked.push((c.clone(), args.seed));
            }
        }
    } else {
        match args.tier {
            Tier::Thorough => {
                for (i, c) in lattice.iter().enumerate() {
                    picked.push((c.clone(), Rng::new(args.seed).fork(i as u64).next_u64()));
                }
                report.exhaustive = Some(true);
            }
            Tier::Quick => {
                // pairwise-covering subset, then seed-rotated random cells up to the budget
                let mut rng = Rng::new(args.seed).fork(0xC10);
                let mut idx = pairwise_subset(&lattice, &mut rng);
                report
                    .extra
                    .insert("pairwise_cells".into(), json!(idx.len()));
                let extra: usize = args
                    .opt("--extra")
                    .and_then(|s| s.parse().ok())
                    .unwrap_or(90);
                let mut have: HashSet<usize> = idx.iter().cloned().collect();
                let mut guard = 0;
                let target = (idx.len() + extra).min(lattice.len());
                while have.len() < target && guard < 100_000 {
                    guard += 1;
                    let i = rng.usize_below(lattice.len());
                    if have.insert(i) {
                        idx.push(i);
                    }
                    if have.len() == lattice.len() {
                        break;
                    }
                }
                for i in idx {
                    picked.push((lattice[i].clone(), Rng::new(args.seed).fork(i as u64).next_u64()));
                }
                report.exhaustive = Some(false);
            }
        }
    }
    if args.replay.is_none() {
        // tcp-only cells: rotate how much of the listen range is already occupied (0..=3 of 4 ports),
        // starting with the boundary case where only the last port of the range is free
        let mut j = 3u64 + args.seed;
        for (c, ps) in picked.iter_mut() {
            if c.ice == "tcponly" {
                *ps = (*ps & !3) | (j % 4);
                j += 1;
            }
        }
    }
    report.extra.insert(
        "lattice".into(),
        json!({
            "dimensions": {"mode": MODES, "media": MEDIA, "bundle": BPOL, "compat": COMPAT, "rtcpmux": RTCPMUX,
                            "ice": ICE, "latch": LATCH, "offerer": OFFERER, "order": ORDER},
            "valid_cells": all_n,
            "cells_run": picked.len(),
            "rules": ["R1 dc only webrtc", "R2 ice tcp/tcponly/mux only webrtc; lite also rtp; srtp plain",
                      "R3 never lite on both ends", "R4 mux/mux uses two different ports", "R5 tcponly: A active, B passive with tcp_port_range",
                      "R6 probation only rtp/srtp", "R7 bundle policy only with >=2 m-sections",
                      "R8 media add order only with >=2 media kinds"],
            "quick_coverage": "all pairs + triples (mode, asymmetric option, offerer) + triples (mode, compat, order!=same)",
            "connect_timers_ms": {"stun_timeout": T_STUN.as_millis() as u64, "nomination_timeout": T_NOMINATION.as_millis() as u64,
                                   "ice_connection_timeout": T_ICE_CONNECTION.as_millis() as u64,
                                   "ice_disconnect_threshold": T_ICE_DISCONNECT_THRESHOLD.as_millis() as u64,
                                   "ice_disconnect_grace": T_ICE_DISCONNECT_GRACE.as_millis() as u64,
                                   "bound_B": connect_bound(false).as_millis() as u64,
                                   "bound_B_dtls_started": connect_bound(true).as_millis() as u64},
        }),
    );

    let rt = build_runtime(16);
    let panics_before = panic_count();
    let sem = Arc::new(tokio::sync::Semaphore::new(concurrency));
    let results: Vec<(Cell, u64, Outcome, f64)> = rt.block_on(async {
        let mut set = tokio::task::JoinSet::new();
        for (cell, ps) in picked.clone() {
            let sem = sem.clone();
            set.spawn(async move {
                let _permit = sem.acquire_owned().await;
                let t0 = Instant::now();
                // the cell runs in its own task so that a panic inside the harness part is contained
                let c2 = cell.clone();
                let h = tokio::spawn(async move { run_cell(&c2, ps, watchdog).await });
                let out = match h.await {
                    Ok(o) => o,
                    Err(e) => Outcome {
                        verdict: Verdict::Inconclusive(format!("cell task died: {e}")),
                        obs: BTreeMap::new(),
                        nontrivial: false,
                    },
                };
                (cell, ps, out, t0.elapsed().as_secs_f64())
            });
        }
        let mut v = vec![];
        while let Some(r) = set.join_next().await {
            if let Ok(x) = r {
                v.push(x);
            }
        }
        v
    });
    // deterministic order in the evidence
    let mut results = results;
    results.sort_by(|x, y| x.0.cmp(&y.0));

    // ---- keys: known findings first, then projections minimised in this run
    let known: Vec<String> = {
        let mut k: Vec<String> = load_findings(&args.root)
            .into_iter()
            .filter(|f| f.property == args.prop && f.status == "open")
            .map(|f| f.key)
            .collect();
        k.sort_by_key(|k| std::cmp::Reverse(k.matches(',').count())); // most specific first
        k
    };
    let mut minimised: Vec<String> = vec![];
    let mut minimise_log: Vec<Value> = vec![];
    if let Some(p) = &args.replay {
        // report a reproduced failure under the key it was first reported with
        if let Some(k) = std::fs::read_to_string(p)
            .ok()
            .and_then(|t| serde_json::from_str::<Value>(&t).ok())
            .and_then(|v| v.get("key").and_then(|k| k.as_str()).map(String::from))
        {
            minimised.push(k);
        }
    }
    let viol: Vec<(Cell, String)> = results
        .iter()
        .filter_map(|(c, _, o, _)| match &o.verdict {
            Verdict::Violated { key, .. } => Some((c.clone(), key.clone())),
            _ => None,
        })
        .collect();
    let resolve = |c: &Cell, f: &str, minimised: &Vec<String>| -> Option<String> {
        known
            .iter()
            .chain(minimised.iter())
            .find(|k| key_matches(k, c, f))
            .cloned()
    };
    if !replaying && !args.has_flag("--no-minimise") {
        for _pass in 0..3 {
            // one representative per (mode, fail) among the still unresolved violations
            let mut reps: BTreeMap<(String, String), Cell> = BTreeMap::new();
            for (c, f) in &viol {
                if resolve(c, f, &minimised).is_none() {
                    reps.entry((c.mode.to_string(), f.clone())).or_insert(c.clone());
                }
            }
            if reps.is_empty() {
                break;
            }
            let reps: Vec<(Cell, String)> = reps.into_iter().map(|((_, f), c)| (c, f)).take(8).collect();
            let found: Vec<(Cell, String, Cell, String, bool, bool)> = rt.block_on(async {
                let mut set = tokio::task::JoinSet::new();
                for (c, f) in reps {
                    let sem = sem.clone();
                    set.spawn(async move {
                        let (m, mf, repro, mr) = minimise(c.clone(), f.clone(), watchdog, sem).await;
                        (c, f, m, mf, repro, mr)
                    });
                }
                let mut v = vec![];
                while let Some(r) = set.join_next().await {
                    if let Ok(x) = r {
                        v.push(x);
                    }
                }
                v
            });
            for (c, f, m, mf, repro, mr) in found {
                // A failure that does not reproduce is keyed by mode + failure only (a race, not a
                // configuration interaction); otherwise by the minimal failing projection.
                let key = if repro {
                    format!("{},fail={}", projection_key(&m, false, mr), mf)
                } else {
                    format!("mode={},fail={}", c.mode, f)
                };
                minimise_log.push(json!({"from": c.key(), "fail": f, "minimal": m.key(), "minimal_fail": mf,
                                         "deterministic": repro, "media_relevant": mr, "key": key}));
                if !minimised.contains(&key) {
                    minimised.push(key.clone());
                }
                // the representative itself must resolve, even if the minimal cell failed differently
                if !key_matches(&key, &c, &f) {
                    let k2 = format!("{},fail={}", projection_key(&c, true, true), f);
                    if !minimised.contains(&k2) {
                        minimised.push(k2);
                    }
                }
            }
        }
    }

    let mut inconclusive_cells = vec![];
    let mut slowest = 0f64;
    for (cell, ps, out, secs) in results {
        let sc = scenario(&cell, ps);
        slowest = slowest.max(secs);
        report.count(&format!("cells_mode_{}", cell.mode), 1);
        for (n, v) in DIM_NAMES.iter().zip(cell.dims()) {
            report.seen(&format!("dim_{n}"), v);
        }
        if out.obs.get("connected").is_some() {
            report.count("cells_connected_both", 1);
            if cell.ice == "tcponly" {
                report.seen("tcponly_connected_with_n_of_4_range_ports_occupied_by_others", (ps % 4).to_string());
            }
        }
        if out.obs.get("ekm_equal").is_some() {
            report.count("dtls_role_and_exporter_checked", 1);
        }
        if let Some(v) = out.obs.get("dtls_client").and_then(|v| v.as_str()) {
            report.seen("dtls_client_side", format!("offerer={},client={}", cell.offerer, v));
        }
        if let Some(v) = out.obs.get("selected_A").and_then(|v| v.as_str()) {
            report.seen("selected_pair_local", format!("ice={}→{}", cell.ice, v));
        }
        if out.obs.get("dc_bytes").is_some() {
            report.count("dc_messages_compared", 2);
        }
        if let Some(m) = out.obs.get("rtp_intact").and_then(|v| v.as_object()) {
            for (_, n) in m {
                report.count("rtp_packets_intact", n.as_u64().unwrap_or(0));
            }
            report.count("rtp_streams_checked", m.len() as u64);
        }
        for side in ["offer", "answer"] {
            if let Some(s) = out.obs.get(side) {
                let secs_n = s["sections"].as_array().map(|a| a.len()).unwrap_or(0);
                let mux = s["sections"]
                    .as_array()
                    .map(|a| a.iter().filter(|x| x["rtcp_mux"] == json!(true)).count())
                    .unwrap_or(0);
                report.seen(
                    &format!("sdp_shape_{side}"),
                    format!(
                        "mode={},sections={},bundle={},rtcp_mux_sections={},ice_lite={}",
                        cell.mode, secs_n, s["bundle"], mux, s["ice_lite"]
                    ),
                );
            }
        }
        let h = if out.nontrivial {
            Some(hash_value(&cell.to_json()))
        } else {
            None
        };
        if let Verdict::Inconclusive(w) = &out.verdict {
            inconclusive_cells.push(json!({"cell": cell.key(), "why": w, "obs": out.obs}));
        }
        if out.verdict.is_violated() || report.samples.len() < 4 {
            report.sample(json!({"cell": cell.key(), "seconds": (secs*100.0).round()/100.0, "observed": out.obs}));
        }
        let verdict = match out.verdict {
            Verdict::Violated { key, what, witness } => {
                let full = resolve(&cell, &key, &minimised)
                    .unwrap_or_else(|| format!("{},fail={}", projection_key(&cell, true, true), key));
                report.count("violating_cells", 1);
                Verdict::Violated {
                    key: full,
                    what: format!("{what} [first seen in cell {}]", cell.key()),
                    witness,
                }
            }
            v => v,
        };
        report.record(&sc, h, verdict);
    }
    let new_panics = panic_count() - panics_before;
    if new_panics > 0 {
        let ps = take_panics();
        let mut locs = BTreeSet::new();
        for p in &ps {
            locs.insert(format!("{} @ {}", p.message, norm_location(&p.location)));
        }
        report.count("panics_during_run", new_panics);
        report.note(format!("panics recorded during the run: {:?}", locs));
    }
    report
        .extra
        .insert("inconclusive_cells".into(), json!(inconclusive_cells));
    report.extra.insert("minimisation".into(), json!(minimise_log));
    report
        .extra
        .insert("slowest_cell_s".into(), json!((slowest * 100.0).round() / 100.0));
    drop(rt);
    let (min_v, min_n) = if replaying || debugging {
        (1, 0)
    } else {
        (
            args.tier.pick(60, (all_n as u64) * 8 / 10),
            args.tier.pick(50, (all_n as u64) * 7 / 10),
        )
    };
    report.finish(min_v, min_n)
}
