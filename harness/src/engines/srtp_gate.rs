//! C14 – SRTP-mandatory modes never send or accept cleartext media (`srtp_gate`).
//!
//! Component level: two real `RtpTransport`s (A is always `srtp_required = true`; B varies) each over a
//! real UDP socket whose peer is a harness socket.  The harness plays the ICE read loop (reads the
//! transport's socket and calls `IceConn::receive`, exactly one datagram at a time, like the production
//! loop) and the remote peer (captures every datagram the transport emits).
//!
//! Oracle (no more than the statement):
//!  * every datagram captured on the peer socket of an SRTP-mandatory transport opens (authenticates
//!    and decrypts) under a REFERENCE `webrtc-srtp` context holding that transport's session keys, tried
//!    as SRTP and as SRTCP.  Sequential histories: keys of the generation installed last.  Racing
//!    histories: keys of any generation whose `start_srtp` call had begun before the datagram was read.
//!    Hence nothing may arrive before the first key-install event.
//!  * everything that comes out of a mandatory transport on the inbound side (listener channel, RTCP
//!    listener, `RtpObserver::on_ingress`, the bridge target's egress observer, the bridge target's
//!    socket) is identified by an id the harness put into the packet; the id must belong to an injection
//!    that was protected, unmodified, under the transport's receive keys of an eligible generation.
//!    All inbound traffic is produced by the harness, so anything else is derived from cleartext,
//!    wrong-key, tampered, stale-key or reflected input.
//!  * dropping, returning `Err`, or not delivering is always accepted (the statement is a safety claim).
//!
//! Barriers, not sleeps: inbound – a harness barrier datagram behind the injections on the same socket
//! pair; the harness reader acknowledges it only after every earlier `receive()` returned.  Outbound – a
//! marker datagram written by the harness on the transport's own socket after the operation returned
//! (same socket pair ⇒ FIFO on loopback); everything captured before the marker belongs to operations
//! issued so far.
//!
//! SRTCP under AES_CM_128_HMAC_SHA1_32 keeps the 80-bit tag (RFC 5764 4.1.2; rustrtc used a 4-byte tag
//! before the C04 fix).  For that (profile, SRTCP) combination the harness uses its own RFC 3711
//! AES-CM/HMAC-SHA1 code (the reference does not check the tag when E=0, see open_rtcp).

#![allow(dead_code)]
use crate::common::*;
use bytes::Bytes;
use parking_lot::Mutex;
use rustrtc::peer_connection::RtpObserver;
use rustrtc::rtp::{
    GenericNack, Goodbye, PictureLossIndication, ReceiverReport, RtcpPacket, RtpHeader,
    RtpHeaderExtension, RtpPacket, SenderReport, marshal_rtcp_packets,
};
use rustrtc::srtp::{SrtpKeyingMaterial, SrtpProfile, SrtpSession};
use rustrtc::transports::PacketReceiver;
use rustrtc::transports::ice::IceSocketWrapper;
use rustrtc::transports::ice::conn::IceConn;
use rustrtc::transports::rtp::{RtpRewriteBridgeParams, RtpTransport};
use rustrtc::media::MediaStreamTrack;
use rustrtc::media::frame::{AudioFrame, MediaKind as FrameKind, MediaSample, VideoFrame};
use rustrtc::{MediaKind, PeerConnection, RtcConfiguration, SdpType, SessionDescription, TransportMode};
use serde_json::{Value, json};
use std::collections::BTreeMap;
use std::net::SocketAddr;
use std::sync::Arc;
use std::sync::atomic::{AtomicU64, Ordering};
use std::time::Duration;
use tokio::net::UdpSocket;
use tokio::sync::{mpsc, watch};
use webrtc_srtp::context::Context as RefCtx;
use webrtc_srtp::protection_profile::ProtectionProfile;

const MAGIC: &[u8; 4] = b"C14!";
const RTCP_SSRC_BASE: u32 = 0xC140_0000;
const BARRIER: &[u8; 4] = b"\0BAR";
const MARKER: &[u8; 4] = b"\0MRK";
const SYNC_TIMEOUT: Duration = Duration::from_secs(5);

// ------------------------------------------------------------------ profiles / keys

#[derive(Clone, Copy, PartialEq, Eq, Debug)]
enum Prof {
    S80,
    S32,
    Gcm,
}

impl Prof {
    fn name(self) -> &'static str {
        match self {
            Prof::S80 => "sha1_80",
            Prof::S32 => "sha1_32",
            Prof::Gcm => "gcm",
        }
    }
    fn from_name(s: &str) -> Prof {
        match s {
            "sha1_32" => Prof::S32,
            "gcm" => Prof::Gcm,
            _ => Prof::S80,
        }
    }
    fn from_index(i: u64) -> Prof {
        [Prof::S80, Prof::S32, Prof::Gcm][(i % 3) as usize]
    }
    fn rustrtc(self) -> SrtpProfile {
        match self {
            Prof::S80 => SrtpProfile::Aes128Sha1_80,
            Prof::S32 => SrtpProfile::Aes128Sha1_32,
            Prof::Gcm => SrtpProfile::AeadAes128Gcm,
        }
    }
    fn reference(self) -> ProtectionProfile {
        match self {
            Prof::S80 => ProtectionProfile::Aes128CmHmacSha1_80,
            Prof::S32 => ProtectionProfile::Aes128CmHmacSha1_32,
            Prof::Gcm => ProtectionProfile::AeadAes128Gcm,
        }
    }
    fn salt_len(self) -> usize {
        if self == Prof::Gcm { 12 } else { 14 }
    }
    fn rtp_tag(self) -> usize {
        match self {
            Prof::S80 => 10,
            Prof::S32 => 4,
            Prof::Gcm => 16,
        }
    }
    /// minimum length of an SRTCP datagram the reference can be asked about without underflow
    fn ref_rtcp_min(self) -> usize {
        match self {
            Prof::Gcm => 8 + 16 + 4,
            _ => 8 + 4 + 10,
        }
    }
}

/// Harness-own RFC 3711 SRTCP (AES-CM + HMAC-SHA1) with a configurable tag length; only used for
/// (AES_CM_128_HMAC_SHA1_32, SRTCP) where rustrtc's 4-byte tag differs from the reference's 10.
struct OwnSrtcp {
    k_e: Vec<u8>,
    k_a: Vec<u8>,
    k_s: Vec<u8>,
    tag_len: usize,
}

fn aes_cm(key: &[u8], iv: &[u8; 16], data: &mut [u8]) {
    use ctr::cipher::{KeyIvInit, StreamCipher};
    type Aes128Ctr = ctr::Ctr128BE<aes::Aes128>;
    if let Ok(mut c) = Aes128Ctr::new_from_slices(key, iv) {
        c.apply_keystream(data);
    }
}

fn hmac_sha1(key: &[u8], data: &[u8]) -> Vec<u8> {
    use hmac::{Hmac, Mac};
    let Ok(mut m) = <Hmac<sha1::Sha1> as Mac>::new_from_slice(key) else {
        return vec![];
    };
    m.update(data);
    m.finalize().into_bytes().to_vec()
}

impl OwnSrtcp {
    fn kdf(mk: &[u8], ms: &[u8], label: u8, len: usize) -> Vec<u8> {
        let mut iv = [0u8; 16];
        for (i, b) in ms.iter().take(14).enumerate() {
            iv[i] = *b;
        }
        iv[7] ^= label;
        let mut out = vec![0u8; len];
        aes_cm(mk, &iv, &mut out);
        out
    }
    fn new(mk: &[u8], ms: &[u8], tag_len: usize) -> OwnSrtcp {
        OwnSrtcp {
            k_e: Self::kdf(mk, ms, 3, 16),
            k_a: Self::kdf(mk, ms, 4, 20),
            k_s: Self::kdf(mk, ms, 5, 14),
            tag_len,
        }
    }
    fn iv(&self, ssrc: u32, index: u32) -> [u8; 16] {
        let mut iv = [0u8; 16];
        iv[..14].copy_from_slice(&self.k_s[..14]);
        for (i, b) in ssrc.to_be_bytes().iter().enumerate() {
            iv[4 + i] ^= b;
        }
        for (i, b) in index.to_be_bytes().iter().enumerate() {
            iv[10 + i] ^= b;
        }
        iv
    }
    fn protect(&self, plain: &[u8], index: u32) -> Option<Vec<u8>> {
        if plain.len() < 8 {
            return None;
        }
        let ssrc = u32::from_be_bytes([plain[4], plain[5], plain[6], plain[7]]);
        let mut p = plain.to_vec();
        aes_cm(&self.k_e, &self.iv(ssrc, index), &mut p[8..]);
        p.extend_from_slice(&(index | 0x8000_0000).to_be_bytes());
        let tag = hmac_sha1(&self.k_a, &p);
        p.extend_from_slice(&tag[..self.tag_len]);
        Some(p)
    }
    fn unprotect(&self, d: &[u8], require_e: bool) -> Option<Vec<u8>> {
        if d.len() < 8 + 4 + self.tag_len {
            return None;
        }
        if require_e && d[d.len() - self.tag_len - 4] & 0x80 == 0 {
            return None;
        }
        let split = d.len() - self.tag_len;
        let tag = hmac_sha1(&self.k_a, &d[..split]);
        if tag.len() < self.tag_len || tag[..self.tag_len] != d[split..] {
            return None;
        }
        let ix = u32::from_be_bytes([d[split - 4], d[split - 3], d[split - 2], d[split - 1]]);
        let mut p = d[..split - 4].to_vec();
        let ssrc = u32::from_be_bytes([p[4], p[5], p[6], p[7]]);
        if ix & 0x8000_0000 != 0 {
            aes_cm(&self.k_e, &self.iv(ssrc, ix & 0x7FFF_FFFF), &mut p[8..]);
        }
        Some(p)
    }
}

/// One key generation of one transport: tx = transport → peer, rx = peer → transport.
struct KeyGen {
    tx_key: Vec<u8>,
    tx_salt: Vec<u8>,
    rx_key: Vec<u8>,
    rx_salt: Vec<u8>,
    /// reference context that opens what the transport emits
    dec: Mutex<RefCtx>,
    /// reference context that produces what the transport must accept
    enc: Mutex<RefCtx>,
    own_dec: OwnSrtcp,
    own_enc: OwnSrtcp,
    own_index: AtomicU64,
    /// logical time at which `start_srtp` for this generation was entered (0 = never)
    started: AtomicU64,
}

impl KeyGen {
    fn new(rng: &mut Rng, prof: Prof) -> Result<KeyGen, String> {
        let tx_key = rng.bytes(16);
        let tx_salt = rng.bytes(prof.salt_len());
        let rx_key = rng.bytes(16);
        let rx_salt = rng.bytes(prof.salt_len());
        let dec = RefCtx::new(&tx_key, &tx_salt, prof.reference(), None, None)
            .map_err(|e| format!("reference context: {e}"))?;
        let enc = RefCtx::new(&rx_key, &rx_salt, prof.reference(), None, None)
            .map_err(|e| format!("reference context: {e}"))?;
        Ok(KeyGen {
            own_dec: OwnSrtcp::new(&tx_key, &tx_salt, 10 /* RFC 5764 4.1.2: SRTCP keeps the 80-bit tag under _32 too */),
            own_enc: OwnSrtcp::new(&rx_key, &rx_salt, 10 /* RFC 5764 4.1.2: SRTCP keeps the 80-bit tag under _32 too */),
            tx_key,
            tx_salt,
            rx_key,
            rx_salt,
            dec: Mutex::new(dec),
            enc: Mutex::new(enc),
            own_index: AtomicU64::new(0),
            started: AtomicU64::new(0),
        })
    }
    fn session(&self, prof: Prof) -> Result<SrtpSession, String> {
        SrtpSession::new(
            prof.rustrtc(),
            SrtpKeyingMaterial::new(self.tx_key.clone(), self.tx_salt.clone()),
            SrtpKeyingMaterial::new(self.rx_key.clone(), self.rx_salt.clone()),
        )
        .map_err(|e| format!("SrtpSession::new: {e}"))
    }
    /// open a captured datagram as SRTP under this generation's tx keys
    fn open_rtp(&self, prof: Prof, d: &[u8]) -> Option<Vec<u8>> {
        if d.len() < 12 + prof.rtp_tag() {
            return None;
        }
        self.dec.lock().decrypt_rtp(d).ok().map(|b| b.to_vec())
    }
    /// Open a captured datagram as SRTCP.  The reference's AES-CM `decrypt_rtcp` returns Ok WITHOUT
    /// checking the tag when the E bit is clear (ctrcipher.rs: `if is_encrypted == 0 { return Ok }`), so
    /// for the AES-CM profiles the harness-own RFC 3711 code decides (tag verified, E bit required:
    /// WebRTC / SDES never negotiate unencrypted SRTCP) and for _80 the reference must agree as well.
    fn open_rtcp(&self, prof: Prof, d: &[u8]) -> Option<Vec<u8>> {
        match prof {
            Prof::S32 => self.own_dec.unprotect(d, true),
            Prof::S80 => {
                let own = self.own_dec.unprotect(d, true)?;
                if d.len() < prof.ref_rtcp_min() {
                    return None;
                }
                let r = self.dec.lock().decrypt_rtcp(d).ok()?;
                if r[..] == own[..] { Some(own) } else { None }
            }
            Prof::Gcm => {
                if d.len() < prof.ref_rtcp_min() || d[d.len() - 4] & 0x80 == 0 {
                    return None;
                }
                self.dec.lock().decrypt_rtcp(d).ok().map(|b| b.to_vec())
            }
        }
    }
    fn seal_rtp(&self, plain: &[u8]) -> Option<Vec<u8>> {
        self.enc.lock().encrypt_rtp(plain).ok().map(|b| b.to_vec())
    }
    fn seal_rtcp(&self, prof: Prof, plain: &[u8]) -> Option<Vec<u8>> {
        if prof == Prof::S32 {
            let ix = self.own_index.fetch_add(1, Ordering::SeqCst) as u32 + 1;
            return self.own_enc.protect(plain, ix);
        }
        self.enc.lock().encrypt_rtcp(plain).ok().map(|b| b.to_vec())
    }
}

// ------------------------------------------------------------------ identities

#[derive(Clone, Copy, PartialEq, Eq, Debug)]
enum Class {
    Clear,
    Prot,
    Wrong,
    Tamper,
    Stale,
}

impl Class {
    fn label(self, rtcp: bool) -> String {
        let k = if rtcp { "rtcp" } else { "rtp" };
        match self {
            Class::Clear => format!("cleartext_{k}"),
            Class::Prot => format!("protected_{k}"),
            Class::Wrong => format!("wrong_key_{k}"),
            Class::Tamper => format!("tampered_{k}"),
            Class::Stale => format!("stale_key_{k}"),
        }
    }
}

#[derive(Clone, Debug)]
enum IdKind {
    /// produced by a send-type operation on `side`
    Out { side: usize, op: &'static str },
    /// injected towards `side`
    In {
        side: usize,
        class: Class,
        gen_ix: Option<usize>,
        rtcp: bool,
        payload: Vec<u8>,
    },
}

fn find_magic_id(bytes: &[u8]) -> Option<u32> {
    if bytes.len() < 8 {
        return None;
    }
    for i in 0..=bytes.len() - 8 {
        if &bytes[i..i + 4] == MAGIC {
            return Some(u32::from_be_bytes([
                bytes[i + 4],
                bytes[i + 5],
                bytes[i + 6],
                bytes[i + 7],
            ]));
        }
    }
    None
}

fn rtcp_ssrc_id(ssrc: u32) -> Option<u32> {
    if ssrc & 0xFFF0_0000 == RTCP_SSRC_BASE {
        Some(ssrc & 0x000F_FFFF)
    } else {
        None
    }
}

fn rtcp_bytes_id(plain: &[u8]) -> Option<u32> {
    if plain.len() < 8 {
        return None;
    }
    rtcp_ssrc_id(u32::from_be_bytes([plain[4], plain[5], plain[6], plain[7]]))
}

fn rtcp_packet_ssrc(p: &RtcpPacket) -> Option<u32> {
    match p {
        RtcpPacket::SenderReport(x) => Some(x.sender_ssrc),
        RtcpPacket::ReceiverReport(x) => Some(x.sender_ssrc),
        RtcpPacket::Goodbye(x) => x.sources.first().copied(),
        RtcpPacket::PictureLossIndication(x) => Some(x.sender_ssrc),
        RtcpPacket::FullIntraRequest(x) => Some(x.sender_ssrc),
        RtcpPacket::GenericNack(x) => Some(x.sender_ssrc),
        RtcpPacket::RemoteBitrateEstimate(x) => Some(x.sender_ssrc),
        _ => None,
    }
}

// ------------------------------------------------------------------ rig

/// what an `RtpObserver` saw: (ingress?, payload)
struct Obs {
    log: Mutex<Vec<(bool, Bytes)>>,
}

impl RtpObserver for Obs {
    fn on_ingress(&self, packet: &RtpPacket, _src: SocketAddr) {
        self.log.lock().push((true, packet.payload.clone()));
    }
    fn on_egress(&self, packet: &RtpPacket, _dst: SocketAddr) {
        self.log.lock().push((false, packet.payload.clone()));
    }
}

struct Side {
    ix: usize,
    required: bool,
    prof: Prof,
    sock: Arc<UdpSocket>,
    peer: Arc<UdpSocket>,
    sock_addr: SocketAddr,
    peer_addr: SocketAddr,
    _sock_tx: watch::Sender<Option<IceSocketWrapper>>,
    conn: Arc<IceConn>,
    tr: Arc<RtpTransport>,
    /// gens[..n-1] may be installed; gens[n-1] is the "wrong key" (never installed)
    gens: Vec<KeyGen>,
    obs: Arc<Obs>,
    rtp_tx: mpsc::Sender<(RtpPacket, SocketAddr)>,
    rtcp_tx: mpsc::Sender<Vec<RtcpPacket>>,
    /// (logical time of capture, datagram) in arrival order
    captured: Arc<Mutex<Vec<(u64, Vec<u8>)>>>,
    tasks: Mutex<Vec<tokio::task::JoinHandle<()>>>,
}

struct SideRx {
    rtp_rx: mpsc::Receiver<(RtpPacket, SocketAddr)>,
    rtcp_rx: mpsc::Receiver<Vec<RtcpPacket>>,
    marker_rx: mpsc::UnboundedReceiver<u32>,
    barrier_rx: mpsc::UnboundedReceiver<u32>,
}

const LISTEN_SSRCS: [u32; 2] = [0x0B00_0001, 0x0B00_0002];

impl Side {
    fn listen(&self) {
        self.tr.register_provisional_listener(self.rtp_tx.clone());
        self.tr.register_listener_sync(LISTEN_SSRCS[0], self.rtp_tx.clone());
        self.tr.register_rtcp_listener(self.rtcp_tx.clone());
    }
    fn wrong(&self) -> &KeyGen {
        &self.gens[self.gens.len() - 1]
    }
}

async fn make_side(
    ix: usize,
    required: bool,
    prof: Prof,
    n_gens: usize,
    abs_ext: bool,
    rng: &mut Rng,
    tick: Arc<AtomicU64>,
) -> Result<(Arc<Side>, SideRx), String> {
    let sock = Arc::new(UdpSocket::bind("127.0.0.1:0").await.map_err(|e| format!("bind: {e}"))?);
    let peer = Arc::new(UdpSocket::bind("127.0.0.1:0").await.map_err(|e| format!("bind: {e}"))?);
    let sock_addr = sock.local_addr().map_err(|e| e.to_string())?;
    let peer_addr = peer.local_addr().map_err(|e| e.to_string())?;
    let (sock_tx, sock_rx) = watch::channel(Some(IceSocketWrapper::Udp(sock.clone())));
    let conn = IceConn::new(sock_rx, peer_addr, Some(format!("c14-{ix}")));
    let tr = Arc::new(RtpTransport::new(conn.clone(), required));
    conn.set_rtp_receiver(tr.clone());
    if abs_ext {
        tr.set_abs_send_time_extension_id(Some(3));
    }
    let mut gens = vec![];
    for _ in 0..n_gens + 1 {
        gens.push(KeyGen::new(rng, prof)?);
    }
    let obs = Arc::new(Obs { log: Mutex::new(vec![]) });
    tr.add_observer(obs.clone());
    let (rtp_tx, rtp_rx) = mpsc::channel(8192);
    let (rtcp_tx, rtcp_rx) = mpsc::channel(8192);
    let (marker_tx, marker_rx) = mpsc::unbounded_channel();
    let (barrier_tx, barrier_rx) = mpsc::unbounded_channel();
    let captured = Arc::new(Mutex::new(Vec::new()));

    // harness = ICE read loop of the transport: one datagram at a time, awaited to completion
    let reader = {
        let sock = sock.clone();
        let conn = conn.clone();
        tokio::spawn(async move {
            let mut buf = vec![0u8; 2048];
            let mut mbuf = Vec::new();
            loop {
                let Ok((n, src)) = sock.recv_from(&mut buf).await else { break };
                if src != peer_addr {
                    continue; // stray datagram of another process on loopback
                }
                if n == 8 && &buf[..4] == BARRIER {
                    let _ = barrier_tx.send(u32::from_be_bytes([buf[4], buf[5], buf[6], buf[7]]));
                    continue;
                }
                conn.receive(Bytes::copy_from_slice(&buf[..n]), src, &mut mbuf).await;
            }
        })
    };
    // harness = remote peer: capture everything the transport emits
    let collector = {
        let peer = peer.clone();
        let captured = captured.clone();
        tokio::spawn(async move {
            let mut buf = vec![0u8; 2048];
            loop {
                let Ok((n, src)) = peer.recv_from(&mut buf).await else { break };
                if src != sock_addr {
                    continue; // not emitted by the transport under test (other processes share loopback)
                }
                if n == 8 && &buf[..4] == MARKER {
                    let _ = marker_tx.send(u32::from_be_bytes([buf[4], buf[5], buf[6], buf[7]]));
                    continue;
                }
                let t = tick.fetch_add(1, Ordering::SeqCst) + 1;
                captured.lock().push((t, buf[..n].to_vec()));
            }
        })
    };
    let side = Arc::new(Side {
        ix,
        required,
        prof,
        sock,
        peer,
        sock_addr,
        peer_addr,
        _sock_tx: sock_tx,
        conn,
        tr,
        gens,
        obs,
        rtp_tx,
        rtcp_tx,
        captured,
        tasks: Mutex::new(vec![reader, collector]),
    });
    side.listen();
    Ok((side, SideRx { rtp_rx, rtcp_rx, marker_rx, barrier_rx }))
}

struct Rig {
    sides: [Arc<Side>; 2],
    rx: [SideRx; 2],
    tick: Arc<AtomicU64>,
    sync_no: u32,
}

impl Rig {
    /// inbound barriers on both sides, then outbound markers on both sides
    async fn sync(&mut self) -> Result<(), String> {
        self.sync_no += 1;
        let n = self.sync_no;
        for s in 0..2 {
            let mut d = BARRIER.to_vec();
            d.extend_from_slice(&n.to_be_bytes());
            let side = self.sides[s].clone();
            side.peer.send_to(&d, side.sock_addr).await.map_err(|e| format!("barrier send: {e}"))?;
            loop {
                match tokio::time::timeout(SYNC_TIMEOUT, self.rx[s].barrier_rx.recv()).await {
                    Ok(Some(k)) if k == n => break,
                    Ok(Some(_)) => continue,
                    Ok(None) => return Err("reader task ended".into()),
                    Err(_) => return Err("inbound barrier not acknowledged (watchdog)".into()),
                }
            }
        }
        for s in 0..2 {
            let mut d = MARKER.to_vec();
            d.extend_from_slice(&n.to_be_bytes());
            let side = self.sides[s].clone();
            side.sock.send_to(&d, side.peer_addr).await.map_err(|e| format!("marker send: {e}"))?;
            loop {
                match tokio::time::timeout(SYNC_TIMEOUT, self.rx[s].marker_rx.recv()).await {
                    Ok(Some(k)) if k == n => break,
                    Ok(Some(_)) => continue,
                    Ok(None) => return Err("collector task ended".into()),
                    Err(_) => return Err("outbound marker not seen (watchdog)".into()),
                }
            }
        }
        Ok(())
    }

    async fn teardown(&mut self) {
        for s in &self.sides {
            s.tr.clear_bridge_rewrite();
            s.tr.clear_observers();
            s.tr.clear_listeners();
            let hs: Vec<_> = std::mem::take(&mut *s.tasks.lock());
            for h in &hs {
                h.abort();
            }
            for h in hs {
                let _ = h.await;
            }
        }
    }
}

// ------------------------------------------------------------------ operations

const A_OPS: [&str; 20] = [
    "keys", "send_rtp", "send_raw_rtp", "send_raw_rtcp", "send_rtcp", "bye_sync", "in_clear_rtp",
    "in_clear_rtcp", "in_prot_rtp", "in_prot_rtcp", "in_wrong_rtp", "in_wrong_rtcp", "in_tamper_rtp",
    "in_tamper_rtcp", "in_stale_rtp", "in_reflect", "bridge", "unbridge", "clear_listeners", "listen",
];
const B_OPS: [&str; 7] =
    ["keys", "send_rtp", "in_clear_rtp", "in_prot_rtp", "in_tamper_rtp", "bridge", "unbridge"];
const CORE_OPS: [&str; 12] = [
    "A.keys", "A.send_rtp", "A.send_raw_rtp", "A.send_rtcp", "A.bye_sync", "A.in_clear_rtp",
    "A.in_prot_rtp", "A.in_clear_rtcp", "A.in_prot_rtcp", "A.bridge", "B.in_clear_rtp", "B.bridge",
];

fn full_alphabet() -> Vec<String> {
    let mut v: Vec<String> = A_OPS.iter().map(|o| format!("A.{o}")).collect();
    v.extend(B_OPS.iter().map(|o| format!("B.{o}")));
    v
}

fn intern_op(name: &str) -> &'static str {
    A_OPS.iter().find(|o| **o == name).copied().unwrap_or("unknown")
}

fn parse_op(s: &str) -> Option<(usize, &'static str)> {
    let (side, name) = s.split_once('.')?;
    let side = match side {
        "A" => 0,
        "B" => 1,
        _ => return None,
    };
    let name = intern_op(name);
    if name == "unknown" { None } else { Some((side, name)) }
}

/// an operation with all its bytes decided (so that racing tasks never touch the reference contexts)
enum Built {
    Keys { side: usize, gen_ix: usize },
    SendRtp { side: usize, pkt: RtpPacket },
    SendRaw { side: usize, bytes: Vec<u8> },
    SendRtcp { side: usize, pkts: Vec<RtcpPacket> },
    ByeSync { side: usize, pkts: Vec<RtcpPacket> },
    Inject { side: usize, bytes: Vec<u8>, direct: bool },
    Reflect { side: usize },
    Bridge { side: usize, params: RtpRewriteBridgeParams },
    Unbridge { side: usize },
    ClearListeners { side: usize },
    Listen { side: usize },
    Nop,
}

/// mutable build-time state (driver only)
struct Builder {
    rng: Rng,
    ids: Vec<IdKind>,
    out_seq: [u16; 2],
    in_seq: [u16; 2],
    /// generation that the next "keys" op of a side installs
    next_gen: [usize; 2],
    /// generation that build-time considers current (last keys op built for the side)
    cur_gen: [Option<usize>; 2],
    direct_rx: bool,
}

impl Builder {
    fn new_id(&mut self, k: IdKind) -> u32 {
        self.ids.push(k);
        (self.ids.len() - 1) as u32
    }
    fn payload(&mut self, id: u32) -> Vec<u8> {
        let mut p = MAGIC.to_vec();
        p.extend_from_slice(&id.to_be_bytes());
        let n = self.rng.range(12, 40) as usize;
        p.extend(self.rng.bytes(n));
        p
    }
    fn out_rtp(&mut self, side: usize, op: &'static str) -> RtpPacket {
        let id = self.new_id(IdKind::Out { side, op });
        let payload = self.payload(id);
        self.out_seq[side] = self.out_seq[side].wrapping_add(1);
        let ssrc = 0x0A00_0001 + (side as u32) * 16 + self.rng.below(2) as u32;
        let pt = *self.rng.pick(&[0u8, 8, 96, 111]);
        let mut h = RtpHeader::new(pt, self.out_seq[side], self.rng.u32(), ssrc);
        h.marker = self.rng.chance(1, 4);
        if self.rng.chance(1, 4) {
            h.csrcs = vec![self.rng.u32()];
        }
        if self.rng.chance(1, 3) {
            h.extension = Some(RtpHeaderExtension::new(0xBEDE, vec![0x10, 0xAA, 0, 0]));
        }
        let mut p = RtpPacket::new(h, payload);
        if self.rng.chance(1, 5) {
            p.padding_len = self.rng.range(1, 8) as u8;
        }
        p
    }
    fn rtcp_packets(&mut self, id: u32, bye: bool) -> Vec<RtcpPacket> {
        let ssrc = RTCP_SSRC_BASE | (id & 0x000F_FFFF);
        let mut v = vec![];
        let which = if bye { 4 } else { self.rng.below(5) };
        match which {
            0 => v.push(RtcpPacket::ReceiverReport(ReceiverReport { sender_ssrc: ssrc, report_blocks: vec![] })),
            1 => v.push(RtcpPacket::SenderReport(SenderReport {
                sender_ssrc: ssrc,
                ntp_most: self.rng.u32(),
                ntp_least: self.rng.u32(),
                rtp_timestamp: self.rng.u32(),
                packet_count: 7,
                octet_count: 700,
                report_blocks: vec![],
            })),
            2 => v.push(RtcpPacket::PictureLossIndication(PictureLossIndication { sender_ssrc: ssrc, media_ssrc: ssrc })),
            3 => v.push(RtcpPacket::GenericNack(GenericNack { sender_ssrc: ssrc, media_ssrc: ssrc, lost_packets: vec![10, 11, 14] })),
            _ => {
                if self.rng.bool() {
                    v.push(RtcpPacket::ReceiverReport(ReceiverReport { sender_ssrc: ssrc, report_blocks: vec![] }));
                }
                v.push(RtcpPacket::Goodbye(Goodbye { sources: vec![ssrc], reason: None }));
            }
        }
        if !bye && self.rng.chance(1, 3) {
            v.push(RtcpPacket::PictureLossIndication(PictureLossIndication { sender_ssrc: ssrc, media_ssrc: ssrc }));
        }
        v
    }
    /// cleartext RTP bytes for an injection (hand-made header; second byte never in 192..=208)
    fn in_rtp_plain(&mut self, side: usize, payload: &[u8]) -> Vec<u8> {
        self.in_seq[side] = self.in_seq[side].wrapping_add(1);
        let pt = *self.rng.pick(&[0u8, 8, 96, 111]);
        let m = if self.rng.chance(1, 4) { 0x80 } else { 0 };
        let ssrc = if self.rng.bool() { LISTEN_SSRCS[0] } else { LISTEN_SSRCS[1] + self.rng.below(3) as u32 };
        let mut d = vec![0x80, m | pt];
        d.extend_from_slice(&self.in_seq[side].to_be_bytes());
        d.extend_from_slice(&self.rng.u32().to_be_bytes());
        d.extend_from_slice(&ssrc.to_be_bytes());
        d.extend_from_slice(payload);
        d
    }
    fn tamper(&mut self, mut d: Vec<u8>, rtcp: bool) -> Vec<u8> {
        let n = d.len();
        match self.rng.below(5) {
            0 => {
                // flip a bit in the trailing tag / index area
                let i = n - 1 - self.rng.usize_below(4.min(n));
                d[i] ^= 1 << self.rng.below(8);
            }
            1 => {
                // flip a bit in the body
                let lo = if rtcp { 8 } else { 12 };
                if n > lo + 1 {
                    let i = lo + self.rng.usize_below(n - lo);
                    d[i] ^= 1 << self.rng.below(8);
                } else {
                    d[n - 1] ^= 1;
                }
            }
            2 => {
                // flip a header bit that keeps the demultiplexing class (seq / ts / ssrc bytes)
                let i = if rtcp { 4 + self.rng.usize_below(4) } else { 2 + self.rng.usize_below(10) };
                d[i] ^= 1 << self.rng.below(8);
            }
            3 => {
                let cut = self.rng.range(1, 4) as usize;
                d.truncate(n.saturating_sub(cut).max(2));
            }
            _ => d.push(self.rng.u8()),
        }
        d
    }

    fn build(&mut self, sides: &[Arc<Side>; 2], side: usize, op: &'static str) -> Built {
        let s = &sides[side];
        match op {
            "keys" => {
                let g = self.next_gen[side];
                if g + 1 >= s.gens.len() {
                    return Built::Nop;
                }
                self.next_gen[side] += 1;
                self.cur_gen[side] = Some(g);
                Built::Keys { side, gen_ix: g }
            }
            "send_rtp" => Built::SendRtp { side, pkt: self.out_rtp(side, "send_rtp") },
            "send_raw_rtp" => {
                let pkt = self.out_rtp(side, "send_raw");
                let mut bytes = pkt.marshal().unwrap_or_default();
                if self.rng.chance(1, 5) {
                    // arbitrary bytes behind a plausible first byte
                    let n = self.rng.range(13, 60) as usize;
                    let mut g = self.rng.bytes(n);
                    g[0] = 0x80;
                    g[1] &= 0x7F;
                    g.extend_from_slice(&bytes[12.min(bytes.len())..]);
                    bytes = g;
                }
                Built::SendRaw { side, bytes }
            }
            "send_raw_rtcp" => {
                let id = self.new_id(IdKind::Out { side, op: "send_raw" });
                let pkts = self.rtcp_packets(id, false);
                Built::SendRaw { side, bytes: marshal_rtcp_packets(&pkts).unwrap_or_default() }
            }
            "send_rtcp" => {
                let id = self.new_id(IdKind::Out { side, op: "send_rtcp" });
                Built::SendRtcp { side, pkts: self.rtcp_packets(id, false) }
            }
            "bye_sync" => {
                let id = self.new_id(IdKind::Out { side, op: "send_rtcp_sync" });
                Built::ByeSync { side, pkts: self.rtcp_packets(id, true) }
            }
            "in_reflect" => Built::Reflect { side },
            "bridge" => {
                let params = RtpRewriteBridgeParams {
                    ssrc_offset: self.rng.below(4) as u32,
                    fixed_out_ssrc: if self.rng.bool() { Some(0x0C00_0001 + side as u32) } else { None },
                    payload_type: if self.rng.bool() { Some(8) } else { None },
                    dtmf_payload_type: if self.rng.chance(1, 4) { Some((96, 101)) } else { None },
                    initial_sequence_number: Some(5000),
                    initial_timestamp_offset: Some(self.rng.u32()),
                    strip_extensions: self.rng.bool(),
                };
                Built::Bridge { side, params }
            }
            "unbridge" => Built::Unbridge { side },
            "clear_listeners" => Built::ClearListeners { side },
            "listen" => Built::Listen { side },
            _ if op.starts_with("in_") => {
                let rtcp = op.ends_with("_rtcp");
                let class = match op {
                    "in_clear_rtp" | "in_clear_rtcp" => Class::Clear,
                    "in_prot_rtp" | "in_prot_rtcp" => Class::Prot,
                    "in_wrong_rtp" | "in_wrong_rtcp" => Class::Wrong,
                    "in_tamper_rtp" | "in_tamper_rtcp" => Class::Tamper,
                    _ => Class::Stale,
                };
                // generation the packet is protected under
                let cur = self.cur_gen[side];
                let gen_ix = match class {
                    Class::Clear => None,
                    Class::Wrong => Some(s.gens.len() - 1),
                    Class::Stale => match cur {
                        // previous generation if there is one, else a generation not (yet) installed
                        Some(g) if g > 0 => Some(g - 1),
                        Some(g) => Some((g + 1).min(s.gens.len() - 1)),
                        None => Some(0),
                    },
                    _ => Some(cur.unwrap_or(0)),
                };
                let id = self.ids.len() as u32;
                let (plain, payload) = if rtcp {
                    let pk = self.rtcp_packets(id, false);
                    (marshal_rtcp_packets(&pk).unwrap_or_default(), vec![])
                } else {
                    let payload = self.payload(id);
                    (self.in_rtp_plain(side, &payload), payload)
                };
                self.ids.push(IdKind::In { side, class, gen_ix, rtcp, payload });
                let bytes = match gen_ix {
                    None => plain,
                    Some(g) => {
                        let kg = &s.gens[g];
                        let sealed = if rtcp { kg.seal_rtcp(s.prof, &plain) } else { kg.seal_rtp(&plain) };
                        match sealed {
                            Some(b) if class == Class::Tamper => self.tamper(b, rtcp),
                            Some(b) => b,
                            None => return Built::Nop,
                        }
                    }
                };
                let direct = self.direct_rx && self.rng.bool();
                Built::Inject { side, bytes, direct }
            }
            _ => Built::Nop,
        }
    }
}

#[derive(Default, Clone, Copy)]
struct ExecOut {
    /// Some(ok) for send-type operations
    send_ok: Option<bool>,
    harness_err: bool,
}

async fn exec(b: Built, sides: &[Arc<Side>; 2], tick: &AtomicU64) -> ExecOut {
    let mut out = ExecOut::default();
    match b {
        Built::Keys { side, gen_ix } => {
            let s = &sides[side];
            let g = &s.gens[gen_ix];
            match g.session(s.prof) {
                Ok(sess) => {
                    g.started.store(tick.fetch_add(1, Ordering::SeqCst) + 1, Ordering::SeqCst);
                    s.tr.start_srtp(sess);
                }
                Err(_) => out.harness_err = true,
            }
        }
        Built::SendRtp { side, pkt } => out.send_ok = Some(sides[side].tr.send_rtp(pkt).await.is_ok()),
        Built::SendRaw { side, bytes } => out.send_ok = Some(sides[side].tr.send(&bytes).await.is_ok()),
        Built::SendRtcp { side, pkts } => out.send_ok = Some(sides[side].tr.send_rtcp(&pkts).await.is_ok()),
        Built::ByeSync { side, pkts } => {
            sides[side].tr.send_rtcp_sync(&pkts);
        }
        Built::Inject { side, bytes, direct } => {
            let s = &sides[side];
            if direct {
                let mut mbuf = Vec::new();
                s.conn.receive(Bytes::from(bytes), s.peer_addr, &mut mbuf).await;
            } else if s.peer.send_to(&bytes, s.sock_addr).await.is_err() {
                out.harness_err = true;
            }
        }
        Built::Reflect { side } => {
            let s = &sides[side];
            let last = s.captured.lock().last().map(|x| x.1.clone());
            if let Some(d) = last {
                if s.peer.send_to(&d, s.sock_addr).await.is_err() {
                    out.harness_err = true;
                }
            }
        }
        Built::Bridge { side, params } => {
            sides[side].tr.bridge_rewrite_to(sides[1 - side].tr.clone(), params)
        }
        Built::Unbridge { side } => sides[side].tr.clear_bridge_rewrite(),
        Built::ClearListeners { side } => {
            sides[side].tr.clear_listeners();
        }
        Built::Listen { side } => sides[side].listen(),
        Built::Nop => {}
    }
    out
}

// ------------------------------------------------------------------ oracle

#[derive(Default)]
struct Outcome {
    violations: Vec<(String, String, Value)>,
    inconclusive: Option<String>,
    counters: BTreeMap<String, u64>,
    seen: Vec<(String, String)>,
}

impl Outcome {
    fn count(&mut self, k: &str) {
        *self.counters.entry(k.to_string()).or_insert(0) += 1;
    }
    fn get(&self, k: &str) -> u64 {
        self.counters.get(k).copied().unwrap_or(0)
    }
    fn violate(&mut self, key: String, what: String, witness: Value) {
        if !self.violations.iter().any(|v| v.0 == key) && self.violations.len() < 8 {
            self.violations.push((key, what, witness));
        }
    }
}

struct Judge {
    /// sequential history: only the generation installed last is eligible
    seq: bool,
    cur_gen: [Option<usize>; 2],
    cap_cursor: [usize; 2],
    obs_cursor: [usize; 2],
    cur_op: String,
    out: Outcome,
}

impl Judge {
    fn eligible(&self, sides: &[Arc<Side>; 2], side: usize, g: usize, at_tick: u64) -> bool {
        let s = &sides[side];
        if g + 1 >= s.gens.len() {
            return false; // the wrong key is never a session key
        }
        if self.seq {
            self.cur_gen[side] == Some(g)
        } else {
            let st = s.gens[g].started.load(Ordering::SeqCst);
            st != 0 && st < at_tick
        }
    }

    fn any_keys(&self, sides: &[Arc<Side>; 2], side: usize, at_tick: u64) -> bool {
        (0..sides[side].gens.len() - 1).any(|g| {
            let st = sides[side].gens[g].started.load(Ordering::SeqCst);
            st != 0 && st < at_tick
        })
    }

    /// (is_rtcp, generation, plaintext) if the datagram opens under some generation accepted by `pred`
    fn open(&self, s: &Side, d: &[u8], pred: &dyn Fn(usize) -> bool) -> Option<(bool, usize, Vec<u8>)> {
        for g in 0..s.gens.len() - 1 {
            if pred(g) {
                if let Some(p) = s.gens[g].open_rtp(s.prof, d) {
                    return Some((false, g, p));
                }
            }
        }
        for g in 0..s.gens.len() - 1 {
            if pred(g) {
                if let Some(p) = s.gens[g].open_rtcp(s.prof, d) {
                    return Some((true, g, p));
                }
            }
        }
        None
    }

    fn plain_id(rtcp: bool, plain: &[u8]) -> Option<u32> {
        if rtcp { rtcp_bytes_id(plain) } else { find_magic_id(plain) }
    }

    /// Something derived from an inbound packet left mandatory transport `in_side` through `sink`.
    /// Demand: it is an unmodified injection protected under an eligible generation of in_side's rx keys.
    fn delivery(
        &mut self,
        sides: &[Arc<Side>; 2],
        ids: &[IdKind],
        sink: &str,
        in_side: usize,
        id: Option<u32>,
        payload: Option<&[u8]>,
    ) {
        let keys = if self.any_keys(sides, in_side, u64::MAX) { "installed" } else { "none" };
        let side_name = ["A", "B"][in_side];
        let info = id.and_then(|i| ids.get(i as usize));
        let bad: Option<String> = match info {
            None => Some("unidentifiable".into()),
            Some(IdKind::Out { .. }) => Some("reflected_outbound".into()),
            Some(IdKind::In { side, .. }) if *side != in_side => Some("foreign".into()),
            Some(IdKind::In { class, gen_ix, rtcp, payload: want, .. }) => {
                let authentic = matches!(class, Class::Prot | Class::Stale)
                    && gen_ix.map(|g| self.eligible(sides, in_side, g, u64::MAX)).unwrap_or(false);
                if !authentic {
                    Some(class.label(*rtcp))
                } else if let Some(p) = payload {
                    if !*rtcp && p != &want[..] { Some("modified_payload".into()) } else { None }
                } else {
                    None
                }
            }
        };
        match bad {
            None => {
                self.out.count(&format!("delivered_authentic:{sink}"));
            }
            Some(b) => {
                let key = format!("sink={sink},accepted={b},keys={keys}");
                let what = format!(
                    "SRTP-mandatory transport {side_name} passed a {b} inbound packet to {sink} (session keys: {keys})"
                );
                let w = json!({"sink": sink, "side": side_name, "id": id, "op": self.cur_op,
                               "payload": payload.map(|p| hex_cap(p, 48))});
                self.out.violate(key, what, w);
            }
        }
    }

    /// judge everything that became visible since the last call
    fn drain(&mut self, sides: &[Arc<Side>; 2], rx: &mut [SideRx; 2], ids: &[IdKind]) {
        // ---- datagrams on the peer sockets
        for x in 0..2 {
            let s = sides[x].clone();
            let new: Vec<(u64, Vec<u8>)> = {
                let c = s.captured.lock();
                c[self.cap_cursor[x]..].to_vec()
            };
            self.cap_cursor[x] += new.len();
            for (t, d) in new {
                self.out.count("datagrams_captured");
                if s.required {
                    let opened = self.open(&s, &d, &|g| self.eligible(sides, x, g, t));
                    match opened {
                        Some((rtcp, _g, plain)) => {
                            self.out.count(if rtcp { "datagram_verified_srtcp" } else { "datagram_verified_srtp" });
                            let id = Self::plain_id(rtcp, &plain);
                            match id.and_then(|i| ids.get(i as usize)) {
                                Some(IdKind::Out { op, .. }) => {
                                    self.out.seen.push(("verified_paths".into(), format!("{op}:{}", if rtcp { "srtcp" } else { "srtp" })));
                                }
                                Some(IdKind::In { side: y, payload, .. }) => {
                                    self.out.seen.push(("verified_paths".into(), "bridge:srtp".into()));
                                    if *y != x && sides[*y].required {
                                        let pl = payload.clone();
                                        let got = find_payload(&plain, &pl);
                                        self.delivery(sides, ids, "bridge_target_socket", *y, id, got.as_deref());
                                    }
                                }
                                None => {}
                            }
                        }
                        None => self.leak(sides, ids, x, t, &d),
                    }
                } else {
                    // non-mandatory transport: only the bridged-peer clause applies
                    let any = self.any_keys(sides, x, u64::MAX);
                    let (rtcp, plain) = if any {
                        match self.open(&s, &d, &|g| s.gens[g].started.load(Ordering::SeqCst) != 0) {
                            Some((r, _, p)) => (r, p),
                            None => {
                                // keys may have been installed after this datagram was emitted in clear
                                (is_rtcp_bytes(&d), d.clone())
                            }
                        }
                    } else {
                        (is_rtcp_bytes(&d), d.clone())
                    };
                    match Self::plain_id(rtcp, &plain).and_then(|i| ids.get(i as usize).map(|k| (i, k))) {
                        Some((i, IdKind::In { side: y, payload, .. })) if *y != x => {
                            if sides[*y].required {
                                let pl = payload.clone();
                                let got = find_payload(&plain, &pl);
                                self.delivery(sides, ids, "bridge_target_socket", *y, Some(i), got.as_deref());
                            }
                        }
                        Some(_) => {}
                        None => {
                            self.out.count("optional_side_datagram_unattributed");
                            if std::env::var("C14_DEBUG").is_ok() {
                                eprintln!("unattributed side={x} any_keys={any} rtcp={rtcp} d={}", hex_cap(&d, 80));
                            }
                        }
                    }
                }
            }
        }
        // ---- listener channels, RTCP listener, observers
        for x in 0..2 {
            let req = sides[x].required;
            while let Ok((p, _)) = rx[x].rtp_rx.try_recv() {
                if req {
                    let id = find_magic_id(&p.payload);
                    self.delivery(sides, ids, "listener", x, id, Some(&p.payload));
                } else {
                    self.out.count("optional_side_listener_delivery");
                }
            }
            while let Ok(v) = rx[x].rtcp_rx.try_recv() {
                if !req {
                    continue;
                }
                if v.is_empty() {
                    self.delivery(sides, ids, "rtcp_listener", x, None, None);
                }
                for p in &v {
                    let id = rtcp_packet_ssrc(p).and_then(rtcp_ssrc_id);
                    self.delivery(sides, ids, "rtcp_listener", x, id, None);
                }
            }
            let new: Vec<(bool, Bytes)> = {
                let l = sides[x].obs.log.lock();
                l[self.obs_cursor[x]..].to_vec()
            };
            self.obs_cursor[x] += new.len();
            for (ingress, payload) in new {
                let id = find_magic_id(&payload);
                if ingress {
                    if req {
                        self.delivery(sides, ids, "observer_ingress", x, id, Some(&payload));
                    }
                } else {
                    // egress observer of x: own sends carry Out ids (not inbound-derived); packets
                    // relayed into x by the bridge carry the other side's In ids
                    match id.and_then(|i| ids.get(i as usize)) {
                        Some(IdKind::In { side: y, .. }) if *y != x && sides[*y].required => {
                            let y = *y;
                            self.delivery(sides, ids, "bridge_target_egress_observer", y, id, Some(&payload));
                        }
                        Some(_) => {}
                        None => {
                            // not an own send and not identifiable: can only stem from the other side's inbound
                            if sides[1 - x].required {
                                self.delivery(sides, ids, "bridge_target_egress_observer", 1 - x, None, Some(&payload));
                            }
                        }
                    }
                }
            }
        }
    }

    /// a datagram on the peer socket of mandatory transport x does not open under an eligible generation
    fn leak(&mut self, sides: &[Arc<Side>; 2], ids: &[IdKind], x: usize, t: u64, d: &[u8]) {
        let s = &sides[x];
        let have_keys = if self.seq { self.cur_gen[x].is_some() } else { self.any_keys(sides, x, t) };
        // does it open under a generation that is not eligible (old / not yet installed / wrong)?
        let stale = self.open(s, d, &|_| true);
        let clear_id = find_magic_id(d).or_else(|| if is_rtcp_bytes(d) { rtcp_bytes_id(d) } else { None });
        let id = match &stale {
            Some((rtcp, _, plain)) => Self::plain_id(*rtcp, plain),
            None => clear_id,
        };
        let path: String = match id.and_then(|i| ids.get(i as usize)) {
            Some(IdKind::Out { op, .. }) => op.to_string(),
            Some(IdKind::In { .. }) => "bridge".into(),
            None if self.seq => self.cur_op.split('.').nth(1).unwrap_or("unknown").to_string(),
            None => "unknown".into(),
        };
        let leak = match (&stale, clear_id.is_some(), have_keys) {
            (Some(_), _, true) => "stale_or_foreign_session_keys",
            (Some(_), _, false) => "protected_before_key_install",
            (None, true, false) => "cleartext_before_keys",
            (None, true, true) => "cleartext",
            (None, false, false) => "unprotected_before_keys",
            (None, false, true) => "not_under_session_keys",
        };
        let key = format!("op={path},leak={leak}");
        let what = format!(
            "datagram emitted by SRTP-mandatory transport {} via {path} does not open under the session keys ({leak})",
            ["A", "B"][x]
        );
        let sn = ["A", "B"][x];
        let w = json!({"side": sn, "op": self.cur_op, "profile": s.prof.name(),
                       "datagram": hex_cap(d, 64), "len": d.len(), "keys_installed": have_keys});
        self.out.violate(key, what, w);
    }
}

fn is_rtcp_bytes(d: &[u8]) -> bool {
    d.len() >= 8 && (d[0] >> 6) == 2 && (192..=223).contains(&d[1])
}

/// the harness payload (magic + id + filler) inside a decrypted / clear RTP packet, if intact
fn find_payload(plain: &[u8], want: &[u8]) -> Option<Vec<u8>> {
    if want.is_empty() || plain.len() < want.len() {
        return None;
    }
    for i in 0..=plain.len() - want.len() {
        if &plain[i..i + 4.min(want.len())] == &want[..4.min(want.len())] {
            let end = (i + want.len()).min(plain.len());
            return Some(plain[i..end].to_vec());
        }
    }
    None
}

// ------------------------------------------------------------------ PeerConnection level (NatWire)
//
// Two real PeerConnections (SDES `TransportMode::Srtp`, or WebRTC with the DTLS exporter read through
// hook H5) whose exchanged SDP has every address rewritten to a two-socket harness forwarder.  Every
// forwarded datagram whose first byte is 128..=191 must open under the sender's keys (reference
// context); cleartext RTP/RTCP injected by the forwarder must never surface on the receiving track.


fn b64_decode(s: &str) -> Vec<u8> {
    let mut out = vec![];
    let mut acc = 0u32;
    let mut bits = 0;
    for c in s.bytes() {
        let v = match c {
            b'A'..=b'Z' => c - b'A',
            b'a'..=b'z' => c - b'a' + 26,
            b'0'..=b'9' => c - b'0' + 52,
            b'+' => 62,
            b'/' => 63,
            _ => continue,
        } as u32;
        acc = (acc << 6) | v;
        bits += 6;
        if bits >= 8 {
            bits -= 8;
            out.push((acc >> bits) as u8);
            acc &= (1 << bits) - 1;
        }
    }
    out
}

/// (suite, key||salt) of the first a=crypto line
fn sdes_key(sdp: &str) -> Option<(Prof, Vec<u8>)> {
    for l in sdp.lines() {
        if let Some(v) = l.trim().strip_prefix("a=crypto:") {
            let mut it = v.split_whitespace();
            let _tag = it.next()?;
            let suite = it.next()?;
            let kp = it.next()?;
            let b64 = kp.strip_prefix("inline:")?.split('|').next()?;
            let prof = match suite {
                "AES_CM_128_HMAC_SHA1_80" => Prof::S80,
                "AES_CM_128_HMAC_SHA1_32" => Prof::S32,
                "AEAD_AES_128_GCM" => Prof::Gcm,
                _ => return None,
            };
            return Some((prof, b64_decode(b64)));
        }
    }
    None
}

/// first `m=<kind> <port>` port and first `c=IN IP4 <addr>` address
fn sdp_media_addr(sdp: &str) -> Option<SocketAddr> {
    let mut ip = None;
    let mut port = None;
    for l in sdp.lines() {
        let l = l.trim();
        if ip.is_none() {
            if let Some(v) = l.strip_prefix("c=IN IP4 ") {
                ip = v.split('/').next().map(|s| s.trim().to_string());
            }
        }
        if port.is_none() && (l.starts_with("m=audio ") || l.starts_with("m=video ")) {
            port = l.split_whitespace().nth(1).and_then(|p| p.parse::<u16>().ok());
        }
    }
    format!("{}:{}", ip?, port?).parse().ok()
}

/// address of the first IPv4 UDP host candidate
fn sdp_candidate_addr(sdp: &str) -> Option<SocketAddr> {
    for l in sdp.lines() {
        if let Some(v) = l.trim().strip_prefix("a=candidate:") {
            let f: Vec<&str> = v.split_whitespace().collect();
            if f.len() > 5 && f[2].eq_ignore_ascii_case("udp") {
                if let Ok(a) = format!("{}:{}", f[4], f[5]).parse::<SocketAddr>() {
                    return Some(a);
                }
            }
        }
    }
    None
}

/// rewrite every place where the media address appears to `to`
fn sdp_rewrite(sdp: &str, real: SocketAddr, to: SocketAddr) -> String {
    let mut out = String::new();
    for l in sdp.lines() {
        let t = l.trim_end();
        let nl = if t.starts_with("m=audio ") || t.starts_with("m=video ") {
            let mut f: Vec<String> = t.split(' ').map(|s| s.to_string()).collect();
            if f.len() > 1 {
                f[1] = to.port().to_string();
            }
            f.join(" ")
        } else if t.starts_with("c=IN IP4 ") {
            format!("c=IN IP4 {}", to.ip())
        } else if t.starts_with("a=rtcp:") {
            format!("a=rtcp:{} IN IP4 {}", to.port(), to.ip())
        } else if t.starts_with("a=candidate:") {
            let mut f: Vec<String> = t.split(' ').map(|s| s.to_string()).collect();
            if f.len() > 5 {
                f[4] = to.ip().to_string();
                f[5] = to.port().to_string();
            }
            f.join(" ")
        } else {
            t.replace(&real.to_string(), &to.to_string())
        };
        out.push_str(&nl);
        out.push_str("\r\n");
    }
    out
}

struct PcWire {
    /// (direction 0 = pc1→pc2, 1 = pc2→pc1, datagram)
    log: Arc<Mutex<Vec<(usize, Vec<u8>)>>>,
    f: [Arc<UdpSocket>; 2],
    tasks: Vec<tokio::task::JoinHandle<()>>,
}

async fn pc_wire(real: Arc<Mutex<[Option<SocketAddr>; 2]>>, drop_every: u64) -> Result<PcWire, String> {
    let f1 = Arc::new(UdpSocket::bind("127.0.0.1:0").await.map_err(|e| e.to_string())?);
    let f2 = Arc::new(UdpSocket::bind("127.0.0.1:0").await.map_err(|e| e.to_string())?);
    let log = Arc::new(Mutex::new(Vec::new()));
    let mut tasks = vec![];
    for dir in 0..2 {
        let (rx_sock, tx_sock) = if dir == 0 { (f1.clone(), f2.clone()) } else { (f2.clone(), f1.clone()) };
        let log = log.clone();
        let real = real.clone();
        tasks.push(tokio::spawn(async move {
            let mut buf = vec![0u8; 2048];
            let mut media_no = 0u64;
            loop {
                let Ok((n, src)) = rx_sock.recv_from(&mut buf).await else { break };
                let (from, to) = {
                    let r = real.lock();
                    (r[dir], r[1 - dir])
                };
                // only traffic of the PeerConnection on this side (other processes share loopback)
                if from.map(|a| a.port()) != Some(src.port()) {
                    if std::env::var("C14_DEBUG").is_ok() {
                        eprintln!("wire dir={dir}: dropped datagram from {src} (expected {from:?})");
                    }
                    continue;
                }
                log.lock().push((dir, buf[..n].to_vec()));
                // loss for NACK / RTX: every k-th media datagram of direction 0 is captured but not forwarded
                let k = drop_every;
                if k > 0 && dir == 0 && n > 1 && (128..=191).contains(&buf[0]) && !(192..=223).contains(&buf[1]) {
                    media_no += 1;
                    if media_no % k == 0 {
                        continue;
                    }
                }
                if let Some(to) = to {
                    let _ = tx_sock.send_to(&buf[..n], to).await;
                }
            }
        }));
    }
    Ok(PcWire { log, f: [f1, f2], tasks })
}

async fn run_pc_scenario(sc: &Value) -> Outcome {
    // connection establishment itself is other properties' business: retry a pair that did not come up
    let mut o = Outcome::default();
    for _ in 0..4 {
        o = Outcome::default();
        match tokio::time::timeout(Duration::from_secs(40), run_pc_inner(sc, &mut o)).await {
            Ok(Ok(())) => return o,
            Ok(Err(e)) => o.inconclusive = Some(format!("pc level: {e}")),
            Err(_) => o.inconclusive = Some("pc level: watchdog".into()),
        }
        if !o.violations.is_empty() {
            o.inconclusive = None;
            return o;
        }
    }
    o
}

/// SDES-SRTP PeerConnection whose key negotiation cannot complete: the remote description carries no
/// usable `a=crypto` (none at all / an inline key too short for any suite / not base64).  No session
/// keys exist in such a history, so by the statement nothing RTP/RTCP-like may be emitted (samples
/// pushed into the sending track, the close-time BYE) and cleartext sent to the connection's port may
/// not surface on the receiving track.  Whether the description is rejected or the connection fails
/// is not judged.  The remote peer is a bare harness socket.
async fn run_pc_nokeys(sc: &Value, o: &mut Outcome) -> Result<(), String> {
    let debug = std::env::var("C14_DEBUG").is_ok();
    let mut rng = Rng::new(sc["pseed"].as_u64().unwrap_or(1));
    let brk = sc["break"].as_str().unwrap_or("no_crypto").to_string();
    let answerer = sc["pc_role"].as_str() == Some("answerer");
    let video = sc["video"].as_bool().unwrap_or(false);
    let mut c = RtcConfiguration::default();
    c.transport_mode = TransportMode::Srtp;
    c.bind_ip = Some("127.0.0.1".into());
    let pc = PeerConnection::new(c);
    let params = if video {
        rustrtc::peer_connection::RtpCodecParameters { payload_type: 96, name: "VP8".into(), clock_rate: 90000, channels: 0 }
    } else {
        rustrtc::peer_connection::RtpCodecParameters { payload_type: 0, name: "PCMU".into(), clock_rate: 8000, channels: 1 }
    };
    let fk = if video { FrameKind::Video } else { FrameKind::Audio };
    let (src, track, _fb) = rustrtc::media::track::sample_track(fk, 100);
    pc.add_track(track, params).map_err(|e| format!("add_track: {e}"))?;
    let peer = UdpSocket::bind("127.0.0.1:0").await.map_err(|e| e.to_string())?;
    let peer_addr = peer.local_addr().map_err(|e| e.to_string())?;
    let crypto_line = match brk.as_str() {
        "short_key" => "a=crypto:1 AES_CM_128_HMAC_SHA1_80 inline:AAECAwQFBgcICQ==\r\n".to_string(),
        "not_base64" => "a=crypto:1 AES_CM_128_HMAC_SHA1_80 inline:!!!!????####$$$$%%%%^^^^&&&&****((((~~~~\r\n".to_string(),
        _ => String::new(),
    };
    let (kind, fmt, rtpmap) = if video { ("video", 96, "VP8/90000") } else { ("audio", 0, "PCMU/8000") };
    let remote_sdp = |mid: &str| {
        format!(
            "v=0\r\no=- 1 1 IN IP4 {ip}\r\ns=-\r\nc=IN IP4 {ip}\r\nt=0 0\r\nm={kind} {port} RTP/SAVP {fmt}\r\na=mid:{mid}\r\na=rtpmap:{fmt} {rtpmap}\r\n{crypto_line}a=sendrecv\r\n",
            ip = peer_addr.ip(),
            port = peer_addr.port()
        )
    };
    let mut set_remote_ok = false;
    let local_sdp;
    if answerer {
        let offer = SessionDescription::parse(SdpType::Offer, &remote_sdp("0")).map_err(|e| format!("parse offer: {e}"))?;
        match pc.set_remote_description(offer).await {
            Ok(()) => set_remote_ok = true,
            Err(_) => {}
        }
        let mut l = None;
        if set_remote_ok {
            if pc.create_answer().await.is_ok() {
                pc.wait_for_gathering_complete().await;
                if let Ok(a) = pc.create_answer().await {
                    if pc.set_local_description(a.clone()).is_ok() {
                        l = Some(a.to_sdp_string());
                    }
                }
            }
        }
        if l.is_none() {
            // refused: find the port anyway through an offer of its own, so that cleartext can be aimed at it
            let _ = pc.create_offer().await;
            pc.wait_for_gathering_complete().await;
            l = pc.create_offer().await.ok().map(|d| d.to_sdp_string());
        }
        local_sdp = l.ok_or("no local description")?;
    } else {
        let _ = pc.create_offer().await.map_err(|e| format!("create_offer: {e}"))?;
        pc.wait_for_gathering_complete().await;
        let offer = pc.create_offer().await.map_err(|e| format!("create_offer: {e}"))?;
        pc.set_local_description(offer.clone()).map_err(|e| format!("set_local: {e}"))?;
        local_sdp = offer.to_sdp_string();
        let mid = offer.media_sections.first().map(|m| m.mid.clone()).unwrap_or_else(|| "0".into());
        let answer = SessionDescription::parse(SdpType::Answer, &remote_sdp(&mid)).map_err(|e| format!("parse answer: {e}"))?;
        set_remote_ok = pc.set_remote_description(answer).await.is_ok();
    }
    if debug {
        eprintln!("--- nokeys break={brk} answerer={answerer} set_remote_ok={set_remote_ok}\n{local_sdp}");
    }
    let pc_addr = sdp_media_addr(&local_sdp).ok_or("local description has no media address")?;
    o.count(if set_remote_ok { "pc_nokeys_remote_accepted" } else { "pc_nokeys_remote_refused" });
    // let the transport start (or fail) - bounded, not judged
    let mut st = pc.subscribe_peer_state();
    let _ = tokio::time::timeout(Duration::from_millis(1500), async {
        loop {
            if matches!(*st.borrow(), rustrtc::PeerConnectionState::Failed | rustrtc::PeerConnectionState::Connected) {
                break;
            }
            if st.changed().await.is_err() {
                break;
            }
        }
    })
    .await;
    tokio::time::sleep(Duration::from_millis(100)).await;

    let leaked = Arc::new(AtomicU64::new(0));
    let mut rtasks = vec![];
    for t in pc.get_transceivers() {
        if let Some(r) = t.receiver() {
            let tr = r.track();
            let leaked = leaked.clone();
            rtasks.push(tokio::spawn(async move {
                while let Ok(s) = tr.recv().await {
                    let data = match &s {
                        MediaSample::Audio(a) => a.data.clone(),
                        MediaSample::Video(v) => v.data.clone(),
                    };
                    if find_magic_id(&data).is_some() {
                        leaked.fetch_add(1, Ordering::SeqCst);
                    }
                }
            }));
        }
    }
    let ssrc = rng.u32();
    for i in 0..20u32 {
        // cleartext RTP (and a PLI) from the address the connection believes to be its peer
        let mut p = vec![0x80u8, fmt as u8 | if i == 0 { 0x80 } else { 0 }];
        p.extend_from_slice(&(1000 + i as u16).to_be_bytes());
        p.extend_from_slice(&(i * 160).to_be_bytes());
        p.extend_from_slice(&ssrc.to_be_bytes());
        p.extend_from_slice(MAGIC);
        p.extend_from_slice(&i.to_be_bytes());
        p.extend(rng.bytes(152));
        let _ = peer.send_to(&p, pc_addr).await;
        o.count("pc_cleartext_injected");
        o.count("injected_before_keys");
        if i % 5 == 0 {
            let pli = marshal_rtcp_packets(&[RtcpPacket::PictureLossIndication(PictureLossIndication {
                sender_ssrc: RTCP_SSRC_BASE | 1,
                media_ssrc: RTCP_SSRC_BASE | 1,
            })])
            .unwrap_or_default();
            let _ = peer.send_to(&pli, pc_addr).await;
        }
        // the sending track keeps producing: nothing of it may leave without keys
        let sample = if video {
            MediaSample::Video(VideoFrame { rtp_timestamp: i * 3000, data: Bytes::from(vec![0x55u8; 300]), is_last_packet: true, ..Default::default() })
        } else {
            MediaSample::Audio(AudioFrame { rtp_timestamp: i * 160, clock_rate: 8000, data: Bytes::from(vec![0x55u8; 160]), ..Default::default() })
        };
        let _ = src.send(sample);
        if i % 4 == 1 {
            let h = RtpHeader::new(101, 40000 + i as u16, i * 160, 0x0D7F_0001);
            let r = pc.send_raw_rtp(RtpPacket::new(h, vec![1, 0x0a, 0, 160])).await;
            o.count(if r.is_ok() { "pc_send_raw_rtp_ok_without_keys" } else { "pc_send_raw_rtp_refused_without_keys" });
        }
        tokio::time::sleep(Duration::from_millis(5)).await;
    }
    tokio::time::sleep(Duration::from_millis(sc["linger_ms"].as_u64().unwrap_or(300))).await;
    pc.close();
    // outbound barrier: everything the connection wrote before close() returned sits in the peer
    // socket's queue already (loopback); drain until quiet
    let mut emitted: Vec<Vec<u8>> = vec![];
    let mut buf = vec![0u8; 2048];
    while let Ok(Ok((n, _))) = tokio::time::timeout(Duration::from_millis(400), peer.recv_from(&mut buf)).await {
        if n >= 2 && (128..=191).contains(&buf[0]) {
            emitted.push(buf[..n].to_vec());
        } else {
            o.count("pc_other_datagrams");
        }
    }
    for t in rtasks {
        t.abort();
    }
    o.count("pc_nokeys_scenarios");
    if let Some(d) = emitted.first() {
        let rtcp_like = is_rtcp_bytes(d);
        o.violate(
            format!("level=pc,mode=sdes,keys=never_negotiated,kind={},leak=emitted_without_keys", if rtcp_like { "rtcp" } else { "rtp" }),
            "an SDES-SRTP connection whose remote description carries no usable key emitted RTP/RTCP".into(),
            json!({"break": brk, "role": if answerer { "answerer" } else { "offerer" }, "datagrams": emitted.len(), "first": hex_cap(d, 64)}),
        );
    }
    if leaked.load(Ordering::SeqCst) > 0 {
        o.violate(
            "level=pc,mode=sdes,keys=never_negotiated,sink=track,accepted=cleartext_rtp".into(),
            "cleartext RTP sent to an SDES-SRTP connection that has no keys surfaced on the receiving track".into(),
            json!({"break": brk, "role": if answerer { "answerer" } else { "offerer" }, "samples_with_harness_magic": leaked.load(Ordering::SeqCst)}),
        );
    }
    o.seen.push(("pc_nokeys_variants".into(), format!("{brk}:{}:{}", if answerer { "answerer" } else { "offerer" }, if set_remote_ok { "accepted" } else { "refused" })));
    Ok(())
}

async fn run_pc_inner(sc: &Value, o: &mut Outcome) -> Result<(), String> {
    if sc["pc_mode"].as_str() == Some("sdes_nokeys") {
        return run_pc_nokeys(sc, o).await;
    }
    let debug = std::env::var("C14_DEBUG").is_ok();
    let webrtc = sc["pc_mode"].as_str() == Some("webrtc");
    let mut rng = Rng::new(sc["pseed"].as_u64().unwrap_or(1));
    let mk = || {
        let mut c = RtcConfiguration::default();
        c.transport_mode = if webrtc { TransportMode::WebRtc } else { TransportMode::Srtp };
        c.bind_ip = Some("127.0.0.1".into());
        c
    };
    let pc1 = PeerConnection::new(mk());
    let pc2 = PeerConnection::new(mk());
    let video = sc["video"].as_bool().unwrap_or(false);
    let drop_every = sc["drop_every"].as_u64().unwrap_or(0);
    let params = if video {
        rustrtc::peer_connection::RtpCodecParameters { payload_type: 96, name: "VP8".into(), clock_rate: 90000, channels: 0 }
    } else {
        rustrtc::peer_connection::RtpCodecParameters { payload_type: 0, name: "PCMU".into(), clock_rate: 8000, channels: 1 }
    };
    let fk = if video { FrameKind::Video } else { FrameKind::Audio };
    let (src1, track1, _fb1) = rustrtc::media::track::sample_track(fk, 100);
    let (src2, track2, _fb2) = rustrtc::media::track::sample_track(fk, 100);
    pc1.add_track(track1, params.clone()).map_err(|e| format!("add_track: {e}"))?;
    pc2.add_track(track2, params.clone()).map_err(|e| format!("add_track: {e}"))?;
    let _ = MediaKind::Audio;

    let real = Arc::new(Mutex::new([None, None]));
    let wire = pc_wire(real.clone(), drop_every).await?;
    let f_addr = [
        wire.f[0].local_addr().map_err(|e| e.to_string())?,
        wire.f[1].local_addr().map_err(|e| e.to_string())?,
    ];

    // same order as tests/media_flow.rs: a first offer triggers gathering, the second carries candidates
    let _ = pc1.create_offer().await.map_err(|e| format!("create_offer: {e}"))?;
    pc1.wait_for_gathering_complete().await;
    let offer = pc1.create_offer().await.map_err(|e| format!("create_offer: {e}"))?;
    pc1.set_local_description(offer.clone()).map_err(|e| format!("set_local: {e}"))?;
    let offer_s = offer.to_sdp_string();
    if debug {
        eprintln!("--- offer\n{offer_s}");
    }
    let a1 = if webrtc { sdp_candidate_addr(&offer_s) } else { sdp_media_addr(&offer_s) }.ok_or("offer has no media address")?;
    real.lock()[0] = Some(a1);
    // pc2 must see the forwarder socket that faces pc2 (f[1]) as pc1's address
    let offer_rw = sdp_rewrite(&offer_s, a1, f_addr[1]);
    let offer_rw = SessionDescription::parse(SdpType::Offer, &offer_rw).map_err(|e| format!("parse offer: {e}"))?;
    pc2.set_remote_description(offer_rw).await.map_err(|e| format!("set_remote(offer): {e}"))?;
    let _ = pc2.create_answer().await.map_err(|e| format!("create_answer: {e}"))?;
    pc2.wait_for_gathering_complete().await;
    let answer = pc2.create_answer().await.map_err(|e| format!("create_answer: {e}"))?;
    pc2.set_local_description(answer.clone()).map_err(|e| format!("set_local(answer): {e}"))?;
    let answer_s = answer.to_sdp_string();
    if debug {
        eprintln!("--- answer\n{answer_s}");
    }
    let a2 = if webrtc { sdp_candidate_addr(&answer_s) } else { sdp_media_addr(&answer_s) }.ok_or("answer has no media address")?;
    real.lock()[1] = Some(a2);
    let answer_rw = sdp_rewrite(&answer_s, a2, f_addr[0]);
    let answer_rw = SessionDescription::parse(SdpType::Answer, &answer_rw).map_err(|e| format!("parse answer: {e}"))?;
    pc1.set_remote_description(answer_rw).await.map_err(|e| format!("set_remote(answer): {e}"))?;

    let c1 = tokio::time::timeout(Duration::from_secs(5), pc1.wait_for_connected()).await;
    let c2 = tokio::time::timeout(Duration::from_secs(5), pc2.wait_for_connected()).await;
    if debug {
        eprintln!("connected: {:?} {:?}", c1.as_ref().map(|r| r.is_ok()), c2.as_ref().map(|r| r.is_ok()));
    }
    let modename = if webrtc { "webrtc" } else { "sdes" };
    if debug {
        eprintln!("wait_for_connected: {:?} / {:?}", c1, c2);
    }
    // SDES has no handshake: wait_for_connected is only awaited there, not required
    if webrtc && (!matches!(c1, Ok(Ok(()))) || !matches!(c2, Ok(Ok(())))) {
        pc1.close();
        pc2.close();
        return Err(format!("{modename} pair did not connect through the forwarder"));
    }
    // ctx[dir] = the key sets a datagram of that direction may be protected under
    let prof;
    let mut ctx: [Vec<(RefCtx, OwnSrtcp)>; 2] = [vec![], vec![]];
    if webrtc {
        let d1 = pc1.verif_dtls().ok_or("H5: no dtls transport")?;
        let id = match d1.get_state() {
            rustrtc::transports::dtls::DtlsState::Connected(_, p) => p,
            _ => return Err("dtls not connected".into()),
        };
        prof = match id {
            Some(2) => Prof::S32,
            Some(7) => Prof::Gcm,
            _ => Prof::S80,
        };
        let sl = prof.salt_len();
        let mat = d1
            .export_keying_material("EXTRACTOR-dtls_srtp", 2 * (16 + sl))
            .map_err(|e| format!("exporter: {e}"))?;
        // RFC 5764 4.2: client key, server key, client salt, server salt.  Either half is a session key
        // of this association; which peer is the DTLS client is not this property's business.
        for dir in 0..2 {
            for (k, sa) in [(&mat[0..16], &mat[32..32 + sl]), (&mat[16..32], &mat[32 + sl..32 + 2 * sl])] {
                ctx[dir].push((
                    RefCtx::new(k, sa, prof.reference(), None, None).map_err(|e| e.to_string())?,
                    OwnSrtcp::new(k, sa, 10 /* RFC 5764 4.1.2: SRTCP keeps the 80-bit tag under _32 too */),
                ));
            }
        }
    } else {
        let (p1, k1) = sdes_key(&offer_s).ok_or("offer has no a=crypto")?;
        let (p2, k2) = sdes_key(&answer_s).ok_or("answer has no a=crypto")?;
        if p1 != p2 || k1.len() < 16 + p1.salt_len() || k2.len() < 16 + p1.salt_len() {
            return Err("crypto attributes unusable".into());
        }
        prof = p1;
        for (dir, k) in [(0usize, &k1), (1usize, &k2)] {
            let (key, salt) = (&k[..16], &k[16..16 + prof.salt_len()]);
            ctx[dir].push((
                RefCtx::new(key, salt, prof.reference(), None, None).map_err(|e| e.to_string())?,
                OwnSrtcp::new(key, salt, 10 /* RFC 5764 4.1.2: SRTCP keeps the 80-bit tag under _32 too */),
            ));
        }
    }

    // receiving tracks: anything with the harness magic surfacing there was accepted in clear
    let leaked = Arc::new(AtomicU64::new(0));
    let got = Arc::new(AtomicU64::new(0));
    let mut rtasks = vec![];
    for pc in [&pc1, &pc2] {
        for t in pc.get_transceivers() {
            if let Some(r) = t.receiver() {
                let tr = r.track();
                let leaked = leaked.clone();
                let got = got.clone();
                rtasks.push(tokio::spawn(async move {
                    while let Ok(s) = tr.recv().await {
                        let data = match &s {
                            MediaSample::Audio(a) => a.data.clone(),
                            MediaSample::Video(v) => v.data.clone(),
                        };
                        got.fetch_add(1, Ordering::SeqCst);
                        if find_magic_id(&data).is_some() {
                            leaked.fetch_add(1, Ordering::SeqCst);
                        }
                    }
                }));
            }
        }
    }

    // media both ways, with cleartext injections from the forwarder in between
    let frames = sc["frames"].as_u64().unwrap_or(25);
    for i in 0..frames {
        for (k, src) in [&src1, &src2].iter().enumerate() {
            let sample = if video {
                MediaSample::Video(VideoFrame {
                    rtp_timestamp: (i as u32) * 3000,
                    data: Bytes::from(vec![0x55u8 ^ k as u8; 100 + (i as usize % 7) * 100]),
                    is_last_packet: true,
                    ..Default::default()
                })
            } else {
                MediaSample::Audio(AudioFrame {
                    rtp_timestamp: (i as u32) * 160,
                    clock_rate: 8000,
                    data: Bytes::from(vec![0x55u8 ^ k as u8; 160]),
                    ..Default::default()
                })
            };
            let _ = src.send(sample);
        }
        if i == frames / 2 {
            for pc in [&pc1, &pc2] {
                for t in pc.get_transceivers() {
                    if let Some(r) = t.receiver() {
                        let _ = r.request_key_frame().await;
                    }
                }
            }
        }
        if i % 5 == 3 {
            // the PeerConnection-level escape hatch for out-of-band packets (DTMF): same gate
            for (k, pc) in [&pc1, &pc2].iter().enumerate() {
                let mut h = RtpHeader::new(101, 40000 + i as u16, i as u32 * 160, 0x0D7F_0000 | k as u32);
                h.marker = i == 3;
                let r = pc.send_raw_rtp(RtpPacket::new(h, vec![1, 0x0a, 0, 160])).await;
                o.count(if r.is_ok() { "pc_send_raw_rtp_ok" } else { "pc_send_raw_rtp_err" });
            }
        }
        if i % 5 == 2 {
            for dir in 0..2 {
                // cleartext RTP and RTCP towards the PeerConnection on side `1-dir`… sent from the
                // forwarder socket that this PeerConnection believes to be its peer
                let mut p = vec![0x80u8, 0, 0x10, i as u8];
                p.extend_from_slice(&rng.u32().to_be_bytes());
                p.extend_from_slice(&rng.u32().to_be_bytes());
                p.extend_from_slice(MAGIC);
                p.extend_from_slice(&(i as u32).to_be_bytes());
                p.extend(rng.bytes(152));
                let to = real.lock()[1 - dir];
                if let Some(to) = to {
                    let _ = wire.f[1 - dir].send_to(&p, to).await;
                    let pli = marshal_rtcp_packets(&[RtcpPacket::PictureLossIndication(PictureLossIndication {
                        sender_ssrc: RTCP_SSRC_BASE | 1,
                        media_ssrc: RTCP_SSRC_BASE | 1,
                    })])
                    .unwrap_or_default();
                    let _ = wire.f[1 - dir].send_to(&pli, to).await;
                    o.count("pc_cleartext_injected");
                }
            }
        }
        tokio::time::sleep(Duration::from_millis(10)).await;
    }
    // let RTCP reports happen if the implementation sends them soon, then close (BYE path)
    tokio::time::sleep(Duration::from_millis(sc["linger_ms"].as_u64().unwrap_or(300))).await;
    pc1.close();
    pc2.close();
    tokio::time::sleep(Duration::from_millis(200)).await;
    for t in &wire.tasks {
        t.abort();
    }
    for t in rtasks {
        t.abort();
    }

    let log = std::mem::take(&mut *wire.log.lock());
    for (dir, d) in &log {
        if d.is_empty() || !(128..=191).contains(&d[0]) {
            o.count("pc_other_datagrams");
            continue;
        }
        o.count("datagrams_captured");
        let mut as_rtp = false;
        let mut as_rtcp = false;
        for (rc, own) in ctx[*dir].iter_mut() {
            as_rtp = as_rtp || (d.len() >= 12 + prof.rtp_tag() && rc.decrypt_rtp(d).is_ok());
            as_rtcp = as_rtcp
                || match prof {
                    Prof::Gcm => d.len() >= prof.ref_rtcp_min() && d[d.len() - 4] & 0x80 != 0 && rc.decrypt_rtcp(d).is_ok(),
                    _ => own.unprotect(d, true).is_some(),
                };
        }
        let as_rtcp = !as_rtp && as_rtcp;
        if as_rtp {
            o.count("datagram_verified_srtp");
            o.count("pc_verified_srtp");
        } else if as_rtcp {
            o.count("datagram_verified_srtcp");
            o.count("pc_verified_srtcp");
        } else {
            let rtcp_like = is_rtcp_bytes(d);
            let key = format!("level=pc,mode={modename},kind={},leak=not_under_session_keys", if rtcp_like { "rtcp" } else { "rtp" });
            o.violate(
                key,
                format!("datagram pc{}→pc{} in {modename} mode does not open under the session keys", dir + 1, 2 - dir),
                json!({"dir": dir, "datagram": hex_cap(d, 64), "len": d.len(), "profile": prof.name()}),
            );
        }
    }
    *o.counters.entry("pc_track_samples".into()).or_insert(0) += got.load(Ordering::SeqCst);
    if leaked.load(Ordering::SeqCst) > 0 {
        o.violate(
            format!("level=pc,mode={modename},sink=track,accepted=cleartext_rtp"),
            "cleartext RTP injected into an SRTP-mandatory PeerConnection surfaced on the receiving track".into(),
            json!({"samples_with_harness_magic": leaked.load(Ordering::SeqCst)}),
        );
    }
    o.seen.push(("pc_profiles".into(), format!("{modename}:{}", prof.name())));
    if o.get("datagrams_captured") == 0 {
        return Err("no media datagram crossed the forwarder".into());
    }
    Ok(())
}

// ------------------------------------------------------------------ scenario execution

struct Cfg {
    prof: Prof,
    b_required: bool,
    b_prekeyed: bool,
    abs_ext: bool,
    direct_rx: bool,
    pseed: u64,
}

impl Cfg {
    fn from(sc: &Value) -> Cfg {
        Cfg {
            prof: Prof::from_name(sc["profile"].as_str().unwrap_or("sha1_80")),
            b_required: sc["b_required"].as_bool().unwrap_or(false),
            b_prekeyed: sc["b_prekeyed"].as_bool().unwrap_or(false),
            abs_ext: sc["abs_ext"].as_bool().unwrap_or(false),
            direct_rx: sc["direct_rx"].as_bool().unwrap_or(false),
            pseed: sc["pseed"].as_u64().unwrap_or(1),
        }
    }
}

fn op_list(v: &Value) -> Vec<(usize, &'static str, String)> {
    v.as_array()
        .map(|a| {
            a.iter()
                .filter_map(|o| o.as_str())
                .filter_map(|s| parse_op(s).map(|(side, op)| (side, op, s.to_string())))
                .collect()
        })
        .unwrap_or_default()
}

async fn run_scenario(sc: &Value) -> Outcome {
    if sc["mode"].as_str() == Some("pc") {
        return run_pc_scenario(sc).await;
    }
    let cfg = Cfg::from(sc);
    let race = sc["mode"].as_str() == Some("race");
    let tasks: Vec<Vec<(usize, &'static str, String)>> = if race {
        sc["tasks"].as_array().map(|a| a.iter().map(op_list).collect()).unwrap_or_default()
    } else {
        vec![op_list(&sc["ops"])]
    };
    let mut n_keys = [0usize; 2];
    for t in &tasks {
        for (side, op, _) in t {
            if *op == "keys" {
                n_keys[*side] += 1;
            }
        }
    }
    let mut rng = Rng::new(cfg.pseed);
    let tick = Arc::new(AtomicU64::new(1));
    let mut fail = Outcome::default();
    let a = make_side(0, true, cfg.prof, n_keys[0] + 2, cfg.abs_ext, &mut rng, tick.clone()).await;
    let b = make_side(1, cfg.b_required, cfg.prof, n_keys[1] + 3, false, &mut rng, tick.clone()).await;
    let ((sa, ra), (sb, rb)) = match (a, b) {
        (Ok(a), Ok(b)) => (a, b),
        (Err(e), _) | (_, Err(e)) => {
            fail.inconclusive = Some(format!("rig: {e}"));
            return fail;
        }
    };
    let mut rig = Rig { sides: [sa, sb], rx: [ra, rb], tick: tick.clone(), sync_no: 0 };
    let mut bld = Builder {
        rng: rng.fork(7),
        ids: vec![],
        out_seq: [1000, 3000],
        in_seq: [100, 200],
        next_gen: [0, 0],
        cur_gen: [None, None],
        direct_rx: cfg.direct_rx,
    };
    let mut j = Judge {
        seq: !race,
        cur_gen: [None, None],
        cap_cursor: [0, 0],
        obs_cursor: [0, 0],
        cur_op: String::new(),
        out: Outcome::default(),
    };
    let sides = rig.sides.clone();

    if cfg.b_prekeyed {
        let b = bld.build(&sides, 1, "keys");
        if let Built::Keys { gen_ix, .. } = &b {
            j.cur_gen[1] = Some(*gen_ix);
        }
        exec(b, &sides, &tick).await;
    }

    if !race {
        for (side, op, name) in &tasks[0] {
            j.cur_op = name.clone();
            let had_keys = j.cur_gen[*side].is_some();
            let b = bld.build(&sides, *side, op);
            if let Built::Keys { side, gen_ix } = &b {
                j.cur_gen[*side] = Some(*gen_ix);
            }
            let is_inject = matches!(b, Built::Inject { .. } | Built::Reflect { .. });
            let before = j.out.get("datagrams_captured");
            let r = exec(b, &sides, &tick).await;
            if r.harness_err {
                j.out.inconclusive = Some(format!("harness error in {name}"));
                break;
            }
            if let Err(e) = rig.sync().await {
                j.out.inconclusive = Some(e);
                break;
            }
            j.drain(&sides, &mut rig.rx, &bld.ids);
            let emitted = j.out.get("datagrams_captured") - before;
            // what the monitor observed about the gates (evidence only, never a verdict)
            if sides[*side].required {
                if let Some(ok) = r.send_ok {
                    match (had_keys, ok) {
                        (false, false) => j.out.count("gate_refused_send_before_keys"),
                        (false, true) => j.out.count("send_ok_before_keys"),
                        (true, true) => j.out.count("send_ok_with_keys"),
                        (true, false) => j.out.count("send_err_with_keys"),
                    }
                    if had_keys && ok && emitted == 0 {
                        j.out.count("send_ok_but_no_datagram");
                    }
                }
                if *op == "bye_sync" {
                    j.out.count(if had_keys { "bye_sync_with_keys" } else { "bye_sync_before_keys" });
                }
                if is_inject {
                    j.out.count(if had_keys { "injected_with_keys" } else { "injected_before_keys" });
                    if !matches!(*op, "in_prot_rtp" | "in_prot_rtcp") {
                        j.out.count("hostile_injections");
                    }
                }
            }
            j.out.seen.push(("ops_executed".into(), name.clone()));
        }
    } else {
        // build everything first (deterministic; reference contexts are touched by the driver only)
        let mut programs: Vec<Vec<Built>> = vec![];
        let yields: Vec<Vec<bool>> = tasks
            .iter()
            .map(|t| t.iter().map(|_| bld.rng.chance(1, 3)).collect())
            .collect();
        for t in &tasks {
            let mut p = vec![];
            for (side, op, name) in t {
                let b = bld.build(&sides, *side, op);
                if sides[*side].required && matches!(b, Built::Inject { .. } | Built::Reflect { .. }) && !op.starts_with("in_prot") {
                    j.out.count("hostile_injections");
                }
                j.out.seen.push(("ops_executed".into(), name.clone()));
                p.push(b);
            }
            programs.push(p);
        }
        let start = Arc::new(tokio::sync::Barrier::new(programs.len()));
        let mut hs = vec![];
        for (p, y) in programs.into_iter().zip(yields.into_iter()) {
            let sides = sides.clone();
            let tick = tick.clone();
            let start = start.clone();
            hs.push(tokio::spawn(async move {
                start.wait().await;
                let mut herr = false;
                let mut oks = 0u64;
                for (b, y) in p.into_iter().zip(y.into_iter()) {
                    let r = exec(b, &sides, &tick).await;
                    herr |= r.harness_err;
                    if r.send_ok == Some(true) {
                        oks += 1;
                    }
                    if y {
                        tokio::task::yield_now().await;
                    }
                }
                (herr, oks)
            }));
        }
        for h in hs {
            match h.await {
                Ok((herr, oks)) => {
                    if herr {
                        j.out.inconclusive = Some("harness error in a racing task".into());
                    }
                    *j.out.counters.entry("send_ok_race".into()).or_insert(0) += oks;
                }
                Err(e) => {
                    // a panic inside rustrtc while racing is not this property's business, but the
                    // history is incomplete
                    j.out.inconclusive = Some(format!("racing task died: {e}"));
                }
            }
        }
        j.cur_op = "race".into();
        if j.out.inconclusive.is_none() {
            match rig.sync().await {
                Ok(()) => j.drain(&sides, &mut rig.rx, &bld.ids),
                Err(e) => j.out.inconclusive = Some(e),
            }
        }
    }
    rig.teardown().await;
    j.out
}

// ------------------------------------------------------------------ scenario generation

fn cfg_json(ix: u64, rng: &mut Rng) -> serde_json::Map<String, Value> {
    let mut m = serde_json::Map::new();
    m.insert("profile".into(), json!(Prof::from_index(ix).name()));
    m.insert("b_required".into(), json!((ix / 3) % 2 == 1));
    m.insert("b_prekeyed".into(), json!((ix / 6) % 2 == 1));
    m.insert("abs_ext".into(), json!((ix / 12) % 2 == 1));
    m.insert("pseed".into(), json!(rng.next_u64() >> 16));
    m
}

struct Plan {
    /// (name, alphabet, length, count)
    enums: Vec<(&'static str, Vec<String>, usize, u64)>,
    random: u64,
    race: u64,
    pc: u64,
}

impl Plan {
    fn new(tier: Tier) -> Plan {
        let full = full_alphabet();
        let core: Vec<String> = CORE_OPS.iter().map(|s| s.to_string()).collect();
        let pw = |k: usize, l: usize| (k as u64).pow(l as u32);
        let mut enums = vec![];
        match tier {
            Tier::Quick => {
                for l in 1..=3 {
                    enums.push(("full", full.clone(), l, pw(full.len(), l)));
                }
                enums.push(("core", core.clone(), 4, pw(core.len(), 4)));
                enums.push(("core", core.clone(), 5, pw(core.len(), 5)));
            }
            Tier::Thorough => {
                for l in 1..=4 {
                    enums.push(("full", full.clone(), l, pw(full.len(), l)));
                }
                enums.push(("core", core.clone(), 5, pw(core.len(), 5)));
                enums.push(("core", core.clone(), 6, pw(core.len(), 6)));
            }
        }
        Plan { enums, random: tier.pick(4000, 50000), race: tier.pick(8000, 100000), pc: tier.pick(7, 18) }
    }
    fn total(&self) -> u64 {
        self.enums.iter().map(|e| e.3).sum::<u64>() + self.random + self.race + self.pc
    }
    fn scenario(&self, seed: u64, mut ix: u64) -> Value {
        let mut rng = Rng::new(seed).fork(ix.wrapping_add(0xC14));
        // PeerConnection-level scenarios first (they take ~1 s of wall each; start them early)
        let nokeys = if self.pc > 12 { 6 } else { 3 };
        if ix < self.pc && ix >= self.pc - nokeys {
            // the last PeerConnection-level scenarios: SDES without negotiable keys
            let k = (ix - (self.pc - nokeys)) + seed * nokeys;
            let brk = ["no_crypto", "short_key", "not_base64"][(k % 3) as usize];
            return json!({"mode": "pc", "family": "pc_sdes_nokeys", "pc_mode": "sdes_nokeys",
                          "break": brk,
                          "pc_role": if (k / 3) % 2 == 0 { "offerer" } else { "answerer" },
                          "video": (k / 6) % 2 == 1, "linger_ms": 300, "pseed": rng.next_u64() >> 16, "n": ix});
        }
        if ix < self.pc {
            let m = if ix % 2 == 0 { "sdes" } else { "webrtc" };
            return json!({"mode": "pc", "family": format!("pc_{m}"), "pc_mode": m, "frames": 20 + 10 * (ix % 3),
                          "linger_ms": if ix >= 8 { 5500 } else { 200 + 400 * ((ix / 2) % 2) },
                          "video": (ix / 2) % 2 == 1, "drop_every": if (ix / 2) % 2 == 1 { 5 } else { 0 }, "pseed": rng.next_u64() >> 16, "n": ix});
        }
        ix -= self.pc;
        let gix = ix;
        for (name, alpha, len, count) in &self.enums {
            if ix < *count {
                let mut ops = vec![];
                let mut k = ix;
                for _ in 0..*len {
                    ops.push(alpha[(k % alpha.len() as u64) as usize].clone());
                    k /= alpha.len() as u64;
                }
                // the configuration rotates with the seed so that repeated runs cover all of them
                let mut m = cfg_json(gix.wrapping_add(seed), &mut rng);
                m.insert("mode".into(), json!("seq"));
                m.insert("family".into(), json!(format!("enum_{name}_{len}")));
                m.insert("ops".into(), json!(ops));
                return Value::Object(m);
            }
            ix -= count;
        }
        let full = full_alphabet();
        let weighted = |rng: &mut Rng| -> String {
            // side A twice as likely; keys rarer than traffic
            loop {
                let o = rng.pick(&full).clone();
                if o.ends_with(".keys") && !rng.chance(1, 3) {
                    continue;
                }
                if o.ends_with("clear_listeners") && !rng.chance(1, 3) {
                    continue;
                }
                return o;
            }
        };
        if ix < self.random {
            let n = rng.range(5, 40);
            let ops: Vec<String> = (0..n).map(|_| weighted(&mut rng)).collect();
            let mut m = cfg_json(rng.below(24), &mut rng);
            m.insert("mode".into(), json!("seq"));
            m.insert("family".into(), json!("random_seq"));
            m.insert("ops".into(), json!(ops));
            return Value::Object(m);
        }
        let nt = rng.range(2, 6);
        let mut tasks = vec![];
        for _ in 0..nt {
            let n = rng.range(3, 14);
            let ops: Vec<String> = (0..n)
                .map(|_| {
                    loop {
                        let o = weighted(&mut rng);
                        // "stale" has no meaning without a program order
                        if !o.ends_with("in_stale_rtp") {
                            return o;
                        }
                    }
                })
                .collect();
            tasks.push(ops);
        }
        let mut m = cfg_json(rng.below(24), &mut rng);
        m.insert("mode".into(), json!("race"));
        m.insert("family".into(), json!("race"));
        m.insert("direct_rx".into(), json!(rng.bool()));
        m.insert("tasks".into(), json!(tasks));
        Value::Object(m)
    }
}

fn normalised(sc: &Value) -> Value {
    let mut v = sc.clone();
    if let Some(m) = v.as_object_mut() {
        m.remove("pseed");
    }
    v
}

/// non-trivial = a gate of a mandatory transport was really exercised and its effect observed
fn nontrivial(o: &Outcome) -> bool {
    const KEYS: [&str; 12] = [
        "gate_refused_send_before_keys", "send_ok_before_keys", "send_ok_with_keys", "bye_sync_before_keys",
        "bye_sync_with_keys", "injected_before_keys", "hostile_injections", "datagram_verified_srtp",
        "datagram_verified_srtcp", "send_ok_race", "injected_with_keys", "datagrams_captured",
    ];
    KEYS.iter().any(|k| o.get(k) > 0) || o.counters.keys().any(|k| k.starts_with("delivered_authentic"))
}

fn record(report: &mut Report, sc: &Value, o: Outcome) {
    for (k, n) in &o.counters {
        report.count(k, *n);
    }
    for (set, item) in &o.seen {
        report.seen(set, item.clone());
    }
    report.count(&format!("family:{}", sc["family"].as_str().unwrap_or("replay")), 1);
    let nt = if nontrivial(&o) { Some(hash_value(&normalised(sc))) } else { None };
    if let Some(why) = o.inconclusive {
        report.record(sc, nt, Verdict::Inconclusive(why));
        return;
    }
    let mut it = o.violations.into_iter();
    match it.next() {
        None => {
            if report.samples.len() < 6 && (report.evaluations % 997 == 3 || sc["mode"] == "race") {
                report.sample(json!({"scenario": sc, "observed": o.counters}));
            }
            report.record(sc, nt, Verdict::Held);
        }
        Some((k, w, wit)) => {
            let rest: Vec<_> = it.collect();
            report.record(sc, nt, Verdict::violated(k, w, wit));
            for (k, w, wit) in rest {
                report.violation(sc, &k, &w, wit);
            }
        }
    }
}

pub fn run(args: &Args) -> i32 {
    let mut report = Report::new(
        args,
        "exploration",
        "a send gate, the close-time BYE gate, the bridge gate or the receive gate of an SRTP-mandatory \
         transport was exercised (send/BYE attempted, packet injected, or datagram captured) and its effect \
         was observed behind a barrier",
    );
    report.assume("loopback UDP between one pair of sockets is FIFO and loss-free for the few datagrams in flight per barrier");
    report.assume("component level: RtpTransport over IceConn with a real UDP socket; the harness plays the ICE read loop and the remote peer");
    report.assume("profiles reachable through SDES / DTLS-SRTP only (AES_CM_128_HMAC_SHA1_80/_32, AEAD_AES_128_GCM); SrtpProfile::NullCipherHmac is not mapped by peer_connection.rs");
    report.note("reference = webrtc-srtp 0.17 Context (SRTP all profiles, SRTCP for _80 and GCM); SRTCP under _32 is checked by harness-own RFC 3711 code with the 80-bit tag RFC 5764 4.1.2 prescribes");
    report.note("PeerConnection-level NatWire capture is not part of this engine run (component level only)");
    let rt = build_runtime(16);

    if let Some(path) = &args.replay {
        let Some(sc) = load_replay(path) else {
            eprintln!("cannot load replay {}", path.display());
            return 2;
        };
        let mut last = None;
        for _ in 0..5 {
            let o = rt.block_on(run_scenario(&sc));
            let hit = !o.violations.is_empty();
            last = Some(o);
            if hit {
                break;
            }
        }
        if let Some(o) = last {
            if std::env::var("C14_DEBUG").is_ok() {
                eprintln!("observed: {:?} inconclusive: {:?}", o.counters, o.inconclusive);
            }
            record(&mut report, &sc, o);
        }
        // a replay that holds is a valid outcome (common::finish wants >= 2 distinct scenarios)
        let clean = report.violations.is_empty() && report.inconclusive_n == 0;
        let code = report.finish(1, 0);
        return if clean && code == 2 { 0 } else { code };
    }

    let plan = Arc::new(Plan::new(args.tier));
    let total = plan.total();
    let next = Arc::new(AtomicU64::new(0));
    let (tx, rx) = std::sync::mpsc::channel::<(Value, Outcome)>();
    // one tokio IO driver serialises the many tiny UDP round trips: use several small runtimes
    let seed = args.seed;
    let mut threads = vec![];
    for _ in 0..8 {
        let plan = plan.clone();
        let next = next.clone();
        let tx = tx.clone();
        threads.push(std::thread::spawn(move || {
            let rt = build_runtime(2);
            let mut hs = vec![];
            for _ in 0..4 {
                let plan = plan.clone();
                let next = next.clone();
                let tx = tx.clone();
                hs.push(rt.spawn(async move {
                    loop {
                        let ix = next.fetch_add(1, Ordering::SeqCst);
                        if ix >= total {
                            break;
                        }
                        let sc = plan.scenario(seed, ix);
                        let o = match tokio::time::timeout(Duration::from_secs(200), run_scenario(&sc)).await {
                            Ok(o) => o,
                            Err(_) => Outcome { inconclusive: Some("scenario watchdog".into()), ..Default::default() },
                        };
                        if tx.send((sc, o)).is_err() {
                            break;
                        }
                    }
                }));
            }
            rt.block_on(async {
                for h in hs {
                    let _ = h.await;
                }
            });
        }));
    }
    drop(tx);
    for (sc, o) in rx {
        record(&mut report, &sc, o);
    }
    for t in threads {
        let _ = t.join();
    }
    let panics = take_panics();
    if !panics.is_empty() {
        report.count("panics_recorded", panics.len() as u64);
        for p in panics.iter().take(5) {
            report.note(format!("panic {} at {}", p.message, norm_location(&p.location)));
        }
    }
    // a run whose positive controls never fired has observed nothing
    let pos = ["datagram_verified_srtp", "datagram_verified_srtcp", "delivered_authentic:listener",
               "delivered_authentic:rtcp_listener", "delivered_authentic:bridge_target_socket",
               "gate_refused_send_before_keys", "hostile_injections"];
    let missing: Vec<&str> = pos.iter().copied().filter(|k| report.counters.get(*k).copied().unwrap_or(0) == 0).collect();
    if !missing.is_empty() && report.violations.is_empty() {
        eprintln!("BROKEN-RUN property=C14 positive controls never observed: {missing:?}");
        report.note(format!("positive controls never observed: {missing:?}"));
        let _ = report.finish(u64::MAX, u64::MAX);
        return 2;
    }
    report.exhaustive = Some(false);
    let min = total * 9 / 10;
    report.finish(min, min / 4)
}

