//! dtls_rig – runtime monitors for
//!   C02  DTLS connects only to the peer whose certificate matches the SDP fingerprint
//!   C11  DTLS handshakes converge: both sides agree on keys or neither connects
//!
//! Rig (DESIGN.md §2.1): two endpoints, each `UdpSocket -> IceConn -> DtlsTransport`, built with the
//! PUBLIC rustrtc API exactly like src/transports/dtls/tests.rs does.  Both IceConns have the
//! harness "wire" socket as their remote address.  The wire receives every datagram a side writes,
//! logs + parses it with the harness-own DTLS reader below, applies the fault plan (C11) or the
//! identity tampering (C02) and delivers the result to the peer by `PacketReceiver::receive` on the
//! peer's IceConn (one wire task => per-direction FIFO unless the plan says otherwise).
//! For the interop pairs of C11 the peer is `dtls 0.17` (webrtc-rs) attached through a
//! `webrtc_util::Conn` adapter made of two channels.
//!
//! Nothing of rustrtc's DTLS code is re-implemented here: the oracle looks only at the state watch,
//! the pub `SessionKeys` fields, `export_keying_material`, the application-data receiver and the
//! wire capture.
//!
//! Attacker / fault classes beyond single-message tampering and single-datagram faults:
//!  * C02 "active on-path completion" (`Takeover`): the wire relays the genuine server flight up to an
//!    insertion point {second ServerKeyExchange, replaced ServerKeyExchange, second Certificate (before /
//!    after the genuine ServerKeyExchange), ServerKeyExchange before Certificate}, supplies its own ECDH
//!    share signed by {garbage, an unrelated key, the copied genuine signature, its own certificate's
//!    key}, cuts the genuine server off and completes the handshake itself (own TLS 1.2 key schedule,
//!    Finished, AES-GCM records).  The same code holding the genuine private key is the non-vacuity
//!    control of every such scenario (must connect and deliver its application record).
//!  * C02 injection SEQUENCES (`Inject`): a party without keys pushes pairs / triples over {garbage
//!    epoch-1 record of each content type, plaintext epoch-0 ApplicationData, plaintext epoch-0 alert,
//!    epoch-0 ChangeCipherSpec} - separate datagrams or coalesced - in front of every datagram position
//!    of a handshake that never authenticates, both roles.  Oracle unchanged: nothing reaches the
//!    application receiver, never Connected, no key export.
//!  * C02 expectation boundary values: proper prefixes of the correct digest (31/16/8/1 bytes, empty),
//!    the digest plus extra bytes, and other spellings of the same digest (lower case, no separators),
//!    handed over verbatim and through rustrtc's own SDP fingerprint parser.  Label by construction:
//!    expected digest BYTES == SHA-256(presented certificate) <=> authentic.
//!  * C11 racing senders: per endpoint one OS thread that calls `send()` the instant `get_state()`
//!    shows Connected, plus k ordinary state subscribers; in a sample of the rr fault scenarios and in
//!    a dedicated unfaulted family.  Every payload sent with Ok must come out at the (Connected) peer
//!    before a marker sent afterwards on the same FIFO path.
//!  * C11 `partial_refrag`: a handshake message is partially reassembled (some fragments of
//!    occurrence n lost), and all its retransmissions arrive complete but re-fragmented at OTHER
//!    boundaries; decided by the stall witness like every other plan.

use crate::common::*;
use bytes::Bytes;
use parking_lot::Mutex;
use rustrtc::transports::PacketReceiver;
use rustrtc::transports::dtls::{self as rdtls, Certificate, DtlsState, DtlsTransport};
use rustrtc::transports::ice::IceSocketWrapper;
use rustrtc::transports::ice::conn::IceConn;
use serde_json::{Value, json};
use std::collections::{BTreeSet, HashMap};
use std::net::SocketAddr;
use std::sync::Arc;
use std::sync::atomic::{AtomicUsize, Ordering};
use std::time::{Duration, Instant};
use tokio::net::UdpSocket;
use tokio::sync::{mpsc, watch};
use tokio::task::JoinHandle;

// =====================================================================================
// harness-own DTLS record / handshake reader + writer
// =====================================================================================

#[derive(Clone, Debug)]
struct Rec {
    ctype: u8,
    ver: [u8; 2],
    epoch: u16,
    seq: u64,
    body: Vec<u8>,
}

fn parse_records(d: &[u8]) -> Option<Vec<Rec>> {
    let mut out = vec![];
    let mut i = 0;
    while i < d.len() {
        if d.len() - i < 13 {
            return None;
        }
        let len = u16::from_be_bytes([d[i + 11], d[i + 12]]) as usize;
        if d.len() - i - 13 < len {
            return None;
        }
        let mut s = [0u8; 8];
        s[2..8].copy_from_slice(&d[i + 5..i + 11]);
        out.push(Rec {
            ctype: d[i],
            ver: [d[i + 1], d[i + 2]],
            epoch: u16::from_be_bytes([d[i + 3], d[i + 4]]),
            seq: u64::from_be_bytes(s),
            body: d[i + 13..i + 13 + len].to_vec(),
        });
        i += 13 + len;
    }
    Some(out)
}

fn enc_record(r: &Rec, out: &mut Vec<u8>) {
    out.push(r.ctype);
    out.extend_from_slice(&r.ver);
    out.extend_from_slice(&r.epoch.to_be_bytes());
    out.extend_from_slice(&r.seq.to_be_bytes()[2..8]);
    out.extend_from_slice(&(r.body.len() as u16).to_be_bytes());
    out.extend_from_slice(&r.body);
}

#[derive(Clone, Debug)]
struct Hs {
    typ: u8,
    total: u32,
    mseq: u16,
    off: u32,
    body: Vec<u8>, // this fragment
}

fn u24(b: &[u8]) -> u32 {
    u32::from_be_bytes([0, b[0], b[1], b[2]])
}
fn put_u24(out: &mut Vec<u8>, n: u32) {
    out.extend_from_slice(&n.to_be_bytes()[1..4]);
}

fn parse_hs(b: &[u8]) -> Option<Vec<Hs>> {
    let mut out = vec![];
    let mut i = 0;
    while i < b.len() {
        if b.len() - i < 12 {
            return None;
        }
        let flen = u24(&b[i + 9..i + 12]) as usize;
        if b.len() - i - 12 < flen {
            return None;
        }
        out.push(Hs {
            typ: b[i],
            total: u24(&b[i + 1..i + 4]),
            mseq: u16::from_be_bytes([b[i + 4], b[i + 5]]),
            off: u24(&b[i + 6..i + 9]),
            body: b[i + 12..i + 12 + flen].to_vec(),
        });
        i += 12 + flen;
    }
    Some(out)
}

fn enc_hs(h: &Hs, out: &mut Vec<u8>) {
    out.push(h.typ);
    put_u24(out, h.total);
    out.extend_from_slice(&h.mseq.to_be_bytes());
    put_u24(out, h.off);
    put_u24(out, h.body.len() as u32);
    out.extend_from_slice(&h.body);
}

fn hs_name(t: u8) -> &'static str {
    match t {
        0 => "HelloRequest",
        1 => "ClientHello",
        2 => "ServerHello",
        3 => "HelloVerifyRequest",
        11 => "Certificate",
        12 => "ServerKeyExchange",
        13 => "CertificateRequest",
        14 => "ServerHelloDone",
        15 => "CertificateVerify",
        16 => "ClientKeyExchange",
        20 => "Finished",
        _ => "HsOther",
    }
}

/// (class, class_key, is_app_only).  class = names of the records joined by '+'; class_key adds the
/// message_seq of plaintext handshake messages, so "the same flight again" is recognisable even when
/// the sender re-numbers record sequence numbers on retransmission.
fn classify(d: &[u8]) -> (String, String, bool) {
    let Some(recs) = parse_records(d) else {
        return ("Unparsable".into(), "Unparsable".into(), false);
    };
    let mut names: Vec<String> = vec![];
    let mut keys: Vec<String> = vec![];
    let mut app_only = !recs.is_empty();
    for r in &recs {
        match r.ctype {
            20 => {
                names.push("CCS".into());
                keys.push("CCS".into());
                app_only = false;
            }
            21 => {
                names.push("Alert".into());
                keys.push("Alert".into());
                app_only = false;
            }
            23 => {
                names.push("App".into());
                keys.push("App".into());
            }
            22 => {
                app_only = false;
                if r.epoch == 0 {
                    match parse_hs(&r.body) {
                        Some(ms) if !ms.is_empty() => {
                            for m in ms {
                                names.push(hs_name(m.typ).into());
                                keys.push(format!("{}[{}]", hs_name(m.typ), m.mseq));
                            }
                        }
                        _ => {
                            names.push("HsUnparsable".into());
                            keys.push("HsUnparsable".into());
                        }
                    }
                } else {
                    // first encrypted handshake message of an epoch is the Finished
                    names.push("Finished".into());
                    keys.push(format!("Finished(e{})", r.epoch));
                }
            }
            _ => {
                names.push("Other".into());
                keys.push("Other".into());
                app_only = false;
            }
        }
    }
    (names.join("+"), keys.join("+"), app_only)
}

// =====================================================================================
// fault plan language
// =====================================================================================

#[derive(Clone, Copy, PartialEq, Eq, Debug)]
enum Dir {
    C2S = 0,
    S2C = 1,
}
impl Dir {
    fn name(self) -> &'static str {
        match self {
            Dir::C2S => "c2s",
            Dir::S2C => "s2c",
        }
    }
    fn parse(s: &str) -> Dir {
        if s == "s2c" { Dir::S2C } else { Dir::C2S }
    }
}

#[derive(Clone, Debug, PartialEq)]
enum Order {
    InOrder,
    Reversed,
    DupFrag(usize),
}

#[derive(Clone, Debug, PartialEq)]
enum Act {
    Pass,
    Drop,
    Dup,
    Swap,
    Delay(u64),
    Refrag(usize, Order),
    /// Occurrence n of the datagram: plaintext handshake message number `msg` is split into `k`
    /// in-order fragments of which those listed in `lose` are lost (everything else of the datagram
    /// is delivered).  From then on the sender "has another path MTU": every later copy of that
    /// message (same type and message_seq, i.e. its retransmissions n+1, n+2, ..) is delivered
    /// completely, split into `k2` in-order fragments - other boundaries than the first time.
    /// All of that is legal per RFC 6347 4.2.3; only occurrence n loses anything.
    PartialRefrag { msg: usize, k: usize, lose: Vec<usize>, k2: usize },
}

#[derive(Clone, Debug)]
struct Follow {
    dir: Dir,
    typ: u8,
    mseq: u16,
    k2: usize,
}

impl Act {
    fn to_json(&self) -> Value {
        match self {
            Act::Pass => json!({"act":"pass"}),
            Act::Drop => json!({"act":"drop"}),
            Act::Dup => json!({"act":"dup"}),
            Act::Swap => json!({"act":"swap"}),
            Act::Delay(ms) => json!({"act":"delay","ms":ms}),
            Act::Refrag(k, o) => match o {
                Order::InOrder => json!({"act":"refrag","k":k,"order":"inorder"}),
                Order::Reversed => json!({"act":"refrag","k":k,"order":"reversed"}),
                Order::DupFrag(j) => json!({"act":"refrag","k":k,"order":"dup","j":j}),
            },
            Act::PartialRefrag { msg, k, lose, k2 } => json!({"act":"partial_refrag","msg":msg,"k":k,"lose":lose,"k2":k2}),
        }
    }
    fn from_json(v: &Value) -> Act {
        match v["act"].as_str().unwrap_or("pass") {
            "drop" => Act::Drop,
            "dup" => Act::Dup,
            "swap" => Act::Swap,
            "delay" => Act::Delay(v["ms"].as_u64().unwrap_or(1200)),
            "refrag" => {
                let k = v["k"].as_u64().unwrap_or(2) as usize;
                let o = match v["order"].as_str().unwrap_or("inorder") {
                    "reversed" => Order::Reversed,
                    "dup" => Order::DupFrag(v["j"].as_u64().unwrap_or(0) as usize),
                    _ => Order::InOrder,
                };
                Act::Refrag(k, o)
            }
            "partial_refrag" => Act::PartialRefrag {
                msg: v["msg"].as_u64().unwrap_or(0) as usize,
                k: v["k"].as_u64().unwrap_or(2) as usize,
                lose: v["lose"].as_array().map(|a| a.iter().filter_map(|x| x.as_u64()).map(|x| x as usize).collect()).unwrap_or_default(),
                k2: v["k2"].as_u64().unwrap_or(3) as usize,
            },
            _ => Act::Pass,
        }
    }
    fn short(&self) -> String {
        match self {
            Act::Pass => "pass".into(),
            Act::Drop => "drop".into(),
            Act::Dup => "dup".into(),
            Act::Swap => "swap".into(),
            Act::Delay(_) => "delay".into(),
            Act::Refrag(k, Order::InOrder) => format!("refrag{k}:inorder"),
            Act::Refrag(k, Order::Reversed) => format!("refrag{k}:reversed"),
            Act::Refrag(k, Order::DupFrag(j)) => format!("refrag{k}:dup{j}"),
            Act::PartialRefrag { msg, k, lose, k2 } => format!(
                "partial:m{msg}/k{k}/lose{}/then{k2}",
                lose.iter().map(|x| x.to_string()).collect::<Vec<_>>().join(".")
            ),
        }
    }
}

#[derive(Clone, Debug)]
struct Rule {
    dir: Dir,
    class: String,
    occ: u32,
    act: Act,
    fired: bool,
    cancelled: bool,
}

fn rule_json(dir: Dir, class: &str, occ: u32, act: &Act) -> Value {
    let mut v = act.to_json();
    v["dir"] = json!(dir.name());
    v["class"] = json!(class);
    v["occ"] = json!(occ);
    v
}

fn rules_from_json(v: &Value) -> Vec<Rule> {
    v.as_array()
        .map(|a| {
            a.iter()
                .map(|r| Rule {
                    dir: Dir::parse(r["dir"].as_str().unwrap_or("c2s")),
                    class: r["class"].as_str().unwrap_or("").to_string(),
                    occ: r["occ"].as_u64().unwrap_or(0) as u32,
                    act: Act::from_json(r),
                    fired: false,
                    cancelled: false,
                })
                .collect()
        })
        .unwrap_or_default()
}

/// random multi-fault history: per-datagram dice for the first `heal_after` handshake datagrams
#[derive(Clone, Debug)]
struct RandomPlan {
    rng: Rng,
    loss: u64,
    dup: u64,
    swap: u64,
    delay: u64,
    refrag: u64,
    heal_after: u32,
    seen: u32,
}

enum Mode {
    Rules(Vec<Rule>),
    Random(RandomPlan),
}

/// Legal re-fragmentation of every unfragmented plaintext handshake message in a datagram: each
/// fragment travels in its own record (own datagram), same message_seq / total length, correct
/// fragment_offset / fragment_length.  Record sequence numbers are assigned by the caller
/// (`renumber`), which gives every delivered epoch-0 record a fresh number, so nothing collides.
/// Returns None when there is nothing to split (no plaintext handshake message with >= 2 body bytes).
fn refragment(d: &[u8], k: usize, order: &Order) -> Option<Vec<Vec<u8>>> {
    let recs = parse_records(d)?;
    let mut out: Vec<Vec<u8>> = vec![];
    let mut did = false;
    for r in recs {
        if r.ctype == 22 && r.epoch == 0 {
            if let Some(ms) = parse_hs(&r.body) {
                for m in ms {
                    let l = m.body.len();
                    if m.off != 0 || m.total as usize != l || l < 2 {
                        let mut b = vec![];
                        enc_hs(&m, &mut b);
                        let mut o = vec![];
                        enc_record(&Rec { body: b, ..r.clone() }, &mut o);
                        out.push(o);
                        continue;
                    }
                    let k = k.min(l).max(2);
                    let mut frags: Vec<Hs> = vec![];
                    let mut off = 0usize;
                    for i in 0..k {
                        let sz = l / k + if i < l % k { 1 } else { 0 };
                        frags.push(Hs {
                            typ: m.typ,
                            total: l as u32,
                            mseq: m.mseq,
                            off: off as u32,
                            body: m.body[off..off + sz].to_vec(),
                        });
                        off += sz;
                    }
                    let seq: Vec<Hs> = match order {
                        Order::InOrder => frags,
                        Order::Reversed => frags.into_iter().rev().collect(),
                        Order::DupFrag(j) => {
                            let j = (*j).min(k - 1);
                            let mut v = vec![];
                            for (i, f) in frags.into_iter().enumerate() {
                                v.push(f.clone());
                                if i == j {
                                    v.push(f);
                                }
                            }
                            v
                        }
                    };
                    for f in seq {
                        let mut b = vec![];
                        enc_hs(&f, &mut b);
                        let mut o = vec![];
                        enc_record(&Rec { body: b, ..r.clone() }, &mut o);
                        out.push(o);
                    }
                    did = true;
                }
                continue;
            }
        }
        let mut o = vec![];
        enc_record(&r, &mut o);
        out.push(o);
    }
    if did { Some(out) } else { None }
}

/// Per-message legal re-fragmentation.  `sel(i, m)` is asked for every unfragmented plaintext
/// handshake message of the datagram (i = its index among those); `Some((k, lose))` splits it into k
/// in-order fragments and drops the fragments whose index is in `lose`.  Every record travels in its
/// own datagram, order preserved.  Returns the datagrams and the (type, message_seq) of the messages
/// that were split; None when nothing was split.
fn refrag_select(d: &[u8], sel: &dyn Fn(usize, &Hs) -> Option<(usize, Vec<usize>)>) -> Option<(Vec<Vec<u8>>, Vec<(u8, u16)>)> {
    let recs = parse_records(d)?;
    let mut out: Vec<Vec<u8>> = vec![];
    let mut hit: Vec<(u8, u16)> = vec![];
    let mut idx = 0usize;
    for r in recs {
        if r.ctype == 22 && r.epoch == 0 {
            if let Some(ms) = parse_hs(&r.body) {
                for m in ms {
                    let l = m.body.len();
                    let whole = m.off == 0 && m.total as usize == l;
                    let choice = if whole {
                        let c = sel(idx, &m);
                        idx += 1;
                        c
                    } else {
                        None
                    };
                    let mut frags: Vec<Hs> = vec![];
                    match choice {
                        Some((k, lose)) if l >= 2 => {
                            let k = k.min(l).max(2);
                            let mut off = 0usize;
                            for i in 0..k {
                                let sz = l / k + if i < l % k { 1 } else { 0 };
                                if !lose.contains(&i) {
                                    frags.push(Hs { typ: m.typ, total: l as u32, mseq: m.mseq, off: off as u32, body: m.body[off..off + sz].to_vec() });
                                }
                                off += sz;
                            }
                            hit.push((m.typ, m.mseq));
                        }
                        _ => frags.push(m),
                    }
                    for f in frags {
                        let mut b = vec![];
                        enc_hs(&f, &mut b);
                        let mut o = vec![];
                        enc_record(&Rec { body: b, ..r.clone() }, &mut o);
                        out.push(o);
                    }
                }
                continue;
            }
        }
        let mut o = vec![];
        enc_record(&r, &mut o);
        out.push(o);
    }
    if hit.is_empty() { None } else { Some((out, hit)) }
}

// =====================================================================================
// C02: identity tampering on the plaintext flights (the wire re-encodes all lengths)
// =====================================================================================

const P256_G: [u8; 65] = [
    0x04, 0x6B, 0x17, 0xD1, 0xF2, 0xE1, 0x2C, 0x42, 0x47, 0xF8, 0xBC, 0xE6, 0xE5, 0x63, 0xA4, 0x40,
    0xF2, 0x77, 0x03, 0x7D, 0x81, 0x2D, 0xEB, 0x33, 0xA0, 0xF4, 0xA1, 0x39, 0x45, 0xD8, 0x98, 0xC2,
    0x96, 0x4F, 0xE3, 0x42, 0xE2, 0xFE, 0x1A, 0x7F, 0x9B, 0x8E, 0xE7, 0xEB, 0x4A, 0x7C, 0x0F, 0x9E,
    0x16, 0x2B, 0xCE, 0x33, 0x57, 0x6B, 0x31, 0x5E, 0xCE, 0xCB, 0xB6, 0x40, 0x68, 0x37, 0xBF, 0x51,
    0xF5,
];

const INJECT_PAYLOAD: &[u8] = b"C02-INJECTED-PLAINTEXT-APPDATA";

struct Tamper {
    name: String,
    bit: usize,
    other_der: Vec<u8>,
    /// direction of the Finished the tamper acts on (towards the endpoint under test)
    fin_dir: Dir,
    /// records a party WITHOUT keys pushes at the endpoint under test during the handshake
    inject: Option<Inject>,
    held_cert: Option<Vec<u8>>,
    applied: u32,
}

/// Injection SEQUENCE of a party that holds no keys (C02 "no application data is accepted" / "never
/// Connected" for a handshake that never authenticates).  Alphabet (one record each):
///   g20 g21 g22 g23  a record claiming the protected epoch 1 with a garbage body, content type
///                    ChangeCipherSpec / Alert / Handshake / ApplicationData
///   p23              plaintext epoch-0 ApplicationData carrying INJECT_PAYLOAD (+ "#<index>")
///   p21              plaintext epoch-0 alert (warning, no_renegotiation)
///   c20              epoch-0 ChangeCipherSpec
/// The records go out in front of datagram number `pos` of direction `dir` (towards the endpoint under
/// test), each in its own datagram or all coalesced in one.
struct Inject {
    dir: Dir,
    pos: u32,
    coalesced: bool,
    seq: Vec<String>,
    garbage_seed: u64,
    seen: u32,
    done: bool,
}

const INJECT_ALPHABET: &[&str] = &["g20", "g21", "g22", "g23", "p23", "p21", "c20"];

impl Inject {
    fn from_json(v: &Value, dir: Dir, seed: u64) -> Option<Inject> {
        if v.as_bool() == Some(true) {
            // the original single-record probe
            return Some(Inject { dir, pos: 0, coalesced: false, seq: vec!["p23".into()], garbage_seed: seed, seen: 0, done: false });
        }
        let seq: Vec<String> = v["seq"].as_array()?.iter().filter_map(|x| x.as_str()).map(|x| x.to_string()).collect();
        if seq.is_empty() {
            return None;
        }
        Some(Inject {
            dir,
            pos: v["pos"].as_u64().unwrap_or(0) as u32,
            coalesced: v["coalesced"].as_bool().unwrap_or(false),
            seq,
            garbage_seed: seed,
            seen: 0,
            done: false,
        })
    }
    fn describe(v: &Value) -> String {
        if v.as_bool() == Some(true) {
            return "p23".into();
        }
        let seq: Vec<&str> = v["seq"].as_array().map(|a| a.iter().filter_map(|x| x.as_str()).collect()).unwrap_or_default();
        format!("{}/{}", seq.join(">"), if v["coalesced"].as_bool().unwrap_or(false) { "coalesced" } else { "separate" })
    }
    fn datagrams(&self) -> Vec<Vec<u8>> {
        let mut rng = Rng::new(self.garbage_seed).fork(0x1e7);
        let mut recs: Vec<Vec<u8>> = vec![];
        for (i, tok) in self.seq.iter().enumerate() {
            let ver = [0xfe, 0xfd];
            let r = match tok.as_str() {
                "p23" => {
                    let mut body = INJECT_PAYLOAD.to_vec();
                    body.extend_from_slice(format!("#{i}").as_bytes());
                    Rec { ctype: 23, ver, epoch: 0, seq: 0xFFF0 + i as u64, body }
                }
                "p21" => Rec { ctype: 21, ver, epoch: 0, seq: 0xFFF0 + i as u64, body: vec![1, 100] },
                "c20" => Rec { ctype: 20, ver, epoch: 0, seq: 0xFFF0 + i as u64, body: vec![1] },
                g => {
                    let ctype = match g {
                        "g20" => 20,
                        "g21" => 21,
                        "g23" => 23,
                        _ => 22,
                    };
                    // shaped like an AES-GCM record: explicit nonce + ciphertext + tag
                    let n = 32 + rng.usize_below(24);
                    Rec { ctype, ver, epoch: 1, seq: i as u64, body: rng.bytes(n) }
                }
            };
            let mut o = vec![];
            enc_record(&r, &mut o);
            recs.push(o);
        }
        if self.coalesced { vec![recs.concat()] } else { recs }
    }
}

fn flip(buf: &mut [u8], lo: usize, hi: usize, bit: usize) -> bool {
    let hi = hi.min(buf.len());
    if lo >= hi {
        return false;
    }
    let nbits = (hi - lo) * 8;
    let b = bit % nbits;
    buf[lo + b / 8] ^= 1 << (b % 8);
    true
}

fn cert_list(certs: &[&[u8]]) -> Vec<u8> {
    let mut inner = vec![];
    for c in certs {
        put_u24(&mut inner, c.len() as u32);
        inner.extend_from_slice(c);
    }
    let mut out = vec![];
    put_u24(&mut out, inner.len() as u32);
    out.extend_from_slice(&inner);
    out
}

impl Tamper {
    /// returns the datagrams to deliver instead of `d`
    fn apply(&mut self, dir: Dir, d: &[u8]) -> Vec<Vec<u8>> {
        let mut pre: Vec<Vec<u8>> = vec![];
        if let Some(inj) = self.inject.as_mut() {
            if inj.dir == dir && !inj.done {
                if inj.seen == inj.pos {
                    inj.done = true;
                    pre.extend(inj.datagrams());
                }
                inj.seen += 1;
            }
        }
        let Some(recs) = parse_records(d) else {
            pre.push(d.to_vec());
            return pre;
        };
        let t = self.name.clone();
        let mut out_recs: Vec<Rec> = vec![];
        let mut after: Vec<Vec<u8>> = vec![];
        for mut r in recs {
            if r.ctype == 22 && r.epoch > 0 {
                if dir == self.fin_dir && t == "fin_omit" {
                    self.applied += 1;
                    continue;
                }
                if dir == self.fin_dir && t == "fin_flip" {
                    let n = r.body.len();
                    if flip(&mut r.body, 0, n, self.bit) {
                        self.applied += 1;
                    }
                }
                out_recs.push(r);
                continue;
            }
            if !(r.ctype == 22 && r.epoch == 0) {
                out_recs.push(r);
                continue;
            }
            let Some(ms) = parse_hs(&r.body) else {
                out_recs.push(r);
                continue;
            };
            let mut body = vec![];
            for mut m in ms {
                if m.off != 0 || m.total as usize != m.body.len() {
                    enc_hs(&m, &mut body);
                    continue;
                }
                let mut omit = false;
                let mut hold = false;
                let mut touched = true;
                match (dir, m.typ, t.as_str()) {
                    (Dir::C2S, 1, "ch_random_flip") => touched = flip(&mut m.body, 2, 34, self.bit),
                    (Dir::S2C, 2, "sh_random_flip") => touched = flip(&mut m.body, 2, 34, self.bit),
                    (Dir::S2C, 11, "cert_bitflip") => {
                        let n = m.body.len();
                        touched = flip(&mut m.body, 6, n, self.bit)
                    }
                    (Dir::S2C, 11, "cert_omit") | (Dir::S2C, 11, "cert_ske_omit") => omit = true,
                    (Dir::S2C, 11, "cert_empty") => m.body = vec![0, 0, 0],
                    (Dir::S2C, 11, "cert_replace_other") => m.body = cert_list(&[&self.other_der]),
                    (Dir::S2C, 11, "cert_prepend_other") | (Dir::S2C, 11, "cert_append_other") => {
                        // genuine leaf = first entry of the original list
                        if m.body.len() >= 6 {
                            let l = u24(&m.body[3..6]) as usize;
                            if m.body.len() >= 6 + l {
                                let leaf = m.body[6..6 + l].to_vec();
                                m.body = if t == "cert_prepend_other" {
                                    cert_list(&[&self.other_der, &leaf])
                                } else {
                                    cert_list(&[&leaf, &self.other_der])
                                };
                            }
                        }
                    }
                    (Dir::S2C, 11, "cert_after_ske") => {
                        m.mseq += 1;
                        hold = true;
                    }
                    (Dir::S2C, 12, "cert_after_ske") => m.mseq = m.mseq.saturating_sub(1),
                    (Dir::S2C, 12, "ske_omit") | (Dir::S2C, 12, "cert_ske_omit") => omit = true,
                    (Dir::S2C, 12, "cert_omit") => m.mseq = m.mseq.saturating_sub(1),
                    (Dir::S2C, 14, "cert_omit") | (Dir::S2C, 14, "ske_omit") => {
                        m.mseq = m.mseq.saturating_sub(1)
                    }
                    (Dir::S2C, 14, "cert_ske_omit") => m.mseq = m.mseq.saturating_sub(2),
                    (Dir::S2C, 12, "ske_pubkey_flip") => {
                        let pl = *m.body.get(3).unwrap_or(&0) as usize;
                        // skip the 0x04 format byte: stays a well-formed uncompressed point encoding
                        touched = flip(&mut m.body, 5, 4 + pl, self.bit)
                    }
                    (Dir::S2C, 12, "ske_pubkey_replace") => {
                        let pl = *m.body.get(3).unwrap_or(&0) as usize;
                        if m.body.len() >= 4 + pl {
                            let tail = m.body[4 + pl..].to_vec();
                            let mut nb = m.body[..3].to_vec();
                            nb.push(65);
                            nb.extend_from_slice(&P256_G);
                            nb.extend_from_slice(&tail);
                            m.body = nb;
                        }
                    }
                    (Dir::S2C, 12, "ske_sig_flip") => {
                        let pl = *m.body.get(3).unwrap_or(&0) as usize;
                        let n = m.body.len();
                        touched = flip(&mut m.body, 4 + pl + 4, n, self.bit)
                    }
                    (Dir::S2C, 12, "ske_curve_flip") => touched = flip(&mut m.body, 2, 3, 0),
                    (Dir::S2C, 12, "ske_curvetype_flip") => touched = flip(&mut m.body, 0, 1, 0),
                    (Dir::S2C, 12, "ske_sigalg_flip") => {
                        let pl = *m.body.get(3).unwrap_or(&0) as usize;
                        touched = flip(&mut m.body, 4 + pl, 4 + pl + 1, 0)
                    }
                    (Dir::C2S, 16, "cke_replace") => {
                        m.body = vec![65];
                        m.body.extend_from_slice(&P256_G);
                    }
                    (Dir::C2S, 16, "cke_flip") => {
                        let n = m.body.len();
                        touched = flip(&mut m.body, 2, n, self.bit)
                    }
                    _ => touched = false,
                }
                if touched {
                    self.applied += 1;
                }
                if omit {
                    continue;
                }
                m.total = m.body.len() as u32;
                if hold {
                    let mut b = vec![];
                    enc_hs(&m, &mut b);
                    let mut o = vec![];
                    enc_record(&Rec { body: b, ..r.clone() }, &mut o);
                    self.held_cert = Some(o);
                    continue;
                }
                enc_hs(&m, &mut body);
                if m.typ == 12 && t == "cert_after_ske" {
                    if let Some(c) = self.held_cert.take() {
                        after.push(c);
                    }
                }
            }
            if !body.is_empty() {
                r.body = body;
                out_recs.push(r);
            }
        }
        if !out_recs.is_empty() {
            let mut o = vec![];
            for r in &out_recs {
                enc_record(r, &mut o);
            }
            pre.push(o);
        }
        pre.extend(after);
        pre
    }
}

// =====================================================================================
// C02: active on-path completion ("takeover")
//
// The on-path party lets the genuine server answer the ClientHello (HelloVerifyRequest round
// included), captures the genuine ServerHello / Certificate / ServerKeyExchange / ServerHelloDone,
// hands the client a flight that contains part of it plus its OWN key-exchange material at one of
// several insertion points, swallows everything the genuine server says from then on and finishes the
// handshake ITSELF as the server: ECDH with its own share, master secret (classic or extended) from
// the all-plaintext transcript, check of the client's Finished, own CCS + Finished, one
// ApplicationData record.  It is a complete terminating DTLS 1.2 server for
// TLS_ECDHE_ECDSA_WITH_AES_128_GCM_SHA256, written from RFC 5246 / 5288 / 6347 / 7627 - nothing of
// rustrtc is used.  Which key signs the inserted ServerKeyExchange is a parameter: with the genuine
// server's private key the very same code is a legitimate server (non-vacuity control, must connect).
// =====================================================================================

use aes_gcm::aead::{Aead, KeyInit, Payload};
use aes_gcm::{Aes128Gcm, Nonce};
use hmac::{Hmac, Mac};
use p256::ecdsa::signature::Signer;
use p256::ecdsa::{Signature as EcdsaSig, SigningKey};
use p256::elliptic_curve::sec1::ToEncodedPoint;
use p256::pkcs8::DecodePrivateKey;
use sha2::{Digest, Sha256};

const ONPATH_PAYLOAD: &[u8] = b"C02-ONPATH-PARTY-APPDATA";

const TAKEOVER_SHAPES: &[&str] = &["ske2", "ske_replace", "cert2_ske2", "cert2_after_ske", "ske_before_cert"];

fn tls_prf(secret: &[u8], label: &[u8], seed: &[u8], out_len: usize) -> Vec<u8> {
    let mut ls = label.to_vec();
    ls.extend_from_slice(seed);
    let mac = |parts: &[&[u8]]| -> Vec<u8> {
        let mut m = <Hmac<Sha256> as Mac>::new_from_slice(secret).expect("hmac key");
        for p in parts {
            m.update(p);
        }
        m.finalize().into_bytes().to_vec()
    };
    let mut a = mac(&[&ls]);
    let mut out = vec![];
    while out.len() < out_len {
        out.extend_from_slice(&mac(&[&a, &ls]));
        a = mac(&[&a]);
    }
    out.truncate(out_len);
    out
}

fn gcm_aad(full_seq: u64, ctype: u8, len: usize) -> [u8; 13] {
    let mut a = [0u8; 13];
    a[0..8].copy_from_slice(&full_seq.to_be_bytes());
    a[8] = ctype;
    a[9] = 0xfe;
    a[10] = 0xfd;
    a[11..13].copy_from_slice(&(len as u16).to_be_bytes());
    a
}

fn gcm_seal(key: &[u8], iv: &[u8], full_seq: u64, ctype: u8, plain: &[u8]) -> Option<Vec<u8>> {
    let mut nonce = [0u8; 12];
    nonce[0..4].copy_from_slice(iv);
    nonce[4..12].copy_from_slice(&full_seq.to_be_bytes());
    let c = Aes128Gcm::new_from_slice(key).ok()?;
    let sealed = c.encrypt(Nonce::from_slice(&nonce), Payload { msg: plain, aad: &gcm_aad(full_seq, ctype, plain.len()) }).ok()?;
    let mut out = nonce[4..12].to_vec();
    out.extend_from_slice(&sealed);
    Some(out)
}

fn gcm_open(key: &[u8], iv: &[u8], full_seq: u64, ctype: u8, body: &[u8]) -> Option<Vec<u8>> {
    if body.len() < 24 || iv.len() != 4 {
        return None;
    }
    let mut nonce = [0u8; 12];
    nonce[0..4].copy_from_slice(iv);
    nonce[4..12].copy_from_slice(&body[0..8]);
    let c = Aes128Gcm::new_from_slice(key).ok()?;
    c.decrypt(Nonce::from_slice(&nonce), Payload { msg: &body[8..], aad: &gcm_aad(full_seq, ctype, body.len() - 24) }).ok()
}

struct TkKeys {
    master: Vec<u8>,
    cwk: Vec<u8>,
    swk: Vec<u8>,
    civ: Vec<u8>,
    siv: Vec<u8>,
}

struct Takeover {
    shape: String,
    sig: String,
    my_secret: p256::SecretKey,
    my_pub: Vec<u8>,
    /// a key that has nothing to do with any certificate of the scenario
    unrelated_key: SigningKey,
    /// the on-path party's own certificate (second Certificate message) and its key
    own_cert_der: Vec<u8>,
    own_cert_key: Option<SigningKey>,
    /// private key of the certificate signalling promised - present only in the authentic variants
    genuine_key: Option<SigningKey>,
    // ---- protocol state
    last_client_hello: Option<Vec<u8>>, // raw handshake message
    client_random: Vec<u8>,
    server_random: Vec<u8>,
    ems: bool,
    genuine: HashMap<u8, Hs>,
    transcript: Vec<u8>,
    flight_sent: bool,
    flight_desc: Vec<String>,
    finished_mseq: u16,
    keys: Option<TkKeys>,
    done: bool,
    rec_seq0: u64,
    // ---- observations
    client_finished_ok: Option<bool>,
    sent_finished: bool,
    swallowed: [u32; 2],
    notes: Vec<String>,
}

fn signing_key_from_rng(rng: &mut Rng) -> SigningKey {
    loop {
        if let Ok(k) = SigningKey::from_slice(&rng.bytes(32)) {
            return k;
        }
    }
}

impl Takeover {
    fn new(shape: &str, sig: &str, seed: u64, own_cert: &Certificate, genuine: Option<&Certificate>) -> Result<Takeover, String> {
        let mut rng = Rng::new(seed).fork(0x7a6e);
        let my_secret = loop {
            if let Ok(k) = p256::SecretKey::from_slice(&rng.bytes(32)) {
                break k;
            }
        };
        let my_pub = my_secret.public_key().to_encoded_point(false).as_bytes().to_vec();
        let own_cert_key = SigningKey::from_pkcs8_pem(&own_cert.private_key).ok();
        let genuine_key = match genuine {
            Some(c) => Some(SigningKey::from_pkcs8_pem(&c.private_key).map_err(|e| format!("genuine key: {e}"))?),
            None => None,
        };
        Ok(Takeover {
            shape: shape.to_string(),
            sig: sig.to_string(),
            my_secret,
            my_pub,
            unrelated_key: signing_key_from_rng(&mut rng),
            own_cert_der: own_cert.certificate.first().cloned().unwrap_or_default(),
            own_cert_key,
            genuine_key,
            last_client_hello: None,
            client_random: vec![],
            server_random: vec![],
            ems: false,
            genuine: HashMap::new(),
            transcript: vec![],
            flight_sent: false,
            flight_desc: vec![],
            finished_mseq: 0,
            keys: None,
            done: false,
            rec_seq0: 0x20_0000,
            client_finished_ok: None,
            sent_finished: false,
            swallowed: [0, 0],
            notes: vec![],
        })
    }

    fn obs(&self) -> Value {
        json!({"shape": self.shape, "sig": self.sig, "flight_sent": self.flight_sent, "flight": self.flight_desc,
               "ems": self.ems, "client_finished_verified_by_on_path_party": self.client_finished_ok,
               "on_path_finished_sent": self.sent_finished, "swallowed": {"c2s": self.swallowed[0], "s2c": self.swallowed[1]},
               "notes": self.notes})
    }

    fn hs_record(&mut self, typ: u8, mseq: u16, body: &[u8]) -> Vec<u8> {
        let mut raw = vec![];
        enc_hs(&Hs { typ, total: body.len() as u32, mseq, off: 0, body: body.to_vec() }, &mut raw);
        self.transcript.extend_from_slice(&raw);
        let mut o = vec![];
        enc_record(&Rec { ctype: 22, ver: [0xfe, 0xfd], epoch: 0, seq: self.rec_seq0, body: raw }, &mut o);
        self.rec_seq0 += 1;
        o
    }

    /// own ServerKeyExchange: named curve P-256, own share; signature per `self.sig`
    fn own_ske(&self) -> Option<Vec<u8>> {
        let genuine_ske = self.genuine.get(&12)?;
        let gb = &genuine_ske.body;
        let gpl = *gb.get(3)? as usize;
        if gb.len() < 4 + gpl + 4 {
            return None;
        }
        let mut params = vec![3u8, 0, 23, self.my_pub.len() as u8];
        params.extend_from_slice(&self.my_pub);
        let mut signed = self.client_random.clone();
        signed.extend_from_slice(&self.server_random);
        signed.extend_from_slice(&params);
        let der = |s: EcdsaSig| s.to_der().as_bytes().to_vec();
        let sig: Vec<u8> = match self.sig.as_str() {
            "garbage" => der(self.unrelated_key.sign(b"not the key exchange parameters")),
            "unrelated" => der(self.unrelated_key.sign(&signed)),
            "copy" => gb[4 + gpl + 4..].to_vec(),
            "attacker_cert" => der(self.own_cert_key.as_ref()?.sign(&signed)),
            "genuine" => der(self.genuine_key.as_ref()?.sign(&signed)),
            _ => return None,
        };
        let mut body = params;
        body.extend_from_slice(&gb[4 + gpl..4 + gpl + 2]); // signature algorithm as the genuine server announced it
        body.extend_from_slice(&(sig.len() as u16).to_be_bytes());
        body.extend_from_slice(&sig);
        Some(body)
    }

    fn build_flight(&mut self) -> Option<Vec<Vec<u8>>> {
        let sh = self.genuine.get(&2)?.clone();
        let cert = self.genuine.get(&11)?.clone();
        let ske = self.genuine.get(&12)?.clone();
        let ske2 = self.own_ske()?;
        let cert2 = if self.sig == "genuine" { cert.body.clone() } else { cert_list(&[&self.own_cert_der]) };
        let seq: Vec<(u8, Vec<u8>, &str)> = match self.shape.as_str() {
            "ske2" => vec![(2, sh.body, "ServerHello"), (11, cert.body, "Certificate"), (12, ske.body, "ServerKeyExchange"), (12, ske2, "ServerKeyExchange*"), (14, vec![], "ServerHelloDone")],
            "ske_replace" => vec![(2, sh.body, "ServerHello"), (11, cert.body, "Certificate"), (12, ske2, "ServerKeyExchange*"), (14, vec![], "ServerHelloDone")],
            "cert2_ske2" => vec![(2, sh.body, "ServerHello"), (11, cert.body, "Certificate"), (11, cert2, "Certificate*"), (12, ske2, "ServerKeyExchange*"), (14, vec![], "ServerHelloDone")],
            "cert2_after_ske" => vec![(2, sh.body, "ServerHello"), (11, cert.body, "Certificate"), (12, ske.body, "ServerKeyExchange"), (11, cert2, "Certificate*"), (12, ske2, "ServerKeyExchange*"), (14, vec![], "ServerHelloDone")],
            "ske_before_cert" => vec![(2, sh.body, "ServerHello"), (12, ske2, "ServerKeyExchange*"), (11, cert.body, "Certificate"), (14, vec![], "ServerHelloDone")],
            _ => return None,
        };
        self.transcript = self.last_client_hello.clone()?;
        let mut mseq = sh.mseq;
        let mut out = vec![];
        for (typ, body, name) in seq {
            out.push(self.hs_record(typ, mseq, &body));
            self.flight_desc.push(format!("{name}[{mseq}]"));
            mseq = mseq.wrapping_add(1);
        }
        self.finished_mseq = mseq;
        Some(out)
    }

    fn on_client_key_exchange(&mut self, m: &Hs) {
        let mut raw = vec![];
        enc_hs(m, &mut raw);
        self.transcript.extend_from_slice(&raw);
        let Some(&l) = m.body.first() else { return };
        let Some(pk) = m.body.get(1..1 + l as usize) else { return };
        let Ok(peer) = p256::PublicKey::from_sec1_bytes(pk) else {
            self.notes.push("ClientKeyExchange: not a P-256 point".into());
            return;
        };
        let shared = p256::ecdh::diffie_hellman(self.my_secret.to_nonzero_scalar(), peer.as_affine());
        let pms = shared.raw_secret_bytes();
        let (cr, sr) = (self.client_random.clone(), self.server_random.clone());
        let master = if self.ems {
            tls_prf(pms, b"extended master secret", &Sha256::digest(&self.transcript), 48)
        } else {
            tls_prf(pms, b"master secret", &[cr.clone(), sr.clone()].concat(), 48)
        };
        let kb = tls_prf(&master, b"key expansion", &[sr, cr].concat(), 40);
        self.keys = Some(TkKeys { master, cwk: kb[0..16].to_vec(), swk: kb[16..32].to_vec(), civ: kb[32..36].to_vec(), siv: kb[36..40].to_vec() });
    }

    /// returns (destination direction, datagram, delay in ms)
    fn on_datagram(&mut self, dir: Dir, d: &[u8]) -> Vec<(Dir, Vec<u8>, u64)> {
        let Some(recs) = parse_records(d) else {
            self.swallowed[dir as usize] += 1;
            return vec![];
        };
        if !self.flight_sent {
            // ---- phase 1: transparent relay while the genuine flight is being collected
            for r in &recs {
                if r.ctype != 22 || r.epoch != 0 {
                    continue;
                }
                for m in parse_hs(&r.body).unwrap_or_default() {
                    if m.off != 0 || m.total as usize != m.body.len() {
                        continue;
                    }
                    match (dir, m.typ) {
                        (Dir::C2S, 1) if m.body.len() >= 34 => {
                            self.client_random = m.body[2..34].to_vec();
                            let mut raw = vec![];
                            enc_hs(&m, &mut raw);
                            self.last_client_hello = Some(raw);
                        }
                        (Dir::S2C, 2) if m.body.len() >= 35 => {
                            self.server_random = m.body[2..34].to_vec();
                            // extensions: extended_master_secret (23) echoed?
                            let sid = m.body[34] as usize;
                            let mut i = 35 + sid + 2 + 1; // session id, cipher suite, compression
                            if m.body.len() >= i + 2 {
                                i += 2;
                                while i + 4 <= m.body.len() {
                                    let t = u16::from_be_bytes([m.body[i], m.body[i + 1]]);
                                    let l = u16::from_be_bytes([m.body[i + 2], m.body[i + 3]]) as usize;
                                    if t == 23 {
                                        self.ems = true;
                                    }
                                    i += 4 + l;
                                }
                            }
                            self.genuine.insert(2, m);
                        }
                        (Dir::S2C, 11) | (Dir::S2C, 12) | (Dir::S2C, 14) => {
                            self.genuine.entry(m.typ).or_insert(m);
                        }
                        _ => {}
                    }
                }
            }
            if dir == Dir::C2S {
                return vec![(Dir::C2S, d.to_vec(), 0)];
            }
            let is_server_flight = recs.iter().any(|r| {
                r.ctype == 22 && r.epoch == 0 && parse_hs(&r.body).unwrap_or_default().iter().any(|m| matches!(m.typ, 2 | 11 | 12 | 14))
            });
            if !is_server_flight {
                return vec![(Dir::S2C, d.to_vec(), 0)]; // HelloVerifyRequest and the like
            }
            if [2u8, 11, 12, 14].iter().all(|t| self.genuine.contains_key(t)) {
                match self.build_flight() {
                    Some(f) => {
                        self.flight_sent = true;
                        return f.into_iter().map(|x| (Dir::S2C, x, 0)).collect();
                    }
                    None => self.notes.push("could not build the flight".into()),
                }
            }
            return vec![];
        }
        // ---- phase 2: the genuine server is cut off, the on-path party is the server
        if dir == Dir::S2C {
            self.swallowed[1] += 1;
            return vec![];
        }
        self.swallowed[0] += 1;
        let mut out = vec![];
        for r in &recs {
            if r.ctype == 22 && r.epoch == 0 {
                for m in parse_hs(&r.body).unwrap_or_default() {
                    if m.typ == 16 && m.off == 0 && m.total as usize == m.body.len() && self.keys.is_none() {
                        self.on_client_key_exchange(&m);
                    }
                }
            } else if r.ctype == 22 && r.epoch == 1 && !self.done {
                let Some(k) = &self.keys else { continue };
                let full = (1u64 << 48) | r.seq;
                let Some(plain) = gcm_open(&k.cwk, &k.civ, full, 22, &r.body) else {
                    self.client_finished_ok = Some(false);
                    self.notes.push("client Finished does not open under the on-path party's keys".into());
                    continue;
                };
                let expect = tls_prf(&k.master, b"client finished", &Sha256::digest(&self.transcript), 12);
                let ok = plain.len() == 24 && plain[12..] == expect[..];
                self.client_finished_ok = Some(ok);
                if !ok {
                    self.notes.push("client Finished verify_data differs from the on-path party's transcript".into());
                    continue;
                }
                self.transcript.extend_from_slice(&plain);
                let verify = tls_prf(&k.master, b"server finished", &Sha256::digest(&self.transcript), 12);
                let mut fin = vec![];
                enc_hs(&Hs { typ: 20, total: 12, mseq: self.finished_mseq, off: 0, body: verify }, &mut fin);
                let (Some(fin_body), Some(app_body)) = (
                    gcm_seal(&k.swk, &k.siv, 1u64 << 48, 22, &fin),
                    gcm_seal(&k.swk, &k.siv, (1u64 << 48) | 1, 23, ONPATH_PAYLOAD),
                ) else {
                    continue;
                };
                let mut dg = vec![];
                enc_record(&Rec { ctype: 20, ver: [0xfe, 0xfd], epoch: 0, seq: self.rec_seq0, body: vec![1] }, &mut dg);
                self.rec_seq0 += 1;
                enc_record(&Rec { ctype: 22, ver: [0xfe, 0xfd], epoch: 1, seq: 0, body: fin_body }, &mut dg);
                out.push((Dir::S2C, dg, 0));
                let mut app = vec![];
                enc_record(&Rec { ctype: 23, ver: [0xfe, 0xfd], epoch: 1, seq: 1, body: app_body }, &mut app);
                out.push((Dir::S2C, app, 120));
                self.sent_finished = true;
                self.done = true;
            }
        }
        out
    }
}

// =====================================================================================
// C11: racing senders
//
// "application data sent by one Connected side is readable by the other": an application thread
// that polls `get_state()` may call `send()` at the very instant the transport shows Connected.  A
// plain OS thread per endpoint does exactly that (it sleeps in short naps and spins only while a
// datagram that can complete the handshake is being processed), next to a configurable number of
// ordinary state-watch subscribers.  What it sent with `Ok` is checked by the C11 oracle.
// =====================================================================================

const RACER_SPIN_MS: u64 = 25;
const RACER_SENDS: usize = 3;

#[derive(Default)]
struct RaceResult {
    /// Connected was observed by the spinning thread (not after a nap)
    saw_connected_spinning: bool,
    /// payloads whose send() returned Ok (the thread had observed Connected before every call)
    sent_ok: Vec<Vec<u8>>,
    send_errors: Vec<String>,
    ended_without_connected: Option<&'static str>,
}

struct RacerShared {
    t0: Instant,
    spin_until_us: std::sync::atomic::AtomicU64,
    stop: std::sync::atomic::AtomicBool,
    done: std::sync::atomic::AtomicBool,
    thread: Mutex<Option<std::thread::Thread>>,
    res: Mutex<RaceResult>,
}

impl RacerShared {
    fn arm(&self, d: Duration) {
        let until = (self.t0.elapsed() + d).as_micros() as u64;
        self.spin_until_us.fetch_max(until, Ordering::SeqCst);
        if let Some(t) = &*self.thread.lock() {
            t.unpark();
        }
    }
    fn stop(&self) {
        self.stop.store(true, Ordering::SeqCst);
        if let Some(t) = &*self.thread.lock() {
            t.unpark();
        }
    }
}

/// Busy-drive one future to completion on the calling (non-runtime) thread.
fn drive<F: std::future::Future>(fut: F, limit: Duration) -> Option<F::Output> {
    let mut fut = Box::pin(fut);
    let mut cx = std::task::Context::from_waker(std::task::Waker::noop());
    let t = Instant::now();
    loop {
        if let std::task::Poll::Ready(v) = fut.as_mut().poll(&mut cx) {
            return Some(v);
        }
        if t.elapsed() > limit {
            return None;
        }
        std::hint::spin_loop();
    }
}

fn race_payload(side: &str, i: usize) -> Vec<u8> {
    format!("C11-RACE-{side}-{i}-sent-the-instant-get_state-showed-Connected").into_bytes()
}

fn spawn_racer(dtls: Arc<DtlsTransport>, side: &'static str, t0: Instant) -> Result<Arc<RacerShared>, String> {
    let sh = Arc::new(RacerShared {
        t0,
        spin_until_us: std::sync::atomic::AtomicU64::new(0),
        stop: std::sync::atomic::AtomicBool::new(false),
        done: std::sync::atomic::AtomicBool::new(false),
        thread: Mutex::new(None),
        res: Mutex::new(RaceResult::default()),
    });
    let sh2 = sh.clone();
    let handle = tokio::runtime::Handle::current();
    let jh = std::thread::Builder::new()
        .name(format!("c11-racer-{side}"))
        .stack_size(256 * 1024)
        .spawn(move || {
            let _g = handle.enter();
            let sh = sh2;
            let mut spinning = false;
            let connected = loop {
                match dtls.get_state() {
                    DtlsState::Connected(..) => break true,
                    DtlsState::Failed => {
                        sh.res.lock().ended_without_connected = Some("Failed");
                        break false;
                    }
                    DtlsState::Closed => {
                        sh.res.lock().ended_without_connected = Some("Closed");
                        break false;
                    }
                    _ => {}
                }
                if sh.stop.load(Ordering::SeqCst) {
                    sh.res.lock().ended_without_connected = Some("stopped");
                    break false;
                }
                if (sh.t0.elapsed().as_micros() as u64) < sh.spin_until_us.load(Ordering::Relaxed) {
                    spinning = true;
                    std::hint::spin_loop();
                } else {
                    spinning = false;
                    std::thread::park_timeout(Duration::from_millis(4));
                }
            };
            if connected {
                // the instant Connected is visible: send, back to back
                let mut oks = vec![];
                let mut errs = vec![];
                for i in 0..RACER_SENDS {
                    let p = race_payload(side, i);
                    match drive(dtls.send(Bytes::from(p.clone())), Duration::from_secs(2)) {
                        Some(Ok(())) => oks.push(p),
                        Some(Err(e)) => errs.push(e.to_string()),
                        None => errs.push("send() did not complete within 2 s of busy polling".into()),
                    }
                }
                let mut g = sh.res.lock();
                g.saw_connected_spinning = spinning;
                g.sent_ok = oks;
                g.send_errors = errs;
            }
            sh.done.store(true, Ordering::SeqCst);
        })
        .map_err(|e| format!("spawn racer thread: {e}"))?;
    *sh.thread.lock() = Some(jh.thread().clone());
    // detached: the thread ends by itself (Connected / Failed / Closed / stop)
    drop(jh);
    Ok(sh)
}

// =====================================================================================
// the wire
// =====================================================================================

#[derive(Clone)]
enum Sink {
    Rust(Arc<IceConn>, SocketAddr, Option<Arc<RacerShared>>),
    Chan(mpsc::UnboundedSender<Vec<u8>>),
}

impl Sink {
    async fn deliver(&self, d: Vec<u8>) {
        match self {
            Sink::Rust(conn, from, racer) => {
                if let Some(r) = racer {
                    // a datagram that can complete the handshake of the receiving side (CCS / protected
                    // handshake record) is about to be processed: the racing sender of that side stops
                    // sleeping and spins on get_state() for a moment
                    let finishing = parse_records(&d).map(|rs| rs.iter().any(|x| x.ctype == 20 || (x.ctype == 22 && x.epoch > 0))).unwrap_or(false);
                    if finishing {
                        r.arm(Duration::from_millis(RACER_SPIN_MS));
                    }
                }
                let mut mb = Vec::new();
                conn.receive(Bytes::from(d), *from, &mut mb).await;
            }
            Sink::Chan(tx) => {
                let _ = tx.send(d);
            }
        }
    }
}

#[derive(Default)]
struct WireShared {
    log: Vec<Value>,
    fired: Vec<String>,
    healed_at: Option<Instant>,
    /// per source direction: class_key -> number of deliveries of a *retransmission* after the heal
    post_heal: [HashMap<String, u32>; 2],
    retx_total: u32,
    last_emit: Option<Instant>,
    delivered_app: [u32; 2],
    n_datagrams: [u32; 2],
    classes: BTreeSet<String>,
    discovery: Vec<(Dir, String, u32)>,
    saw_cert_request: bool,
    saw_client_cert: bool,
    tamper_applied: u32,
    inject_done: bool,
    refrag_not_applicable: u32,
    /// post-heal retransmitted datagrams whose records all reuse an (epoch, seq) this side used before / not
    post_heal_replays: [u32; 2],
    post_heal_fresh: [u32; 2],
    takeover_obs: Option<Value>,
    follow_applied: u32,
    /// application-only datagrams per direction as seen on the wire: (epoch, record seq, that
    /// (epoch, seq) was used before by this side)
    app_recs: [Vec<(u16, u64, bool)>; 2],
    /// application datagrams that had to wait in the wire until their receiver was Connected
    app_waited: u32,
}

impl WireShared {
    fn rounds(&self, d: Dir) -> u32 {
        self.post_heal[d as usize].values().copied().max().unwrap_or(0)
    }
    /// names of the message types this side re-sent after the heal (message_seq / epoch stripped:
    /// the key must not depend on how often a handshake restarted)
    fn retx_classes(&self, d: Dir) -> String {
        let mut v: BTreeSet<String> = BTreeSet::new();
        for k in self.post_heal[d as usize].keys() {
            for part in k.split('+') {
                let name = part.split(|c| c == '[' || c == '(').next().unwrap_or(part);
                v.insert(name.to_string());
            }
        }
        if v.is_empty() { "none".into() } else { v.into_iter().collect::<Vec<_>>().join("|") }
    }
}

struct Wire {
    t0: Instant,
    mode: Mode,
    tamper: Option<Tamper>,
    takeover: Option<Takeover>,
    follow: Vec<Follow>,
    sinks: [Sink; 2], // index = destination of Dir (C2S -> server sink = [0], S2C -> client sink = [1])
    shared: Arc<Mutex<WireShared>>,
    pending: Arc<AtomicUsize>,
    occ: HashMap<(u8, String), u32>,
    seen_keys: [BTreeSet<String>; 2],
    seen_recseq: [BTreeSet<(u16, u64)>; 2],
    last_counted: [HashMap<String, Instant>; 2],
    held: [Option<(Vec<Vec<u8>>, Instant)>; 2],
    renumber: bool,
    next_seq: [u64; 2],
    last_fire: Instant,
    /// racing-sender scenarios: an application-only datagram is delivered only once its receiver is
    /// Connected (a delay - legal network behaviour; per-direction FIFO among application datagrams
    /// is kept), so "sent by a Connected side" meets "the other side is Connected"
    hold_app: bool,
    peer_dtls: [Option<Arc<DtlsTransport>>; 2], // index = destination of Dir
    held_app: [Vec<Vec<u8>>; 2],
}

impl Wire {
    async fn flush_app(&mut self, dir: Dir) {
        let di = dir as usize;
        if self.held_app[di].is_empty() {
            return;
        }
        let ready = match &self.peer_dtls[di] {
            Some(t) => matches!(t.get_state(), DtlsState::Connected(..)),
            None => true,
        };
        if !ready {
            return;
        }
        let ds = std::mem::take(&mut self.held_app[di]);
        let n = ds.len() as u32;
        self.deliver_now(dir, ds).await;
        self.shared.lock().delivered_app[di] += n;
    }

    fn log(&self, dir: Dir, class: &str, len: usize, what: &str) {
        let mut g = self.shared.lock();
        if g.log.len() < 300 {
            g.log.push(json!({"t_ms": self.t0.elapsed().as_millis() as u64, "dir": dir.name(), "class": class, "len": len, "wire": what}));
        }
    }

    /// give every epoch-0 record a fresh, strictly increasing record sequence number
    fn renumber(&mut self, dir: Dir, d: Vec<u8>) -> Vec<u8> {
        if !self.renumber {
            return d;
        }
        let Some(mut recs) = parse_records(&d) else {
            return d;
        };
        let mut o = vec![];
        for r in recs.iter_mut() {
            if r.epoch == 0 {
                r.seq = self.next_seq[dir as usize];
                self.next_seq[dir as usize] += 1;
            }
            enc_record(r, &mut o);
        }
        o
    }

    async fn deliver_now(&self, dir: Dir, ds: Vec<Vec<u8>>) {
        for d in ds {
            self.sinks[dir as usize].deliver(d).await;
        }
    }

    async fn on_datagram(&mut self, dir: Dir, d: Vec<u8>) {
        let (class, key, app_only) = classify(&d);
        let di = dir as usize;
        let healed;
        let recseqs: Vec<(u16, u64)> = parse_records(&d).map(|r| r.iter().map(|x| (x.epoch, x.seq)).collect()).unwrap_or_default();
        let all_reused = !recseqs.is_empty() && recseqs.iter().all(|k| self.seen_recseq[di].contains(k));
        let reused_each: Vec<bool> = recseqs.iter().map(|k| self.seen_recseq[di].contains(k)).collect();
        for k in &recseqs {
            self.seen_recseq[di].insert(*k);
        }
        {
            let mut g = self.shared.lock();
            g.n_datagrams[di] += 1;
            g.last_emit = Some(Instant::now());
            g.classes.insert(format!("{}:{}", dir.name(), class));
            if class.contains("CertificateRequest") {
                g.saw_cert_request = true;
            }
            if dir == Dir::C2S && class.contains("Certificate") {
                g.saw_client_cert = true;
            }
            healed = g.healed_at.is_some();
            if app_only && g.app_recs[di].len() < 24 {
                for (k, reused) in recseqs.iter().zip(reused_each.iter()) {
                    g.app_recs[di].push((k.0, k.1, *reused));
                }
            }
            if !app_only {
                let is_retx = self.seen_keys[di].contains(&key);
                if is_retx {
                    g.retx_total += 1;
                }
                // A "round" is a timer-driven re-send of a flight: alerts are not flights, and two
                // copies of the same flight less than 400 ms apart (burst, duplicate) count once, so
                // K+1 rounds really mean the peer had K retransmission periods to react.
                let spaced = self.last_counted[di].get(&key).map(|t| t.elapsed() >= Duration::from_millis(400)).unwrap_or(true);
                if is_retx && healed && !class.contains("Alert") && spaced {
                    self.last_counted[di].insert(key.clone(), Instant::now());
                    *g.post_heal[di].entry(key.clone()).or_insert(0) += 1;
                    if all_reused {
                        g.post_heal_replays[di] += 1;
                    } else {
                        g.post_heal_fresh[di] += 1;
                    }
                }
            }
        }
        self.seen_keys[di].insert(key.clone());
        let occ = {
            let e = self.occ.entry((di as u8, class.clone())).or_insert(0);
            let o = *e;
            *e += 1;
            o
        };
        if !app_only {
            let mut g = self.shared.lock();
            if g.discovery.len() < 64 {
                g.discovery.push((dir, class.clone(), occ));
            }
        }

        // ---- C02 on-path completion: the on-path party decides what each side gets to see
        if let Some(tk) = self.takeover.as_mut() {
            let sent_before = tk.flight_sent;
            let outs = tk.on_datagram(dir, &d);
            let what = if !sent_before && tk.flight_sent {
                "on-path flight sent"
            } else if outs.is_empty() {
                "swallowed"
            } else if tk.flight_sent {
                "answered by on-path party"
            } else {
                "relayed"
            };
            self.shared.lock().takeover_obs = Some(tk.obs());
            self.log(dir, &class, d.len(), what);
            for (to, bytes, delay) in outs {
                if delay == 0 {
                    self.sinks[to as usize].deliver(bytes).await;
                } else {
                    let sink = self.sinks[to as usize].clone();
                    tokio::spawn(async move {
                        tokio::time::sleep(Duration::from_millis(delay)).await;
                        sink.deliver(bytes).await;
                    });
                }
            }
            return;
        }

        // ---- C02 tampering (no fault plan in that mode)
        if let Some(t) = self.tamper.as_mut() {
            let before = t.applied;
            let out = t.apply(dir, &d);
            let applied = t.applied;
            {
                let mut g = self.shared.lock();
                g.tamper_applied = applied;
                g.inject_done = t.inject.as_ref().map(|i| i.done).unwrap_or(false);
            }
            self.log(dir, &class, d.len(), if applied > before { "tampered" } else { "pass" });
            self.deliver_now(dir, out).await;
            return;
        }

        // ---- racing-sender scenarios: application datagrams wait for a Connected receiver
        if app_only && self.hold_app {
            self.log(dir, &class, d.len(), "application datagram");
            self.held_app[di].push(d);
            self.flush_app(dir).await;
            if !self.held_app[di].is_empty() {
                self.shared.lock().app_waited += 1;
            }
            return;
        }

        // ---- choose the action
        let mut act = Act::Pass;
        if !app_only && !healed {
            match &mut self.mode {
                Mode::Rules(rules) => {
                    for r in rules.iter_mut() {
                        if !r.fired && !r.cancelled && r.dir == dir && r.class == class && r.occ == occ {
                            r.fired = true;
                            act = r.act.clone();
                            break;
                        }
                    }
                }
                Mode::Random(p) => {
                    p.seen += 1;
                    if p.seen <= p.heal_after {
                        let x = p.rng.below(100);
                        let mut acc = p.loss;
                        if x < acc {
                            act = Act::Drop;
                        } else if x < { acc += p.dup; acc } {
                            act = Act::Dup;
                        } else if x < { acc += p.swap; acc } {
                            act = Act::Swap;
                        } else if x < { acc += p.delay; acc } {
                            act = Act::Delay(200 + p.rng.below(1300));
                        } else if x < { acc += p.refrag; acc } {
                            let k = 2 + p.rng.usize_below(3);
                            let o = match p.rng.below(3) {
                                0 => Order::InOrder,
                                1 => Order::Reversed,
                                _ => Order::DupFrag(p.rng.usize_below(k)),
                            };
                            act = Act::Refrag(k, o);
                        }
                    }
                }
            }
        }

        // ---- build what goes out for this datagram
        let mut outs: Vec<Vec<u8>> = vec![];
        let mut fired_desc: Option<String> = None;
        let mut follow_note = false;
        match &act {
            Act::Pass => {
                // a message that was partially lost before keeps arriving in k2 in-order fragments
                let fl: Vec<Follow> = self.follow.iter().filter(|f| f.dir == dir).cloned().collect();
                let split = if fl.is_empty() {
                    None
                } else {
                    refrag_select(&d, &|_, m| fl.iter().find(|f| f.typ == m.typ && f.mseq == m.mseq).map(|f| (f.k2, vec![])))
                };
                match split {
                    Some((parts, _)) => {
                        for p in parts {
                            let p = self.renumber(dir, p);
                            outs.push(p);
                        }
                        self.shared.lock().follow_applied += 1;
                        follow_note = true;
                    }
                    None => outs.push(self.renumber(dir, d.clone())),
                }
            }
            Act::PartialRefrag { msg, k, lose, k2 } => {
                match refrag_select(&d, &|i, _| if i == *msg { Some((*k, lose.clone())) } else { None }) {
                    Some((parts, hit)) => {
                        for p in parts {
                            let p = self.renumber(dir, p);
                            outs.push(p);
                        }
                        for (typ, mseq) in hit {
                            self.follow.push(Follow { dir, typ, mseq, k2: *k2 });
                        }
                        fired_desc = Some(format!("{}@{}:{}#{}", act.short(), dir.name(), class, occ));
                    }
                    None => {
                        self.shared.lock().refrag_not_applicable += 1;
                        outs.push(self.renumber(dir, d.clone()));
                    }
                }
            }
            Act::Drop => {
                fired_desc = Some(format!("drop@{}:{}#{}", dir.name(), class, occ));
            }
            Act::Dup => {
                let x = self.renumber(dir, d.clone());
                outs.push(x.clone());
                outs.push(x);
                fired_desc = Some(format!("dup@{}:{}#{}", dir.name(), class, occ));
            }
            Act::Swap | Act::Delay(_) => {
                outs.push(self.renumber(dir, d.clone()));
                fired_desc = Some(format!("{}@{}:{}#{}", act.short(), dir.name(), class, occ));
            }
            Act::Refrag(k, o) => match refragment(&d, *k, o) {
                Some(parts) => {
                    for p in parts {
                        let p = self.renumber(dir, p);
                        outs.push(p);
                    }
                    fired_desc = Some(format!("{}@{}:{}#{}", act.short(), dir.name(), class, occ));
                }
                None => {
                    self.shared.lock().refrag_not_applicable += 1;
                    outs.push(self.renumber(dir, d.clone()));
                }
            },
        }
        if let Some(f) = &fired_desc {
            self.last_fire = Instant::now();
            self.shared.lock().fired.push(f.clone());
        }
        self.log(dir, &class, d.len(), fired_desc.as_deref().unwrap_or(if follow_note { "delivered re-fragmented (k2)" } else { "pass" }));

        // ---- deliver (a datagram held for a swap goes out right after its successor)
        match act {
            Act::Swap => {
                if let Some((prev, _)) = self.held[di].take() {
                    self.deliver_now(dir, prev).await;
                }
                self.held[di] = Some((outs, Instant::now()));
            }
            Act::Delay(ms) => {
                self.pending.fetch_add(1, Ordering::SeqCst);
                let sink = self.sinks[di].clone();
                let pending = self.pending.clone();
                tokio::spawn(async move {
                    tokio::time::sleep(Duration::from_millis(ms)).await;
                    for o in outs {
                        sink.deliver(o).await;
                    }
                    pending.fetch_sub(1, Ordering::SeqCst);
                });
            }
            _ => {
                self.deliver_now(dir, outs).await;
                if let Some((prev, _)) = self.held[di].take() {
                    self.deliver_now(dir, prev).await;
                }
            }
        }
        if app_only {
            self.shared.lock().delivered_app[di] += 1;
        }
    }

    /// periodic: release stale swap holds, cancel rules that cannot fire any more, decide "healed"
    async fn housekeeping(&mut self) {
        if self.hold_app {
            self.flush_app(Dir::C2S).await;
            self.flush_app(Dir::S2C).await;
        }
        for di in 0..2 {
            let stale = matches!(&self.held[di], Some((_, t)) if t.elapsed() > Duration::from_millis(400));
            if stale {
                if let Some((prev, _)) = self.held[di].take() {
                    let dir = if di == 0 { Dir::C2S } else { Dir::S2C };
                    self.deliver_now(dir, prev).await;
                }
            }
        }
        if self.shared.lock().healed_at.is_some() {
            return;
        }
        let plan_done = match &mut self.mode {
            Mode::Rules(rules) => {
                // A rule whose (class, occurrence) did not show up 2.5 s after the last firing is
                // cancelled: the plan that was really applied is the set of fired rules, and from
                // here on everything is delivered unfaulted - that is what "healed" means.
                if self.last_fire.elapsed() > Duration::from_millis(2500) {
                    for r in rules.iter_mut() {
                        if !r.fired {
                            r.cancelled = true;
                        }
                    }
                }
                rules.iter().all(|r| r.fired || r.cancelled)
            }
            Mode::Random(p) => p.seen >= p.heal_after || self.t0.elapsed() > Duration::from_secs(5),
        };
        if plan_done
            && self.pending.load(Ordering::SeqCst) == 0
            && self.held[0].is_none()
            && self.held[1].is_none()
        {
            if let Mode::Random(p) = &mut self.mode {
                p.heal_after = 0;
            }
            self.shared.lock().healed_at = Some(Instant::now());
        }
    }
}

fn spawn_wire(mut wire: Wire, mut rx: mpsc::UnboundedReceiver<(Dir, Vec<u8>)>) -> JoinHandle<()> {
    tokio::spawn(async move {
        let mut tick = tokio::time::interval(Duration::from_millis(25));
        tick.set_missed_tick_behavior(tokio::time::MissedTickBehavior::Skip);
        loop {
            tokio::select! {
                biased;
                m = rx.recv() => {
                    let Some((dir, d)) = m else { break };
                    wire.on_datagram(dir, d).await;
                }
                _ = tick.tick() => wire.housekeeping().await,
            }
        }
    })
}

// =====================================================================================
// endpoints
// =====================================================================================

#[derive(Clone, Copy, PartialEq, Eq, Debug)]
enum St {
    New,
    Handshaking,
    Connected,
    Failed,
    Closed,
}
impl St {
    fn name(self) -> &'static str {
        match self {
            St::New => "New",
            St::Handshaking => "Handshaking",
            St::Connected => "Connected",
            St::Failed => "Failed",
            St::Closed => "Closed",
        }
    }
}

/// what an endpoint reports about its session once Connected (None = not observable on that stack)
#[derive(Clone, Debug, Default, PartialEq)]
struct Snap {
    master: Option<Vec<u8>>,
    cwk: Option<Vec<u8>>,
    swk: Option<Vec<u8>>,
    cwi: Option<Vec<u8>>,
    swi: Option<Vec<u8>>,
    cr: Option<Vec<u8>>,
    sr: Option<Vec<u8>>,
    profile: Option<u16>,
    ekm: Option<Vec<u8>>,
}

impl Snap {
    /// names of the fields both sides expose and that differ
    fn diff(&self, o: &Snap) -> Vec<&'static str> {
        let mut v = vec![];
        fn ne(a: &Option<Vec<u8>>, b: &Option<Vec<u8>>) -> bool {
            matches!((a, b), (Some(x), Some(y)) if x != y)
        }
        if ne(&self.master, &o.master) {
            v.push("master_secret");
        }
        if ne(&self.cwk, &o.cwk) {
            v.push("client_write_key");
        }
        if ne(&self.swk, &o.swk) {
            v.push("server_write_key");
        }
        if ne(&self.cwi, &o.cwi) {
            v.push("client_write_iv");
        }
        if ne(&self.swi, &o.swi) {
            v.push("server_write_iv");
        }
        if ne(&self.cr, &o.cr) {
            v.push("client_random");
        }
        if ne(&self.sr, &o.sr) {
            v.push("server_random");
        }
        if self.profile != o.profile {
            v.push("srtp_profile");
        }
        if ne(&self.ekm, &o.ekm) || self.ekm.is_none() != o.ekm.is_none() {
            v.push("exported_keying_material");
        }
        v
    }
    fn to_json(&self) -> Value {
        let h = |x: &Option<Vec<u8>>| x.as_ref().map(|b| hex(b));
        json!({"master": h(&self.master), "cwk": h(&self.cwk), "swk": h(&self.swk), "cwi": h(&self.cwi), "swi": h(&self.swi),
               "client_random": h(&self.cr), "server_random": h(&self.sr), "profile": self.profile, "ekm": h(&self.ekm)})
    }
}

const EKM_LABEL: &str = "EXTRACTOR-dtls_srtp";
const EKM_LEN: usize = 60;

struct RustEp {
    dtls: Arc<DtlsTransport>,
    conn: Arc<IceConn>,
    rx: mpsc::UnboundedReceiver<Bytes>,
    ever_connected: Arc<std::sync::atomic::AtomicBool>,
    states_seen: Arc<Mutex<Vec<&'static str>>>,
    tasks: Vec<JoinHandle<()>>,
    _sock: Arc<UdpSocket>,
    _sock_tx: watch::Sender<Option<IceSocketWrapper>>,
    addr: SocketAddr,
}

fn map_state(s: &DtlsState) -> St {
    match s {
        DtlsState::New => St::New,
        DtlsState::Handshaking => St::Handshaking,
        DtlsState::Connected(..) => St::Connected,
        DtlsState::Failed => St::Failed,
        DtlsState::Closed => St::Closed,
    }
}

impl RustEp {
    /// Construction as in src/transports/dtls/tests.rs, from outside the crate.
    async fn new(
        wire_addr: SocketAddr,
        cert: Certificate,
        is_client: bool,
        expected_fp: Option<String>,
        start: bool,
        extra_subscribers: usize,
    ) -> Result<(RustEp, Option<std::pin::Pin<Box<dyn std::future::Future<Output = ()> + Send>>>), String> {
        let sock = Arc::new(UdpSocket::bind("127.0.0.1:0").await.map_err(|e| format!("bind: {e}"))?);
        let addr = sock.local_addr().map_err(|e| format!("local_addr: {e}"))?;
        let (sock_tx, _) = watch::channel(Some(IceSocketWrapper::Udp(sock.clone())));
        let conn = IceConn::new(sock_tx.subscribe(), wire_addr, None);
        let (dtls, rx, runner) = DtlsTransport::new(conn.clone(), cert, is_client, 1500, expected_fp)
            .await
            .map_err(|e| format!("DtlsTransport::new: {e}"))?;
        let ever = Arc::new(std::sync::atomic::AtomicBool::new(false));
        let seen = Arc::new(Mutex::new(vec![]));
        let mut tasks = vec![];
        {
            // state watcher: every value the watch shows is recorded
            let mut srx = dtls.subscribe_state();
            let ever = ever.clone();
            let seen = seen.clone();
            tasks.push(tokio::spawn(async move {
                loop {
                    let st = map_state(&srx.borrow_and_update());
                    if st == St::Connected {
                        ever.store(true, Ordering::SeqCst);
                    }
                    {
                        let mut g = seen.lock();
                        if g.last() != Some(&st.name()) && g.len() < 16 {
                            g.push(st.name());
                        }
                    }
                    if srx.changed().await.is_err() {
                        break;
                    }
                }
            }));
        }
        // ordinary state-watch subscribers, the way upper layers learn about Connected
        for _ in 0..extra_subscribers {
            let mut srx = dtls.subscribe_state();
            tasks.push(tokio::spawn(async move {
                while srx.changed().await.is_ok() {
                    let _ = map_state(&srx.borrow_and_update());
                }
            }));
        }
        let runner: std::pin::Pin<Box<dyn std::future::Future<Output = ()> + Send>> = Box::pin(runner);
        let mut ep = RustEp {
            dtls,
            conn,
            rx,
            ever_connected: ever,
            states_seen: seen,
            tasks,
            _sock: sock,
            _sock_tx: sock_tx,
            addr,
        };
        if start {
            ep.tasks.push(tokio::spawn(runner));
            Ok((ep, None))
        } else {
            Ok((ep, Some(runner)))
        }
    }

    fn st(&self) -> St {
        let s = map_state(&self.dtls.get_state());
        if s == St::Connected {
            self.ever_connected.store(true, Ordering::SeqCst);
        }
        s
    }

    fn snap(&self) -> Option<Snap> {
        if let DtlsState::Connected(c, profile) = self.dtls.get_state() {
            let k = &c.keys;
            Some(Snap {
                master: Some(k.master_secret.clone()),
                cwk: Some(k.client_write_key.clone()),
                swk: Some(k.server_write_key.clone()),
                cwi: Some(k.client_write_iv.clone()),
                swi: Some(k.server_write_iv.clone()),
                cr: Some(k.client_random.clone()),
                sr: Some(k.server_random.clone()),
                profile,
                ekm: self.dtls.export_keying_material(EKM_LABEL, EKM_LEN).ok(),
            })
        } else {
            None
        }
    }
}

impl Drop for RustEp {
    fn drop(&mut self) {
        self.dtls.close();
        for t in &self.tasks {
            t.abort();
        }
    }
}

// ---- reference endpoint: dtls 0.17 (webrtc-rs) behind a channel-backed webrtc_util::Conn

struct ChanConn {
    dir: Dir,
    to_wire: mpsc::UnboundedSender<(Dir, Vec<u8>)>,
    rx: tokio::sync::Mutex<mpsc::UnboundedReceiver<Vec<u8>>>,
    local: SocketAddr,
    remote: SocketAddr,
}

#[async_trait::async_trait]
impl webrtc_util::Conn for ChanConn {
    async fn connect(&self, _addr: SocketAddr) -> webrtc_util::Result<()> {
        Ok(())
    }
    async fn recv(&self, buf: &mut [u8]) -> webrtc_util::Result<usize> {
        let mut g = self.rx.lock().await;
        match g.recv().await {
            Some(d) => {
                let n = d.len().min(buf.len());
                buf[..n].copy_from_slice(&d[..n]);
                Ok(n)
            }
            None => Err(webrtc_util::Error::Other("wire closed".into())),
        }
    }
    async fn recv_from(&self, buf: &mut [u8]) -> webrtc_util::Result<(usize, SocketAddr)> {
        let n = self.recv(buf).await?;
        Ok((n, self.remote))
    }
    async fn send(&self, buf: &[u8]) -> webrtc_util::Result<usize> {
        self.to_wire
            .send((self.dir, buf.to_vec()))
            .map_err(|_| webrtc_util::Error::Other("wire closed".into()))?;
        Ok(buf.len())
    }
    async fn send_to(&self, buf: &[u8], _target: SocketAddr) -> webrtc_util::Result<usize> {
        self.send(buf).await
    }
    fn local_addr(&self) -> webrtc_util::Result<SocketAddr> {
        Ok(self.local)
    }
    fn remote_addr(&self) -> Option<SocketAddr> {
        Some(self.remote)
    }
    async fn close(&self) -> webrtc_util::Result<()> {
        Ok(())
    }
    fn as_any(&self) -> &(dyn std::any::Any + Send + Sync) {
        self
    }
}

enum RefState {
    Handshaking,
    Connected(Arc<::dtls::conn::DTLSConn>, Snap),
    Failed(String),
}

struct RefEp {
    st: Arc<Mutex<RefState>>,
    task: JoinHandle<()>,
}

impl RefEp {
    /// configuration that interoperates with rustrtc (cf. src/transports/dtls/interop_tests.rs)
    fn new(
        is_client: bool,
        no_ems: bool,
        to_wire: mpsc::UnboundedSender<(Dir, Vec<u8>)>,
        from_wire: mpsc::UnboundedReceiver<Vec<u8>>,
    ) -> Result<RefEp, String> {
        use ::dtls::cipher_suite::CipherSuiteId;
        use ::dtls::config::{Config, ExtendedMasterSecretType};
        use ::dtls::extension::extension_use_srtp::SrtpProtectionProfile;
        let cert = ::dtls::crypto::Certificate::generate_self_signed(vec!["localhost".to_string()])
            .map_err(|e| format!("ref cert: {e}"))?;
        let config = Config {
            certificates: vec![cert],
            cipher_suites: vec![CipherSuiteId::Tls_Ecdhe_Ecdsa_With_Aes_128_Gcm_Sha256],
            srtp_protection_profiles: vec![
                SrtpProtectionProfile::Srtp_Aead_Aes_128_Gcm,
                SrtpProtectionProfile::Srtp_Aes128_Cm_Hmac_Sha1_80,
            ],
            extended_master_secret: if no_ems { ExtendedMasterSecretType::Disable } else { ExtendedMasterSecretType::Request },
            insecure_skip_verify: true,
            ..Default::default()
        };
        let a: SocketAddr = "127.0.0.1:1".parse().unwrap();
        let b: SocketAddr = "127.0.0.1:2".parse().unwrap();
        let conn = Arc::new(ChanConn {
            dir: if is_client { Dir::C2S } else { Dir::S2C },
            to_wire,
            rx: tokio::sync::Mutex::new(from_wire),
            local: a,
            remote: b,
        });
        let st = Arc::new(Mutex::new(RefState::Handshaking));
        let st2 = st.clone();
        let task = tokio::spawn(async move {
            use webrtc_util::KeyingMaterialExporter;
            match ::dtls::conn::DTLSConn::new(conn, config, is_client, None).await {
                Ok(c) => {
                    let state = c.connection_state().await;
                    let ekm = state.export_keying_material(EKM_LABEL, &[], EKM_LEN).await.ok();
                    let p = c.selected_srtpprotection_profile();
                    let profile = if p == SrtpProtectionProfile::Unsupported { None } else { Some(p as u16) };
                    *st2.lock() = RefState::Connected(Arc::new(c), Snap { profile, ekm, ..Default::default() });
                }
                Err(e) => *st2.lock() = RefState::Failed(e.to_string()),
            }
        });
        Ok(RefEp { st, task })
    }
    fn st(&self) -> St {
        match &*self.st.lock() {
            RefState::Handshaking => St::Handshaking,
            RefState::Connected(..) => St::Connected,
            RefState::Failed(_) => St::Failed,
        }
    }
}

impl Drop for RefEp {
    fn drop(&mut self) {
        self.task.abort();
    }
}

enum Ep {
    Rust(RustEp),
    Ref(RefEp),
}

impl Ep {
    fn st(&self) -> St {
        match self {
            Ep::Rust(e) => e.st(),
            Ep::Ref(e) => e.st(),
        }
    }
    fn snap(&self) -> Option<Snap> {
        match self {
            Ep::Rust(e) => e.snap(),
            Ep::Ref(e) => match &*e.st.lock() {
                RefState::Connected(_, s) => Some(s.clone()),
                _ => None,
            },
        }
    }
    fn fail_reason(&self) -> String {
        match self {
            Ep::Rust(_) => String::new(),
            Ep::Ref(e) => match &*e.st.lock() {
                RefState::Failed(s) => s.clone(),
                _ => String::new(),
            },
        }
    }
    async fn send_app(&self, d: &[u8]) -> Result<(), String> {
        match self {
            Ep::Rust(e) => e.dtls.send(Bytes::copy_from_slice(d)).await.map_err(|e| e.to_string()),
            Ep::Ref(e) => {
                let c = match &*e.st.lock() {
                    RefState::Connected(c, _) => c.clone(),
                    _ => return Err("ref not connected".into()),
                };
                c.write(d, Some(Duration::from_secs(2))).await.map(|_| ()).map_err(|e| e.to_string())
            }
        }
    }
    /// next application payload, or None after `dur`
    async fn recv_app(&mut self, dur: Duration) -> Option<Vec<u8>> {
        match self {
            Ep::Rust(e) => match tokio::time::timeout(dur, e.rx.recv()).await {
                Ok(Some(b)) => Some(b.to_vec()),
                _ => None,
            },
            Ep::Ref(e) => {
                let c = match &*e.st.lock() {
                    RefState::Connected(c, _) => c.clone(),
                    _ => return None,
                };
                let mut buf = vec![0u8; 2048];
                match c.read(&mut buf, Some(dur)).await {
                    Ok(n) => Some(buf[..n].to_vec()),
                    Err(_) => None,
                }
            }
        }
    }
}

// =====================================================================================
// rig
// =====================================================================================

struct Rig {
    client: Ep,
    server: Ep,
    shared: Arc<Mutex<WireShared>>,
    tasks: Vec<JoinHandle<()>>,
    t0: Instant,
    /// racing senders [client, server]
    racers: [Option<Arc<RacerShared>>; 2],
}

impl Drop for Rig {
    fn drop(&mut self) {
        for r in self.racers.iter().flatten() {
            r.stop();
        }
        for t in &self.tasks {
            t.abort();
        }
    }
}

struct RigCfg {
    pair: String, // "rr" | "rust_client_ref_server" | "ref_client_rust_server"
    mode: Mode,
    tamper: Option<Tamper>,
    takeover: Option<Takeover>,
    client_cert: Option<Certificate>,
    server_cert: Option<Certificate>,
    client_expect: Option<String>,
    server_expect: Option<String>,
    force_renumber: bool,
    /// Some(k): a racing sender thread and k ordinary state subscribers on every rustrtc endpoint
    race: Option<usize>,
    /// the reference endpoint does not use the extended_master_secret extension (RFC 7627 is optional:
    /// a legal peer; the classic RFC 5246 master secret derivation is used then)
    ref_no_ems: bool,
}

async fn build_rig(cfg: RigCfg) -> Result<Rig, String> {
    let (tx_wire, rx_wire) = mpsc::unbounded_channel::<(Dir, Vec<u8>)>();
    let client_is_rust = cfg.pair != "ref_client_rust_server";
    let server_is_rust = cfg.pair != "rust_client_ref_server";
    let wsock = Arc::new(UdpSocket::bind("127.0.0.1:0").await.map_err(|e| format!("bind wire: {e}"))?);
    let waddr = wsock.local_addr().map_err(|e| format!("wire addr: {e}"))?;
    let gen_cert = || rdtls::generate_certificate().map_err(|e| format!("generate_certificate: {e}"));

    let mut rust_client = None;
    let mut rust_server = None;
    let mut client_runner = None;
    let mut server_runner = None;
    if client_is_rust {
        let cert = match cfg.client_cert { Some(c) => c, None => gen_cert()? };
        let (ep, r) = RustEp::new(waddr, cert, true, cfg.client_expect.clone(), false, cfg.race.unwrap_or(0)).await?;
        rust_client = Some(ep);
        client_runner = r;
    }
    if server_is_rust {
        let cert = match cfg.server_cert { Some(c) => c, None => gen_cert()? };
        let (ep, r) = RustEp::new(waddr, cert, false, cfg.server_expect.clone(), false, cfg.race.unwrap_or(0)).await?;
        rust_server = Some(ep);
        server_runner = r;
    }
    let t0 = Instant::now();
    let mut racers: [Option<Arc<RacerShared>>; 2] = [None, None];
    let mut peer_dtls: [Option<Arc<DtlsTransport>>; 2] = [None, None];
    if cfg.race.is_some() {
        if let Some(e) = &rust_client {
            racers[0] = Some(spawn_racer(e.dtls.clone(), "client", t0)?);
            peer_dtls[Dir::S2C as usize] = Some(e.dtls.clone());
        }
        if let Some(e) = &rust_server {
            racers[1] = Some(spawn_racer(e.dtls.clone(), "server", t0)?);
            peer_dtls[Dir::C2S as usize] = Some(e.dtls.clone());
        }
    }
    let mut ref_client_rx = None;
    let mut ref_server_rx = None;
    let server_sink = match &rust_server {
        Some(e) => Sink::Rust(e.conn.clone(), waddr, racers[1].clone()),
        None => {
            let (tx, rx) = mpsc::unbounded_channel();
            ref_server_rx = Some(rx);
            Sink::Chan(tx)
        }
    };
    let client_sink = match &rust_client {
        Some(e) => Sink::Rust(e.conn.clone(), waddr, racers[0].clone()),
        None => {
            let (tx, rx) = mpsc::unbounded_channel();
            ref_client_rx = Some(rx);
            Sink::Chan(tx)
        }
    };
    let shared = Arc::new(Mutex::new(WireShared::default()));
    let renumber = match &cfg.mode {
        Mode::Rules(r) => r.iter().any(|x| matches!(x.act, Act::Refrag(..) | Act::PartialRefrag { .. })),
        Mode::Random(p) => p.refrag > 0,
    } || cfg.force_renumber;
    let wire = Wire {
        t0,
        mode: cfg.mode,
        tamper: cfg.tamper,
        takeover: cfg.takeover,
        follow: vec![],
        sinks: [server_sink, client_sink],
        shared: shared.clone(),
        pending: Arc::new(AtomicUsize::new(0)),
        occ: HashMap::new(),
        seen_keys: [BTreeSet::new(), BTreeSet::new()],
        seen_recseq: [BTreeSet::new(), BTreeSet::new()],
        last_counted: [HashMap::new(), HashMap::new()],
        held: [None, None],
        renumber,
        next_seq: [0x10_0000, 0x10_0000],
        last_fire: t0,
        hold_app: cfg.race.is_some(),
        peer_dtls,
        held_app: [vec![], vec![]],
    };
    let mut tasks = vec![spawn_wire(wire, rx_wire)];
    // pump: everything a rustrtc endpoint writes arrives on the wire socket
    {
        let client_addr = rust_client.as_ref().map(|e| e.addr);
        let tx = tx_wire.clone();
        let ws = wsock.clone();
        tasks.push(tokio::spawn(async move {
            let mut buf = vec![0u8; 4096];
            loop {
                match ws.recv_from(&mut buf).await {
                    Ok((n, from)) => {
                        let dir = if Some(from) == client_addr { Dir::C2S } else { Dir::S2C };
                        if tx.send((dir, buf[..n].to_vec())).is_err() {
                            break;
                        }
                    }
                    Err(_) => break,
                }
            }
        }));
    }
    // start: server first, then client
    let server = match rust_server {
        Some(mut e) => {
            if let Some(r) = server_runner {
                e.tasks.push(tokio::spawn(r));
            }
            Ep::Rust(e)
        }
        None => Ep::Ref(RefEp::new(false, cfg.ref_no_ems, tx_wire.clone(), ref_server_rx.take().ok_or("no rx")?)?),
    };
    let client = match rust_client {
        Some(mut e) => {
            if let Some(r) = client_runner {
                e.tasks.push(tokio::spawn(r));
            }
            Ep::Rust(e)
        }
        None => Ep::Ref(RefEp::new(true, cfg.ref_no_ems, tx_wire.clone(), ref_client_rx.take().ok_or("no rx")?)?),
    };
    Ok(Rig { client, server, shared, tasks, t0, racers })
}

struct Outcome {
    verdict: Verdict,
    nontrivial: bool,
    obs: Value,
    counts: Vec<(String, u64)>,
    sets: Vec<(&'static str, String)>,
}

fn inconclusive(why: String) -> Outcome {
    Outcome { verdict: Verdict::Inconclusive(why), nontrivial: false, obs: json!({}), counts: vec![], sets: vec![] }
}

// =====================================================================================
// C11 oracle
// =====================================================================================

const STALL_K: u32 = 3;
const LAG_LIMIT_MS: u128 = 250;

fn coarse_fault(f: &str) -> String {
    // "refrag3:dup1@c2s:ClientHello#0" -> "refrag_dup@c2s:ClientHello"
    let (act, rest) = f.split_once('@').unwrap_or((f, ""));
    let rest = rest.split('#').next().unwrap_or(rest);
    let act = if act.starts_with("refrag") {
        let o = act.split(':').nth(1).unwrap_or("");
        if o.starts_with("dup") { "refrag_dup".to_string() } else { format!("refrag_{o}") }
    } else if act.starts_with("partial") {
        "partial_refrag".to_string()
    } else {
        act.to_string()
    };
    format!("{act}@{rest}")
}

async fn run_c11(sc: Value) -> Outcome {
    let pair = sc["pair"].as_str().unwrap_or("rr").to_string();
    let mode = if sc["random"].is_object() {
        let r = &sc["random"];
        Mode::Random(RandomPlan {
            rng: Rng::new(r["seed"].as_u64().unwrap_or(1)),
            loss: r["loss"].as_u64().unwrap_or(0),
            dup: r["dup"].as_u64().unwrap_or(0),
            swap: r["swap"].as_u64().unwrap_or(0),
            delay: r["delay"].as_u64().unwrap_or(0),
            refrag: r["refrag"].as_u64().unwrap_or(0),
            heal_after: r["heal_after"].as_u64().unwrap_or(10) as u32,
            seen: 0,
        })
    } else {
        Mode::Rules(rules_from_json(&sc["plan"]))
    };
    let watchdog = Duration::from_millis(sc["watchdog_ms"].as_u64().unwrap_or(22_000));
    let mut rig = match build_rig(RigCfg {
        pair: pair.clone(),
        mode,
        tamper: None,
        takeover: None,
        client_cert: None,
        server_cert: None,
        client_expect: None,
        server_expect: None,
        force_renumber: sc["renumber"].as_bool().unwrap_or(false),
        race: if sc["race"].is_object() { Some(sc["race"]["subs"].as_u64().unwrap_or(0) as usize) } else { None },
        ref_no_ems: sc["ref_ems"].as_str() == Some("disable"),
    })
    .await
    {
        Ok(r) => r,
        Err(e) => return inconclusive(format!("rig: {e}")),
    };

    let mut max_lag_post_heal: u128 = 0;
    let mut last_tick = Instant::now();
    let mut connected_at: [Option<u128>; 2] = [None, None];
    let mut race_obs: [Value; 2] = [Value::Null, Value::Null];
    let mut race_live = 0u64;
    let mut race_spin_hits = 0u64;
    let racing = rig.racers.iter().any(|r| r.is_some());
    let verdict: Verdict;
    loop {
        tokio::time::sleep(Duration::from_millis(10)).await;
        let lag = last_tick.elapsed().as_millis().saturating_sub(10);
        last_tick = Instant::now();
        let cs = rig.client.st();
        let ss = rig.server.st();
        let el = rig.t0.elapsed();
        if cs == St::Connected && connected_at[0].is_none() {
            connected_at[0] = Some(el.as_millis());
        }
        if ss == St::Connected && connected_at[1].is_none() {
            connected_at[1] = Some(el.as_millis());
        }
        let (healed, rounds_c, rounds_s, last_emit) = {
            let g = rig.shared.lock();
            (g.healed_at, g.rounds(Dir::C2S), g.rounds(Dir::S2C), g.last_emit)
        };
        if healed.is_some() {
            max_lag_post_heal = max_lag_post_heal.max(lag);
        }

        // ---- SAFETY: both Connected => same session, data readable both ways
        if cs == St::Connected && ss == St::Connected {
            let (a, b) = (rig.client.snap(), rig.server.snap());
            let (Some(a), Some(b)) = (a, b) else {
                verdict = Verdict::Inconclusive("state changed between two reads".into());
                break;
            };
            let d = a.diff(&b);
            if !d.is_empty() {
                verdict = Verdict::violated(
                    format!("safety:pair={pair},both_connected,differ={}", d.join("|")),
                    "both endpoints are Connected but do not share the same session",
                    json!({"client": a.to_json(), "server": b.to_json()}),
                );
                break;
            }
            // racing senders: both sides are Connected, so each racer sees Connected at its next look
            // and finishes; what it sent with Ok must come out at the peer before the marker
            let mut raced: [Vec<Vec<u8>>; 2] = [vec![], vec![]];
            let mut racers_pending = false;
            if rig.racers.iter().any(|r| r.is_some()) {
                let t = Instant::now();
                loop {
                    if rig.racers.iter().flatten().all(|r| r.done.load(Ordering::SeqCst)) {
                        break;
                    }
                    if t.elapsed() > Duration::from_secs(5) {
                        racers_pending = true;
                        break;
                    }
                    tokio::time::sleep(Duration::from_millis(1)).await;
                }
                for (i, r) in rig.racers.iter().enumerate() {
                    if let Some(r) = r {
                        let g = r.res.lock();
                        raced[i] = g.sent_ok.clone();
                        race_obs[i] = json!({"observed_connected_while_spinning": g.saw_connected_spinning, "sends_ok": g.sent_ok.len(),
                            "send_errors": g.send_errors, "ended_without_connected": g.ended_without_connected});
                        if !g.sent_ok.is_empty() {
                            race_live += 1;
                            if g.saw_connected_spinning {
                                race_spin_hits += 1;
                            }
                        }
                    }
                }
            }
            if racers_pending {
                verdict = Verdict::Inconclusive("racing sender thread did not finish within 5 s of both sides being Connected".into());
                break;
            }
            verdict = markers(&mut rig, &pair, &raced).await;
            break;
        }
        // ---- terminal failure of a side although the network is (or will be) fine.
        // Failed/Closed is terminal, so "reaches Connected" can never come true; the 30 s deadline
        // of rustrtc itself cannot be the cause before 25 s.
        if matches!(cs, St::Failed | St::Closed) || matches!(ss, St::Failed | St::Closed) {
            if el < Duration::from_secs(25) {
                let g = rig.shared.lock();
                let mut f: Vec<String> = g.fired.iter().map(|x| coarse_fault(x)).collect();
                f.sort();
                f.dedup();
                let fault = if f.is_empty() {
                    "none".to_string()
                } else if f.len() == 1 {
                    f[0].clone()
                } else if f.iter().any(|x| x.starts_with("refrag_dup")) {
                    "several_incl_refrag_dup".to_string()
                } else {
                    "several".to_string()
                };
                verdict = Verdict::violated(
                    format!("failed:pair={pair},client={},server={},fault={fault}", cs.name(), ss.name()),
                    "an endpoint gave up (Failed/Closed) long before the handshake deadline although only loss/dup/reorder/legal re-fragmentation happened",
                    json!({"client": cs.name(), "server": ss.name(), "t_ms": el.as_millis() as u64, "fired": g.fired, "ref_error": format!("{}{}", rig.client.fail_reason(), rig.server.fail_reason())}),
                );
            } else {
                verdict = Verdict::Inconclusive("a side Failed after 25 s (handshake deadline is the watchdog)".into());
            }
            break;
        }
        // ---- BOUNDED PROGRESS, retry witness (§2.3): after the heal the stuck side's flight was
        // delivered K more times (+1 further delivery as a time barrier: the peer had >= 1 s to react)
        if healed.is_some() {
            let stuck_c = cs != St::Connected && rounds_c >= STALL_K + 1;
            let stuck_s = ss != St::Connected && rounds_s >= STALL_K + 1;
            if stuck_c || stuck_s {
                // Attribution when the peer is the reference stack: rustrtc is blamed only if the
                // reference side did its part (its own flight reached rustrtc K+1 times after the
                // heal), or if the reference side is silent *because* every datagram rustrtc
                // retransmits re-uses record (epoch, sequence) numbers it already used - a receiver
                // with the anti-replay window of RFC 6347 4.1.2.6 has to discard those unseen.
                let (ref_rounds, rust_dir) = match pair.as_str() {
                    "rust_client_ref_server" => (Some(rounds_s), Dir::C2S),
                    "ref_client_rust_server" => (Some(rounds_c), Dir::S2C),
                    _ => (None, Dir::C2S),
                };
                let (replays, fresh) = {
                    let g = rig.shared.lock();
                    (g.post_heal_replays[rust_dir as usize], g.post_heal_fresh[rust_dir as usize])
                };
                let attributed: Option<&str> = match ref_rounds {
                    None => Some(""),
                    Some(r) if r >= STALL_K + 1 => Some(""),
                    Some(0) if fresh == 0 && replays >= STALL_K + 1 => Some(",cause=rustrtc_retransmission_reuses_record_seq"),
                    _ => None,
                };
                if let Some(suffix) = attributed {
                    if max_lag_post_heal > LAG_LIMIT_MS {
                        verdict = Verdict::Inconclusive(format!("stall seen but canary lagged {max_lag_post_heal} ms"));
                    } else {
                        let g = rig.shared.lock();
                        verdict = Verdict::violated(
                            if suffix.is_empty() {
                                format!(
                                    "stall:pair={pair},client={}/retx={},server={}/retx={}",
                                    cs.name(), g.retx_classes(Dir::C2S), ss.name(), g.retx_classes(Dir::S2C)
                                )
                            } else {
                                format!("stall:pair={pair},client={},server={}{suffix}", cs.name(), ss.name())
                            },
                            "network healed, the stuck side's last flight reached its peer 4 more times, and it still is not Connected",
                            json!({"client": cs.name(), "server": ss.name(), "rounds_after_heal": {"c2s": rounds_c, "s2c": rounds_s},
                                   "rustrtc_post_heal_retransmissions": {"reusing_record_seq": replays, "fresh_record_seq": fresh},
                                   "fired": g.fired, "healed_at_ms": healed.map(|h| h.duration_since(rig.t0).as_millis() as u64),
                                   "t_ms": el.as_millis() as u64, "max_canary_lag_ms": max_lag_post_heal as u64}),
                        );
                    }
                    break;
                } else if rounds_c.max(rounds_s) >= 2 * (STALL_K + 1) {
                    verdict = Verdict::Inconclusive(format!(
                        "pair={pair}: stall (client={} server={}) cannot be attributed to rustrtc: the reference peer retransmitted only {} times after the heal (webrtc-rs dtls 0.17 never re-sends its final flight once Connected: the premise 'the network eventually delivers retransmitted flights' is not met)",
                        cs.name(), ss.name(), ref_rounds.unwrap_or(0)
                    ));
                    break;
                }
            }
            // quiet witness: healed, a side still handshaking, nobody emitted anything for 10 retransmit intervals
            if let Some(le) = last_emit {
                if le.elapsed() > Duration::from_secs(10) && healed.map(|h| h.elapsed() > Duration::from_secs(10)).unwrap_or(false) {
                    if max_lag_post_heal > LAG_LIMIT_MS {
                        verdict = Verdict::Inconclusive("quiet but canary lagged".into());
                    } else {
                        verdict = Verdict::violated(
                            format!("quiet:pair={pair},client={},server={}", cs.name(), ss.name()),
                            "network healed, a side is still handshaking and neither side emitted anything for 10 s",
                            json!({"fired": rig.shared.lock().fired}),
                        );
                    }
                    break;
                }
            }
        }
        if el > watchdog {
            verdict = Verdict::Inconclusive(format!(
                "watchdog: client={} server={} healed={} rounds={}/{}",
                cs.name(), ss.name(), healed.is_some(), rounds_c, rounds_s
            ));
            break;
        }
    }
    let g = rig.shared.lock();
    let dur = rig.t0.elapsed().as_millis() as u64;
    let mut counts = vec![
        ("wire_datagrams".to_string(), (g.n_datagrams[0] + g.n_datagrams[1]) as u64),
        ("retransmissions_seen".to_string(), g.retx_total as u64),
        ("app_records_forwarded".to_string(), (g.delivered_app[0] + g.delivered_app[1]) as u64),
        ("refrag_not_applicable".to_string(), g.refrag_not_applicable as u64),
        ("retransmissions_delivered_refragmented_at_other_boundaries".to_string(), g.follow_applied as u64),
        (format!("pair:{pair}"), 1),
    ];
    if sc["ref_ems"].as_str() == Some("disable") {
        counts.push(("reference_peer_without_extended_master_secret".to_string(), 1));
    }
    let mut sets = vec![];
    for f in &g.fired {
        let act = f.split('@').next().unwrap_or("");
        counts.push((format!("fired:{}", act.split(|c: char| c.is_ascii_digit() || c == ':').next().unwrap_or(act)), 1));
        sets.push(("fault_rules_fired", format!("{pair}:{}", f)));
    }
    for c in &g.classes {
        sets.push(("wire_classes", format!("{pair}:{c}")));
    }
    match &verdict {
        Verdict::Held => counts.push(("both_connected_same_session".into(), 1)),
        Verdict::Violated { .. } => counts.push(("violated".into(), 1)),
        _ => {}
    }
    if racing {
        counts.push(("racing_sender_scenarios".into(), 1));
        counts.push(("racing_senders_sent_on_connected".into(), race_live));
        counts.push(("racing_senders_saw_connected_while_spinning".into(), race_spin_hits));
        counts.push(("app_datagrams_held_for_connected_receiver".into(), g.app_waited as u64));
        sets.push(("racing_sender_subscribers", format!("{}", sc["race"]["subs"].as_u64().unwrap_or(0))));
    }
    let obs = json!({"pair": pair, "fired": g.fired, "retx": g.retx_total, "dur_ms": dur,
        "racing_senders": if racing { json!({"client": race_obs[0], "server": race_obs[1]}) } else { Value::Null },
        "connected_at_ms": {"client": connected_at[0].map(|x| x as u64), "server": connected_at[1].map(|x| x as u64)},
        "healed_at_ms": g.healed_at.map(|h| h.duration_since(rig.t0).as_millis() as u64),
        "retransmissions_delivered_refragmented": g.follow_applied,
        "datagrams": {"c2s": g.n_datagrams[0], "s2c": g.n_datagrams[1]}, "log": g.log.iter().take(40).collect::<Vec<_>>()});
    let nontrivial = !g.fired.is_empty() || race_live > 0;
    drop(g);
    Outcome { verdict, nontrivial, obs, counts, sets }
}

/// marker payload each way; both sides are Connected on the same keys here.
/// `raced[i]` = payloads the racing sender of side i (0 client, 1 server) sent with `Ok` after it had
/// observed its own side Connected.  The receive path is FIFO (same socket, wire keeps the order of
/// application datagrams), so the marker - sent after the racer finished - is the barrier: a raced
/// payload that has not come out when the marker comes out never will.
async fn markers(rig: &mut Rig, pair: &str, raced: &[Vec<Vec<u8>>; 2]) -> Verdict {
    for dir in [Dir::C2S, Dir::S2C] {
        let payload = format!("C11-MARKER-{}-{:016x}", dir.name(), fnv64(pair.as_bytes()) ^ 0x5a5a).into_bytes();
        let before = rig.shared.lock().delivered_app[dir as usize];
        let expect_first = &raced[if dir == Dir::C2S { 0 } else { 1 }];
        let (tx_ep, rx_ep) = if dir == Dir::C2S { (&rig.client, &mut rig.server) } else { (&rig.server, &mut rig.client) };
        if let Err(e) = tx_ep.send_app(&payload).await {
            return Verdict::Inconclusive(format!("marker send {} failed: {e}", dir.name()));
        }
        let mut got: Vec<Vec<u8>> = vec![];
        // no wall-clock verdict: when nothing comes out for 4 s, fresh probes follow the marker on
        // the same FIFO path.  A probe that comes out before the marker proves the marker is lost
        // for good; silence through all probes counts only if the wire handed every datagram to the
        // peer and a 10 ms canary on this runtime never lagged (the pump was not starved).
        let mut probes: Vec<Vec<u8>> = vec![];
        let canary_max = Arc::new(std::sync::atomic::AtomicU64::new(0));
        let canary = {
            let m = canary_max.clone();
            tokio::spawn(async move {
                let mut last = Instant::now();
                loop {
                    tokio::time::sleep(Duration::from_millis(10)).await;
                    let lag = (last.elapsed().as_millis() as u64).saturating_sub(10);
                    m.fetch_max(lag, std::sync::atomic::Ordering::Relaxed);
                    last = Instant::now();
                }
            })
        };
        struct AbortGuard(tokio::task::JoinHandle<()>);
        impl Drop for AbortGuard {
            fn drop(&mut self) {
                self.0.abort();
            }
        }
        let _canary_guard = AbortGuard(canary);
        loop {
            match rx_ep.recv_app(Duration::from_secs(4)).await {
                Some(p) if p == payload => break,
                Some(p) if probes.contains(&p) => {
                    return Verdict::violated(
                        format!("appdata:pair={pair},dir={},delivered_not_readable", dir.name()),
                        "both sides Connected on equal keys; the application record reached the peer but was never yielded (a later probe on the same path was)",
                        json!({"sent": hex(&payload), "probe_yielded": String::from_utf8_lossy(&p).to_string()}),
                    );
                }
                Some(p) if expect_first.contains(&p) && !got.contains(&p) => got.push(p),
                Some(p) => {
                    return Verdict::violated(
                        format!("appdata:pair={pair},dir={},corrupted", dir.name()),
                        "a payload arrived altered (or twice) although both sides are Connected on equal keys",
                        json!({"sent_marker": hex(&payload), "sent_at_connected": expect_first.iter().map(|x| hex(x)).collect::<Vec<_>>(), "got": hex_cap(&p, 128)}),
                    );
                }
                None => {
                    if probes.len() < 4 {
                        let pr = format!("C11-PROBE-{}-{}-{:016x}", dir.name(), probes.len(), fnv64(pair.as_bytes()) ^ 0xa5a5).into_bytes();
                        if let Err(e) = tx_ep.send_app(&pr).await {
                            return Verdict::Inconclusive(format!("probe send {} failed: {e}", dir.name()));
                        }
                        probes.push(pr);
                        continue;
                    }
                    let forwarded = rig.shared.lock().delivered_app[dir as usize].saturating_sub(before);
                    let lag = canary_max.load(std::sync::atomic::Ordering::Relaxed);
                    if forwarded as usize >= 1 + probes.len() && (lag as u128) <= LAG_LIMIT_MS {
                        return Verdict::violated(
                            format!("appdata:pair={pair},dir={},delivered_not_readable", dir.name()),
                            "both sides Connected on equal keys; the marker and four later probes reached the peer, none was ever yielded, the runtime was never starved",
                            json!({"sent": hex(&payload), "datagrams_forwarded": forwarded, "probes": probes.len(), "canary_max_lag_ms": lag}),
                        );
                    }
                    return Verdict::Inconclusive(format!(
                        "marker {} never came out (forwarded by the wire: {forwarded}, canary lag {lag} ms)",
                        dir.name()
                    ));
                }
            }
        }
        let missing: Vec<&Vec<u8>> = expect_first.iter().filter(|p| !got.contains(p)).collect();
        if !missing.is_empty() {
            // what the wire saw of this direction's application records
            let recs = rig.shared.lock().app_recs[dir as usize].clone();
            let class = if recs.iter().any(|r| r.0 == 0) {
                "epoch0_application_record"
            } else if recs.iter().any(|r| r.2) {
                "record_epoch_seq_reused"
            } else {
                "records_wellformed"
            };
            return Verdict::violated(
                format!("appdata:pair={pair},dir={},sent_at_connected_not_readable,wire={class}", dir.name()),
                "send() returned Ok on a side whose state was Connected, the peer is Connected on the same keys and received every datagram, a later marker on the same path came out - but this payload never did",
                json!({"missing": missing.iter().map(|x| String::from_utf8_lossy(x).to_string()).collect::<Vec<_>>(),
                       "came_out_before_marker": got.iter().map(|x| String::from_utf8_lossy(x).to_string()).collect::<Vec<_>>(),
                       "application_records_on_the_wire(epoch,seq,reused)": recs.iter().map(|r| json!([r.0, r.1, r.2])).collect::<Vec<_>>()}),
            );
        }
    }
    Verdict::Held
}

// =====================================================================================
// C02 oracle
// =====================================================================================

/// what the client under test showed in one run against the on-path party
struct TkRun {
    end: St,
    ever: bool,
    states: Vec<&'static str>,
    ekm_ok: bool,
    data: Vec<Vec<u8>>,
    attacker: Value,
    flight_sent: bool,
    log: Vec<Value>,
}

async fn takeover_once(shape: &str, sig: &str, seed: u64, cutoff: Duration) -> Result<TkRun, String> {
    let gen_cert = || rdtls::generate_certificate().map_err(|e| format!("generate_certificate: {e}"));
    let (genuine, attacker_cert, own) = (gen_cert()?, gen_cert()?, gen_cert()?);
    let expectation = rdtls::fingerprint(&genuine);
    let tk = Takeover::new(shape, sig, seed, &attacker_cert, if sig == "genuine" { Some(&genuine) } else { None })?;
    let mut rig = build_rig(RigCfg {
        pair: "rr".into(),
        mode: Mode::Rules(vec![]),
        tamper: None,
        takeover: Some(tk),
        client_cert: Some(own),
        server_cert: Some(genuine),
        client_expect: Some(expectation),
        server_expect: None,
        force_renumber: false,
        race: None,
        ref_no_ems: false,
    })
    .await?;
    let mut end;
    loop {
        tokio::time::sleep(Duration::from_millis(10)).await;
        end = rig.client.st();
        if matches!(end, St::Connected | St::Failed | St::Closed) || rig.t0.elapsed() > cutoff {
            break;
        }
    }
    // the on-path party's application record follows its Finished by 120 ms
    tokio::time::sleep(Duration::from_millis(if end == St::Connected { 400 } else { 150 })).await;
    let Ep::Rust(e) = &mut rig.client else {
        return Err("not a rustrtc endpoint".into());
    };
    let st = e.st();
    if matches!(st, St::Connected | St::Failed | St::Closed) {
        end = st;
    }
    let mut data: Vec<Vec<u8>> = vec![];
    while let Ok(b) = e.rx.try_recv() {
        data.push(b.to_vec());
    }
    let ever = e.ever_connected.load(Ordering::SeqCst);
    let states = e.states_seen.lock().clone();
    let ekm_ok = e.dtls.export_keying_material(EKM_LABEL, EKM_LEN).is_ok();
    let g = rig.shared.lock();
    let attacker = g.takeover_obs.clone().unwrap_or(json!({}));
    Ok(TkRun {
        end,
        ever,
        states,
        ekm_ok,
        data,
        flight_sent: attacker["flight_sent"].as_bool().unwrap_or(false),
        attacker,
        log: g.log.iter().take(30).cloned().collect(),
    })
}

/// C02, client role, expectation = fingerprint of the genuine server, active on-path completion.
async fn run_c02_takeover(sc: Value) -> Outcome {
    let shape = sc["takeover"]["shape"].as_str().unwrap_or("ske2").to_string();
    let sig = sc["takeover"]["sig"].as_str().unwrap_or("garbage").to_string();
    let seed = sc["bit"].as_u64().unwrap_or(0);
    let cutoff = Duration::from_millis(sc["cutoff_ms"].as_u64().unwrap_or(4000));
    let tag = format!("role=client,expect=correct,on_path_completion={shape},ske_signature={sig}");
    let authentic = sig == "genuine";
    let mut counts: Vec<(String, u64)> = vec![("role:client".into(), 1)];
    let mut sets = vec![("expectations", "client:correct:on_path_completion".to_string())];

    // ---- non-vacuity: the same on-path code, holding the genuine server's private key, is a
    // legitimate terminating server and must get through (handshake + application record)
    if !authentic {
        let mut ok = false;
        let mut why = String::new();
        for attempt in 0..2u64 {
            match takeover_once("ske_replace", "genuine", seed ^ (0xC0 + attempt), cutoff).await {
                Ok(r) if r.ever && r.data.iter().any(|d| d == ONPATH_PAYLOAD) => {
                    ok = true;
                    break;
                }
                Ok(r) => why = format!("end={} attacker={}", r.end.name(), r.attacker),
                Err(e) => why = e,
            }
        }
        if !ok {
            return inconclusive(format!("{tag}: control (on-path code with the genuine key) did not connect: {why}"));
        }
        counts.push(("on_path_control_connected".into(), 1));
    }
    let r = match takeover_once(&shape, &sig, seed, cutoff).await {
        Ok(r) => r,
        Err(e) => return inconclusive(format!("rig: {e}")),
    };
    counts.push((format!("end_state:{}", r.end.name()), 1));
    sets.push(("on_path_completion_classes", format!("{shape}:{sig}:{}", if r.flight_sent { "flight_delivered" } else { "not_reached" })));
    let witness = json!({"states_seen": r.states, "end": r.end.name(), "ever_connected": r.ever, "ekm_exported": r.ekm_ok,
        "appdata_yielded": r.data.iter().map(|d| hex_cap(d, 48)).collect::<Vec<_>>(), "on_path_party": r.attacker, "wire": r.log});
    let verdict = if authentic {
        if r.ever {
            counts.push(("authentic_connected".into(), 1));
            Verdict::Held
        } else if shape == "ske_replace" {
            Verdict::Inconclusive(format!("{tag}: legitimate terminating server did not connect (end={})", r.end.name()))
        } else {
            // the peer proved possession, but the message sequence is unusual: the statement does not promise Connected
            counts.push((format!("observe_only:authentic_but_unusual_flight,shape={shape},connected=false"), 1));
            Verdict::Held
        }
    } else if r.ever || r.end == St::Connected {
        Verdict::violated(
            format!("{tag},accepted=connected"),
            "client reached Connected with an on-path party that relayed the promised certificate but never proved possession of its key",
            witness.clone(),
        )
    } else if r.ekm_ok {
        Verdict::violated(format!("{tag},ekm=exported"), "keying material exported without an authenticated peer", witness.clone())
    } else if !r.data.is_empty() {
        Verdict::violated(format!("{tag},appdata=accepted"), "application data accepted without an authenticated peer", witness.clone())
    } else {
        match r.end {
            St::Failed => {
                counts.push(("rejected:ended_failed".into(), 1));
                Verdict::Held
            }
            St::Closed => {
                counts.push(("rejected:ended_closed".into(), 1));
                Verdict::Held
            }
            _ => {
                counts.push(("rejected:still_handshaking_at_cutoff".into(), 1));
                if cutoff >= Duration::from_secs(31) {
                    Verdict::Inconclusive(format!("{tag}: neither Connected nor Failed after {} ms", cutoff.as_millis()))
                } else {
                    Verdict::Held
                }
            }
        }
    };
    let nontrivial = r.flight_sent;
    Outcome { verdict, nontrivial, obs: json!({"scenario": tag, "end": r.end.name(), "states": witness["states_seen"], "on_path_party": witness["on_path_party"]}), counts, sets }
}

async fn run_c02(sc: Value) -> Outcome {
    if sc["takeover"].is_object() {
        return run_c02_takeover(sc).await;
    }
    let role = sc["role"].as_str().unwrap_or("client").to_string();
    let expect = sc["expect"].as_str().unwrap_or("absent").to_string();
    let peer = sc["peer"].as_str().unwrap_or("genuine").to_string();
    let tamper = sc["tamper"].as_str().unwrap_or("none").to_string();
    let inject_v = sc["inject"].clone();
    let via = sc["via"].as_str().unwrap_or("direct").to_string();
    let bit = sc["bit"].as_u64().unwrap_or(0) as usize;
    let cutoff = Duration::from_millis(sc["cutoff_ms"].as_u64().unwrap_or(4000));
    let eut_is_client = role == "client";

    let gen_cert = || rdtls::generate_certificate().map_err(|e| format!("generate_certificate: {e}"));
    let (p, x, own) = match (gen_cert(), gen_cert(), gen_cert()) {
        (Ok(a), Ok(b), Ok(c)) => (a, b, c),
        _ => return inconclusive("certificate generation failed".into()),
    };
    // what the peer presents / signs with
    let peer_cert = if peer == "stolen_cert" {
        // certificate of X (the identity signalling promised) but the impostor only has its own key:
        // a complete, self-consistent handshake without proof of possession of X's key
        let mut c = Certificate::default();
        c.certificate = x.certificate.clone();
        c.private_key = p.private_key.clone();
        c
    } else if peer == "chain_own_then_other" {
        // chain [own leaf, promised certificate]: the promised certificate is present in the
        // message but is not the leaf whose key signs the key exchange
        let mut c = Certificate::default();
        c.certificate = vec![p.certificate[0].clone(), x.certificate[0].clone()];
        c.private_key = p.private_key.clone();
        c
    } else if peer == "chain_other_then_own" {
        let mut c = Certificate::default();
        c.certificate = vec![x.certificate[0].clone(), p.certificate[0].clone()];
        c.private_key = p.private_key.clone();
        c
    } else {
        p.clone()
    };
    let presented_fp = rdtls::fingerprint(&peer_cert);
    let mut rb = Rng::new(bit as u64 ^ 0xC02).bytes(32);
    rb[0] |= 1;
    let random_fp = rb.iter().map(|b| format!("{:02X}", b)).collect::<Vec<_>>().join(":");
    // the digest of the certificate the peer presents, computed by the harness
    let actual_digest: Vec<u8> = Sha256::digest(&peer_cert.certificate[0]).to_vec();
    let canon = |b: &[u8]| b.iter().map(|x| format!("{:02X}", x)).collect::<Vec<_>>().join(":");
    // textual expectation as signalling would carry it
    let text: Option<String> = match expect.as_str() {
        "correct" => Some(presented_fp.clone()),
        "random" => Some(random_fp),
        "other" => Some(rdtls::fingerprint(&x)),
        // boundary values around the correct digest: proper prefixes, extensions, other spellings
        "prefix31" => Some(canon(&actual_digest[..31])),
        "prefix16" => Some(canon(&actual_digest[..16])),
        "prefix8" => Some(canon(&actual_digest[..8])),
        "prefix1" => Some(canon(&actual_digest[..1])),
        "empty" => Some(String::new()),
        "extra1" => Some(format!("{}:{:02X}", canon(&actual_digest), rb[1])),
        "extra32" => Some(format!("{}:{}", canon(&actual_digest), canon(&actual_digest))),
        "lower" => Some(canon(&actual_digest).to_ascii_lowercase()),
        "nosep" => Some(canon(&actual_digest).replace(':', "")),
        "lower_nosep" => Some(canon(&actual_digest).replace(':', "").to_ascii_lowercase()),
        _ => None,
    };
    // via=sdp: the text goes through rustrtc's own SDP fingerprint parser first, exactly what
    // PeerConnection::set_remote_description hands to the DTLS transport
    let expectation: Option<String> = match (&text, via.as_str()) {
        (Some(t), "sdp") => match rustrtc::sdp::SdpFingerprint::parse(&format!("sha-256 {t}")) {
            Ok(f) => Some(f.value),
            Err(e) => {
                return Outcome {
                    verdict: Verdict::Held,
                    nontrivial: false,
                    obs: json!({"scenario": format!("role={role},expect={expect},via=sdp"), "sdp_layer": format!("rejected: {e:?}")}),
                    counts: vec![("expectation_not_signallable:rejected_by_sdp_layer".into(), 1)],
                    sets: vec![("expectations", format!("{role}:{expect}:via_sdp:rejected_by_sdp_layer"))],
                };
            }
        },
        (t, _) => t.clone(),
    };
    // LABEL BY CONSTRUCTION.  The expectation denotes a digest (hex, any case, ':' separators
    // optional); it is satisfied iff those bytes ARE the SHA-256 digest of the presented certificate.
    let expected_bytes: Option<Vec<u8>> = expectation.as_ref().and_then(|e| {
        let h: String = e.chars().filter(|c| *c != ':').collect();
        if h.is_empty() || h.len() % 2 != 0 || !h.chars().all(|c| c.is_ascii_hexdigit()) {
            return None;
        }
        Some(unhex(&h))
    });
    let digest_equal = expected_bytes.as_deref() == Some(&actual_digest[..]);
    if expect == "correct" && (!digest_equal || canon(&actual_digest) != presented_fp) {
        return inconclusive("harness: own SHA-256 of the presented certificate differs from rustrtc::fingerprint".into());
    }
    // rustrtc's canonical spelling (what its own SDP layer produces)
    let canonical = expectation.as_deref() == Some(presented_fp.as_str());
    // authentic: only the client role can be (the server role never sees a certificate)
    let authentic = eut_is_client && digest_equal && peer == "genuine" && tamper == "none";
    let sanity = expect == "absent" && peer == "genuine" && tamper == "none";

    let fin_dir = if eut_is_client { Dir::S2C } else { Dir::C2S };
    let t = Tamper {
        name: tamper.clone(),
        bit,
        other_der: x.certificate[0].clone(),
        fin_dir,
        inject: Inject::from_json(&inject_v, fin_dir, bit as u64),
        held_cert: None,
        applied: 0,
    };
    let (client_cert, server_cert, client_expect, server_expect) = if eut_is_client {
        (own, peer_cert, expectation.clone(), None)
    } else {
        (peer_cert, own, None, expectation.clone())
    };
    let mut rig = match build_rig(RigCfg {
        pair: "rr".into(),
        mode: Mode::Rules(vec![]),
        tamper: Some(t),
        takeover: None,
        client_cert: Some(client_cert),
        server_cert: Some(server_cert),
        client_expect,
        server_expect,
        force_renumber: false,
        race: None,
        ref_no_ems: false,
    })
    .await
    {
        Ok(r) => r,
        Err(e) => return inconclusive(format!("rig: {e}")),
    };

    // ---- observe the endpoint under test
    let mut end;
    loop {
        tokio::time::sleep(Duration::from_millis(10)).await;
        let eut = if eut_is_client { &rig.client } else { &rig.server };
        end = eut.st();
        if matches!(end, St::Connected | St::Failed | St::Closed) {
            break;
        }
        if rig.t0.elapsed() > cutoff {
            break;
        }
    }
    // let things settle a little (a late Connected / late data would show here)
    tokio::time::sleep(Duration::from_millis(150)).await;
    let (ever, states, ekm_ok, mut got_data) = {
        let Ep::Rust(e) = (if eut_is_client { &mut rig.client } else { &mut rig.server }) else {
            return inconclusive("not a rustrtc endpoint".into());
        };
        let st = e.st();
        if matches!(st, St::Connected | St::Failed | St::Closed) {
            end = st;
        }
        let mut data: Vec<Vec<u8>> = vec![];
        while let Ok(b) = e.rx.try_recv() {
            data.push(b.to_vec());
        }
        (
            e.ever_connected.load(Ordering::SeqCst),
            e.states_seen.lock().clone(),
            e.dtls.export_keying_material(EKM_LABEL, EKM_LEN).is_ok(),
            data,
        )
    };
    let (tamper_applied, inject_done, saw_creq, saw_ccert, dgrams, log) = {
        let g = rig.shared.lock();
        (g.tamper_applied, g.inject_done, g.saw_cert_request, g.saw_client_cert, g.n_datagrams, g.log.iter().take(30).cloned().collect::<Vec<_>>())
    };
    let injecting = inject_v.as_bool() == Some(true) || inject_v.is_object();
    let inject_desc = if injecting { Inject::describe(&inject_v) } else { String::new() };
    let mut tag = format!("role={role},expect={expect},peer={peer},tamper={tamper}");
    if via != "direct" {
        tag.push_str(&format!(",via={via}"));
    }
    if inject_v.is_object() {
        tag.push_str(&format!(",inject={inject_desc}@{}", inject_v["pos"].as_u64().unwrap_or(0)));
    }
    let witness = json!({"states_seen": states, "end": end.name(), "ever_connected": ever, "ekm_exported": ekm_ok,
        "appdata_yielded": got_data.iter().map(|d| hex_cap(d, 48)).collect::<Vec<_>>(), "tamper_applied": tamper_applied,
        "saw_certificate_request": saw_creq, "saw_client_certificate": saw_ccert, "wire": log,
        "expectation_given": expectation, "presented_certificate_sha256": canon(&actual_digest), "digest_equal": digest_equal,
        "injected_sequence": if injecting { json!(inject_desc) } else { Value::Null }, "injection_delivered": inject_done});
    let reached = dgrams[if eut_is_client { 1 } else { 0 }] > 0;
    let mut counts: Vec<(String, u64)> = vec![(format!("end_state:{}", end.name()), 1), (format!("role:{role}"), 1)];
    let mut sets = vec![("tamper_classes_applied", format!("{role}:{tamper}:{}", if tamper_applied > 0 || tamper == "none" { "applied" } else { "not_reached" }))];
    sets.push(("expectations", format!("{role}:{expect}:{peer}{}", if via != "direct" { format!(":via_{via}") } else { String::new() })));
    if injecting {
        sets.push(("injection_sequences", format!("{role}:{inject_desc}:{}", if inject_done { "delivered" } else { "not_reached" })));
        if inject_done {
            counts.push(("injection_sequences_delivered".into(), 1));
        }
    }

    let verdict = if authentic || sanity {
        // non-vacuity only: the statement says "only if", it does not promise Connected
        if ever {
            counts.push((if authentic { "authentic_connected" } else { "no_expectation_connected" }.into(), 1));
            if authentic && !canonical {
                counts.push((format!("observe_only:same_digest_other_spelling,expect={expect},connected=true"), 1));
            }
            Verdict::Held
        } else if authentic && !canonical {
            // the same digest in another spelling (case / separators) handed over verbatim: the
            // statement says "only if" - refusing it is allowed
            counts.push((format!("observe_only:same_digest_other_spelling,expect={expect},connected=false"), 1));
            Verdict::Held
        } else {
            Verdict::Inconclusive(format!("{tag}: untampered handshake did not connect (end={})", end.name()))
        }
    } else if expect == "absent" && tamper == "none" {
        // stolen certificate without any expectation: the statement is silent; observation only
        counts.push((format!("observe_only:no_expectation,peer={peer},connected={ever}"), 1));
        Verdict::Held
    } else if ever || end == St::Connected {
        // NOT authentic by construction, yet Connected
        if !eut_is_client && tamper == "none" && !saw_creq && !saw_ccert {
            Verdict::violated(
                "role=server,peer_certificate=never_requested",
                "server role was given an expected client fingerprint, never asked for / saw a client certificate, and reached Connected",
                witness.clone(),
            )
        } else {
            Verdict::violated(
                format!("{tag},accepted=connected"),
                "endpoint reached Connected although the peer did not present the promised certificate with proof of possession",
                witness.clone(),
            )
        }
    } else if ekm_ok {
        Verdict::violated(format!("{tag},ekm=exported"), "keying material exported without an authenticated peer", witness.clone())
    } else if !got_data.is_empty() {
        let injected = got_data.iter().any(|d| d.starts_with(INJECT_PAYLOAD));
        got_data.clear();
        if injected {
            Verdict::violated(
                if inject_v.is_object() {
                    format!("role={role},inject={inject_desc},appdata=epoch0_plaintext_accepted_before_authentication")
                } else {
                    format!("role={role},appdata=epoch0_plaintext_accepted_before_authentication")
                },
                "a plaintext epoch-0 ApplicationData record injected during a handshake that never authenticated was handed to the application",
                witness.clone(),
            )
        } else {
            Verdict::violated(format!("{tag},appdata=accepted"), "application data accepted without an authenticated peer", witness.clone())
        }
    } else {
        // never Connected, nothing accepted, nothing exported.  "ends in Failed": a handshake that
        // is still Handshaking at the cut-off will be failed by rustrtc's 30 s deadline; quick does
        // not wait for it (counted), thorough does (cut-off 34 s) and reports it as inconclusive.
        match end {
            St::Failed => {
                counts.push(("rejected:ended_failed".into(), 1));
                Verdict::Held
            }
            St::Closed => {
                counts.push(("rejected:ended_closed".into(), 1));
                Verdict::Held
            }
            _ => {
                counts.push(("rejected:still_handshaking_at_cutoff".into(), 1));
                if cutoff >= Duration::from_secs(31) && expect != "absent" {
                    Verdict::Inconclusive(format!("{tag}: neither Connected nor Failed after {} ms", cutoff.as_millis()))
                } else {
                    Verdict::Held
                }
            }
        }
    };
    let nontrivial = reached && (tamper == "none" || tamper_applied > 0) && (!injecting || inject_done);
    Outcome { verdict, nontrivial, obs: json!({"scenario": tag, "end": end.name(), "states": witness["states_seen"], "tamper_applied": tamper_applied, "injection_delivered": inject_done}), counts, sets }
}

// =====================================================================================
// scenario enumeration
// =====================================================================================

const CLIENT_TAMPERS: &[&str] = &[
    "none", "sh_random_flip", "ch_random_flip", "cert_bitflip", "cert_omit", "ske_omit", "cert_ske_omit",
    "cert_after_ske", "cert_empty", "cert_replace_other", "cert_prepend_other", "cert_append_other",
    "ske_pubkey_flip", "ske_pubkey_replace", "ske_sig_flip", "ske_curve_flip", "ske_curvetype_flip",
    "ske_sigalg_flip", "cke_replace", "cke_flip", "fin_flip", "fin_omit",
];
const SERVER_TAMPERS: &[&str] = &[
    "none", "ch_random_flip", "sh_random_flip", "cke_replace", "cke_flip", "ske_pubkey_flip", "fin_flip", "fin_omit",
];

fn c02_scenarios(tier: Tier, rng: &mut Rng) -> Vec<Value> {
    let mut v = vec![];
    let reps = tier.pick(1, 3);
    let cutoff = tier.pick(4000u64, 34_000u64);
    for rep in 0..reps {
        for (role, tampers) in [("client", CLIENT_TAMPERS), ("server", SERVER_TAMPERS)] {
            for expect in ["correct", "absent", "random", "other"] {
                for t in tampers {
                    if rep > 0 && (*t == "none" || t.ends_with("omit") || *t == "cert_after_ske") && expect != "correct" {
                        continue; // deterministic scenarios need no repetition
                    }
                    v.push(json!({"prop":"C02","role":role,"expect":expect,"peer":"genuine","tamper":t,
                                  "bit": rng.below(4096), "inject": false, "cutoff_ms": cutoff}));
                }
            }
        }
        // impostor that presents the promised certificate but signs with its own key
        for expect in ["correct", "absent"] {
            v.push(json!({"prop":"C02","role":"client","expect":expect,"peer":"stolen_cert","tamper":"none",
                          "bit": rng.below(4096), "inject": false, "cutoff_ms": cutoff}));
        }
        // impostors that put the promised certificate somewhere into their chain
        for peer in ["chain_own_then_other", "chain_other_then_own"] {
            v.push(json!({"prop":"C02","role":"client","expect":"other","peer":peer,"tamper":"none",
                          "bit": rng.below(4096), "inject": false, "cutoff_ms": cutoff}));
        }
        // plaintext application data pushed at a handshake that never authenticates
        v.push(json!({"prop":"C02","role":"client","expect":"random","peer":"genuine","tamper":"none",
                      "bit": rng.below(4096), "inject": true, "cutoff_ms": cutoff.min(6000)}));
        v.push(json!({"prop":"C02","role":"server","expect":"random","peer":"genuine","tamper":"fin_omit",
                      "bit": rng.below(4096), "inject": true, "cutoff_ms": cutoff.min(6000)}));
        // boundary values of the expectation itself: proper prefixes of the correct digest, the correct
        // digest followed by extra bytes (never the digest of the presented certificate => not
        // authentic), and other spellings of the very same digest (authentic).  Handed over verbatim
        // and through rustrtc's own SDP fingerprint parser (what PeerConnection does).
        for expect in ["prefix31", "prefix16", "prefix8", "prefix1", "empty", "extra1", "extra32", "lower", "nosep", "lower_nosep"] {
            for via in ["direct", "sdp"] {
                v.push(json!({"prop":"C02","role":"client","expect":expect,"via":via,"peer":"genuine","tamper":"none",
                              "bit": rng.below(4096), "inject": false, "cutoff_ms": cutoff}));
            }
        }
        // injection SEQUENCES of a party without keys at a handshake that never authenticates:
        // pairs / triples over INJECT_ALPHABET containing at least one plaintext epoch-0
        // ApplicationData record, separate datagrams and coalesced, at every datagram position of the
        // handshake, both roles.  (client: expectation not met, fails at the Certificate = datagram 1;
        // server: the client's Finished never arrives.)
        let mut seqs: Vec<Vec<&str>> = vec![];
        for a in INJECT_ALPHABET {
            for b in INJECT_ALPHABET {
                if *a == "p23" || *b == "p23" {
                    seqs.push(vec![a, b]);
                }
            }
        }
        let mut triples: Vec<Vec<&str>> = vec![];
        for a in INJECT_ALPHABET {
            for b in INJECT_ALPHABET {
                for c in INJECT_ALPHABET {
                    if [*a, *b, *c].contains(&"p23") {
                        triples.push(vec![a, b, c]);
                    }
                }
            }
        }
        let places: Vec<(&str, &str, u64, u64)> = vec![
            ("client", "none", 0, 1500), ("client", "none", 1, 1500), ("client", "none", 2, 1500),
            ("server", "fin_omit", 0, 900), ("server", "fin_omit", 1, 900), ("server", "fin_omit", 2, 900), ("server", "fin_omit", 3, 900),
        ];
        let inj = |v: &mut Vec<Value>, rng: &mut Rng, seq: &Vec<&str>, coalesced: bool, place: &(&str, &str, u64, u64)| {
            v.push(json!({"prop":"C02","role":place.0,"expect":"random","peer":"genuine","tamper":place.1,
                          "bit": rng.below(4096), "inject": {"seq": seq, "pos": place.2, "coalesced": coalesced}, "cutoff_ms": place.3}));
        };
        if tier == Tier::Thorough {
            for seq in seqs.iter().chain(triples.iter()) {
                for coalesced in [false, true] {
                    for place in &places {
                        inj(&mut v, rng, seq, coalesced, place);
                    }
                }
            }
        } else {
            for seq in &seqs {
                for coalesced in [false, true] {
                    for place in &places {
                        inj(&mut v, rng, seq, coalesced, place);
                    }
                }
            }
            for _ in 0..42 {
                let seq = rng.pick(&triples).clone();
                let place = *rng.pick(&places);
                let coalesced = rng.chance(1, 3);
                inj(&mut v, rng, &seq, coalesced, &place);
            }
        }
        // active on-path completion: the genuine flight is relayed up to an insertion point, then the
        // on-path party supplies its own key-exchange material and finishes the handshake itself
        for shape in TAKEOVER_SHAPES {
            let sigs: &[&str] = match *shape {
                "ske2" | "ske_replace" => &["garbage", "unrelated", "copy", "genuine"],
                "cert2_ske2" => &["attacker_cert", "unrelated", "genuine"],
                "cert2_after_ske" => &["attacker_cert", "genuine"],
                _ => &["attacker_cert", "unrelated", "genuine"],
            };
            for sig in sigs {
                v.push(json!({"prop":"C02","role":"client","expect":"correct","takeover":{"shape":shape,"sig":sig},
                              "bit": rng.below(1 << 32), "cutoff_ms": cutoff.min(6000)}));
            }
        }
    }
    v
}

fn refrag_variants() -> Vec<Act> {
    let mut v = vec![];
    for k in 2..=4usize {
        v.push(Act::Refrag(k, Order::InOrder));
        v.push(Act::Refrag(k, Order::Reversed));
        for j in 0..k {
            v.push(Act::Refrag(k, Order::DupFrag(j)));
        }
    }
    v
}

fn c11_scenarios(tier: Tier, rng: &mut Rng, pair: &str, disc: &[(Dir, String, u32)]) -> Vec<Value> {
    let mut v = vec![json!({"prop":"C11","pair":pair,"plan":[]})];
    let basic = [Act::Drop, Act::Dup, Act::Swap, Act::Delay(1200)];
    let mut singles: Vec<Value> = vec![];
    for (dir, class, occ) in disc {
        for a in basic.iter() {
            singles.push(rule_json(*dir, class, *occ, a));
        }
        let plaintext_hs = !class.contains("Finished") && !class.contains("CCS") && !class.contains("App");
        if plaintext_hs {
            for a in refrag_variants() {
                singles.push(rule_json(*dir, class, *occ, &a));
            }
        }
    }
    for s in &singles {
        v.push(json!({"prop":"C11","pair":pair,"plan":[s]}));
    }
    // the same datagram lost twice in a row (original and first retransmission)
    for (dir, class, occ) in disc {
        v.push(json!({"prop":"C11","pair":pair,"plan":[rule_json(*dir, class, *occ, &Act::Drop), rule_json(*dir, class, *occ + 1, &Act::Drop)]}));
    }
    // partial reassembly, then the retransmission arrives re-fragmented at other boundaries:
    // (k, lost fragments, k2) for every plaintext handshake message of every datagram class.
    // quick: lose tail / lose middle, each with the new first boundary before and behind the stale prefix
    let partial_variants: Vec<(usize, Vec<usize>, usize)> = if tier == Tier::Thorough {
        let mut pv = vec![];
        for k in 2..=4usize {
            // every non-empty set of lost fragments (fragment 0 kept: a stale prefix exists) + "only fragment 0 lost"
            for mask in 1u32..(1 << k) {
                let lose: Vec<usize> = (0..k).filter(|i| mask & (1 << i) != 0).collect();
                if lose.contains(&0) && lose.len() != 1 {
                    continue;
                }
                for k2 in 2..=4usize {
                    if k2 != k {
                        pv.push((k, lose.clone(), k2));
                    }
                }
            }
        }
        pv
    } else {
        vec![(2, vec![1], 3), (3, vec![1, 2], 2), (3, vec![1], 2), (3, vec![1], 4)]
    };
    for (dir, class, occ) in disc {
        // The reassembly under test is rustrtc's: the fragments must travel TOWARDS a rustrtc
        // endpoint.  (The reference stack cannot be the receiver here: webrtc-rs dtls 0.17
        // `fragment_buffer::append_message` gives up at the first stored fragment with a matching
        // offset, so a stale first fragment wedges it when the retransmission uses other boundaries -
        // a limitation of the reference, which would be mis-read as a rustrtc stall.)
        let receiver_is_rust = match pair {
            "rust_client_ref_server" => *dir == Dir::S2C,
            "ref_client_rust_server" => *dir == Dir::C2S,
            _ => true,
        };
        if !receiver_is_rust {
            continue;
        }
        let mut idx = 0usize;
        for name in class.split('+') {
            if matches!(name, "CCS" | "Finished" | "App" | "Alert" | "Other" | "HsUnparsable" | "Unparsable") {
                continue;
            }
            let i = idx;
            idx += 1;
            if matches!(name, "ServerHelloDone" | "HelloRequest") {
                continue; // empty body: nothing to split
            }
            for (k, lose, k2) in &partial_variants {
                let a = Act::PartialRefrag { msg: i, k: *k, lose: lose.clone(), k2: *k2 };
                v.push(json!({"prop":"C11","pair":pair,"plan":[rule_json(*dir, class, *occ, &a)]}));
            }
        }
    }
    if tier == Tier::Thorough {
        // all pairs of basic single faults on different datagrams + sampled pairs involving re-fragmentation
        let b: Vec<&Value> = singles.iter().filter(|s| s["act"] != "refrag").collect();
        for i in 0..b.len() {
            for j in i + 1..b.len() {
                if b[i]["dir"] == b[j]["dir"] && b[i]["class"] == b[j]["class"] {
                    continue;
                }
                v.push(json!({"prop":"C11","pair":pair,"plan":[b[i], b[j]]}));
            }
        }
        let r: Vec<&Value> = singles.iter().filter(|s| s["act"] == "refrag").collect();
        for _ in 0..300 {
            if r.is_empty() || b.is_empty() {
                break;
            }
            let x = *rng.pick(&r);
            let y = if rng.bool() { *rng.pick(&b) } else { *rng.pick(&r) };
            if x["dir"] == y["dir"] && x["class"] == y["class"] {
                continue;
            }
            v.push(json!({"prop":"C11","pair":pair,"plan":[x, y]}));
        }
    }
    let n_random = tier.pick(40, 500);
    for _ in 0..n_random {
        v.push(json!({"prop":"C11","pair":pair,"random":{
            "seed": rng.next_u64() >> 16, "loss": rng.range(1, 30), "dup": rng.range(0, 10), "swap": rng.range(0, 15),
            "delay": rng.range(0, 10), "refrag": rng.range(0, 15), "heal_after": rng.range(4, 30)}}));
    }
    if pair == "rr" {
        // racing senders (an OS thread per side that calls send() the instant get_state() shows
        // Connected) + ordinary state subscribers in a sample of the fault scenarios
        let every = tier.pick(4, 2);
        for (i, sc) in v.iter_mut().enumerate() {
            if i % every == 1 {
                sc["race"] = json!({"subs": *rng.pick(&[0u64, 4, 8, 16, 32])});
            }
        }
    }
    v
}

/// dedicated racing-sender family: unfaulted rustrtc<->rustrtc handshakes, a racing sender and k
/// ordinary state subscribers per side, repeated (the interesting interleavings are narrow)
fn c11_race_family(tier: Tier) -> Vec<Value> {
    let rounds = tier.pick(160u64, 2000u64);
    (0..rounds)
        .map(|i| {
            let subs = [8u64, 16, 32, 4, 0][(i % 5) as usize];
            json!({"prop":"C11","pair":"rr","plan":[],"race":{"subs": subs},"round": i})
        })
        .collect()
}

/// clean handshake: which datagram classes exist per direction (drives the enumeration)
async fn discover(pair: &str) -> Result<Vec<(Dir, String, u32)>, String> {
    let rig = build_rig(RigCfg {
        pair: pair.to_string(),
        mode: Mode::Rules(vec![]),
        tamper: None,
        takeover: None,
        client_cert: None,
        server_cert: None,
        client_expect: None,
        server_expect: None,
        force_renumber: false,
        race: None,
        ref_no_ems: false,
    })
    .await?;
    let t0 = Instant::now();
    loop {
        tokio::time::sleep(Duration::from_millis(10)).await;
        if rig.client.st() == St::Connected && rig.server.st() == St::Connected {
            break;
        }
        if matches!(rig.client.st(), St::Failed) || matches!(rig.server.st(), St::Failed) {
            return Err(format!("clean {pair} handshake failed: {}{}", rig.client.fail_reason(), rig.server.fail_reason()));
        }
        if t0.elapsed() > Duration::from_secs(8) {
            return Err(format!("clean {pair} handshake did not finish in 8 s (client={} server={})", rig.client.st().name(), rig.server.st().name()));
        }
    }
    tokio::time::sleep(Duration::from_millis(50)).await;
    let g = rig.shared.lock();
    // only first occurrences: in a clean run nothing is retransmitted (if something was, it shows as occ>0 and is skipped)
    Ok(g.discovery.iter().filter(|d| d.2 == 0).cloned().collect())
}

// =====================================================================================
// driver
// =====================================================================================

async fn run_one(prop: &str, sc: Value) -> Outcome {
    if prop == "C02" { run_c02(sc).await } else { run_c11(sc).await }
}

async fn run_batch(prop: &'static str, scs: Vec<Value>, conc: usize) -> Vec<(Value, Outcome)> {
    let sem = Arc::new(tokio::sync::Semaphore::new(conc));
    let mut hs = vec![];
    for sc in scs {
        let sem = sem.clone();
        hs.push(tokio::spawn(async move {
            let _p = sem.acquire_owned().await;
            let o = run_one(prop, sc.clone()).await;
            (sc, o)
        }));
    }
    let mut out = vec![];
    for h in hs {
        match h.await {
            Ok(x) => out.push(x),
            Err(e) => out.push((json!({"harness":"task join"}), inconclusive(format!("rig task died: {e}")))),
        }
    }
    out
}

fn record(report: &mut Report, sc: &Value, o: Outcome) {
    for (k, n) in &o.counts {
        report.count(k, *n);
    }
    for (s, i) in &o.sets {
        report.seen(s, i.clone());
    }
    if let Verdict::Violated { key, .. } = &o.verdict {
        let cause = if sc["plan"].is_array() { o.obs["fired"].to_string() } else if sc["random"].is_object() { "random-history".to_string() } else { o.obs["scenario"].to_string() };
        report.seen("violating_histories", format!("{key} <= {cause}"));
    }
    let interesting = o.verdict.is_violated() || report.samples.len() < 3;
    if interesting {
        report.sample(json!({"scenario": sc, "observed": o.obs}));
    }
    let h = if o.nontrivial { Some(hash_value(sc)) } else { None };
    report.record(sc, h, o.verdict);
}

pub fn run(args: &Args) -> i32 {
    let prop: &'static str = if args.prop == "C02" { "C02" } else { "C11" };
    let rule = if prop == "C02" {
        "the endpoint under test received the peer's flight and the scenario's tampering (if any) was really applied by the wire"
    } else {
        "at least one fault rule of the plan fired on the wire (drop/dup/swap/delay/re-fragmentation of a handshake datagram), or a racing sender's send() returned Ok on a side it had just observed Connected"
    };
    let mut report = Report::new(args, "fault_enumeration", rule);
    report.max_samples = 8;
    report.assume("the wire is the only network: loopback UDP from the endpoints to the wire socket is lossless and FIFO");
    report.assume("rustrtc's 1 s retransmit timer and 30 s deadline are real time; stalls are decided by delivered-retransmission counts, never by elapsed time alone");
    let rt = build_runtime(16);
    let mut rng = Rng::new(args.seed).fork(if prop == "C02" { 2 } else { 11 });

    // ---- replay
    if let Some(p) = &args.replay {
        let Some(sc) = load_replay(p) else {
            eprintln!("cannot load replay {}", p.display());
            return 2;
        };
        let mut last = None;
        for _ in 0..5 {
            let o = rt.block_on(run_one(prop, sc.clone()));
            let v = o.verdict.is_violated();
            last = Some(o);
            if v {
                break;
            }
        }
        let mut decided = false;
        if let Some(o) = last {
            decided = !matches!(o.verdict, Verdict::Inconclusive(_));
            record(&mut report, &sc, o);
        }
        // a single replayed scenario cannot meet the "two distinct non-trivial scenarios" floor of
        // Report::finish; the exit code of a replay is: 1 reproduced, 0 held, 2 no verdict
        let code = report.finish(1, 0);
        return if code == 1 { 1 } else if decided { 0 } else { 2 };
    }

    let mut scenarios: Vec<Value> = vec![];
    if prop == "C02" {
        scenarios = c02_scenarios(args.tier, &mut rng);
    } else {
        let pairs: Vec<&str> = match args.opt("--pair") {
            Some(p) if p == "rr" => vec!["rr"],
            Some(p) if p == "ref" => vec!["rust_client_ref_server", "ref_client_rust_server"],
            _ => vec!["rr", "rust_client_ref_server", "ref_client_rust_server"],
        };
        for pair in pairs {
            let mut disc = Err("not run".to_string());
            for _ in 0..3 {
                disc = rt.block_on(discover(pair));
                if disc.is_ok() {
                    break;
                }
            }
            match disc {
                Ok(d) => {
                    report.note(format!(
                        "pair {pair}: clean handshake datagrams = {}",
                        d.iter().map(|(dir, c, _)| format!("{}:{}", dir.name(), c)).collect::<Vec<_>>().join(", ")
                    ));
                    let base = c11_scenarios(args.tier, &mut rng, pair, &d);
                    if pair != "rr" {
                        // the same reference peer without extended_master_secret: unfaulted, every
                        // single drop / duplicate, and a sample of the rest
                        let mut k = 0usize;
                        for sc in base.iter() {
                            let plan = sc["plan"].as_array().cloned().unwrap_or_default();
                            let simple = plan.is_empty()
                                || (plan.len() == 1 && matches!(plan[0]["act"].as_str(), Some("drop") | Some("dup")));
                            k += 1;
                            if sc["random"].is_null() && (simple || k % args.tier.pick(23, 5) == 0) {
                                let mut s2 = sc.clone();
                                s2["ref_ems"] = json!("disable");
                                scenarios.push(s2);
                            }
                        }
                    }
                    scenarios.extend(base);
                }
                Err(e) => {
                    report.note(format!("pair {pair}: discovery failed, pair skipped: {e}"));
                    report.count(&format!("pair_skipped:{pair}"), 1);
                }
            }
        }
    }
    if let Some(n) = args.opt("--limit").and_then(|s| s.parse::<usize>().ok()) {
        scenarios.truncate(n);
    }
    // C11 racing-sender family: its own phase at low concurrency, so that the racing threads really
    // run in parallel with the handshake tasks instead of queueing behind hundreds of other rigs
    let mut race_results: Vec<(Value, Outcome)> = vec![];
    if prop == "C11" && !args.has_flag("--no-race-family") && args.opt("--pair").map(|p| p != "ref").unwrap_or(true) {
        let fam = c11_race_family(args.tier);
        report.note(format!("{} racing-sender rounds (unfaulted rr handshake, send() at the instant of Connected on both sides)", fam.len()));
        race_results = rt.block_on(run_batch(prop, fam, 6));
    }
    let total = scenarios.len() + race_results.len();
    let conc = args.opt("--conc").and_then(|s| s.parse().ok()).unwrap_or(160);
    let mut results = rt.block_on(run_batch(prop, scenarios, conc));
    results.extend(race_results);
    // inconclusive scenarios (scheduler lag, watchdog) get two more attempts at low concurrency
    for _attempt in 0..2 {
        let redo: Vec<Value> = results
            .iter()
            .filter(|(_, o)| matches!(o.verdict, Verdict::Inconclusive(_)))
            .map(|(s, _)| s.clone())
            .collect();
        if redo.is_empty() {
            break;
        }
        report.count("inconclusive_retried", redo.len() as u64);
        results.retain(|(_, o)| !matches!(o.verdict, Verdict::Inconclusive(_)));
        results.extend(rt.block_on(run_batch(prop, redo, 24)));
    }
    for (sc, o) in results {
        record(&mut report, &sc, o);
    }
    let panics = take_panics();
    if !panics.is_empty() {
        report.count("panics_recorded", panics.len() as u64);
        for p in panics.iter().take(5) {
            report.note(format!("panic: {} at {}", p.message, norm_location(&p.location)));
        }
    }
    report.note(format!("{total} scenarios enumerated"));
    let min = (total as u64 * 8) / 10;
    report.finish(min.max(1), (total as u64 / 3).max(2))
}
