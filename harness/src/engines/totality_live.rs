//! C07 stage 2 – live endpoints. Hostile datagram / string sequences are fed to live rustrtc
//! objects in several states. Per campaign the monitors check
//!  (i)  no panic recorded in any thread or task of the campaign (global hook; the campaign's
//!       private tokio runtime names its threads, the rustrtc source line is taken from the
//!       backtrace) – a panic is a violation whatever the state;
//!  (ii) liveness: after every batch a *state-independent genuine stimulus* still gets its normal
//!       reaction (DTLS: application-data marker delivered both ways; SCTP: HEARTBEAT →
//!       HEARTBEAT-ACK; ICE: Binding request → success response; RTP: valid packet reaches the
//!       listener). A missing reaction is a violation ("unresponsive") only if the endpoint did
//!       not report a clean end (Failed / Closed / close_reason), the stimulus was repeated
//!       K = 5 times, and a canary task shows that the scheduler was not starved. The statement
//!       forbids hangs, not protocol-level refusal, so a clean failure is accepted;
//!  (iii) live-heap growth of the campaign's threads (tagged allocator) ≤ 8 MiB + 64·Σlen;
//!  (iv) largest single allocation: while the campaign feeds inputs of at most L bytes each, no
//!       block larger than 256 KiB + 64·L + 2·H is requested from the allocator *by rustrtc
//!       code* on the campaign's threads, H being the campaign's live-heap growth at that
//!       moment (a container that holds accumulated, history-proportional state – a per-SSRC
//!       table, a queue – may double; H itself is bounded by (iii)). The allocator records
//!       every such block with a backtrace; a block without a rustrtc frame on its stack is
//!       the harness's own and is only counted.
//!       A growth bound over a whole campaign hides a single reservation driven by a wire
//!       length field (16 MiB for a 26-byte datagram stays below 8 MiB + 64·Σlen after a few
//!       thousand inputs); the largest block seen per target is written to the evidence.
//! Watchdog expiry, socket errors, a handshake that could not be set up: inconclusive.

use super::totality::{LIVE_MODE, LIVE_PANICS, PanicSite};
use super::totality_mut as mutators;
use super::totality_pure as pure;
use crate::alloc_count;
use crate::common::*;
use bytes::Bytes;
use rustrtc::transports::PacketReceiver;
use rustrtc::transports::datachannel::{DataChannel, DataChannelConfig, DataChannelEvent};
use rustrtc::transports::dtls::{self, DtlsState, DtlsTransport};
use rustrtc::transports::ice::IceSocketWrapper;
use rustrtc::transports::ice::conn::IceConn;
use rustrtc::transports::sctp::SctpTransport;
use serde_json::{Value, json};
use std::collections::BTreeMap;
use std::future::Future;
use std::net::SocketAddr;
use std::pin::Pin;
use std::sync::atomic::{AtomicU64, Ordering};
use std::sync::{Arc, Weak};
use std::time::{Duration, Instant};
use tokio::net::UdpSocket;
use tokio::sync::{mpsc, watch};

pub const LIVE_HEAP_SLACK: i64 = 8 << 20;
pub const LIVE_HEAP_FACTOR: i64 = 64;
pub const SINGLE_ALLOC_SLACK: usize = 256 << 10;
pub const SINGLE_ALLOC_FACTOR: usize = 64;

// ------------------------------------------------------------------ campaign plumbing

pub struct Out {
    pub scenario: Value,
    pub nontrivial: bool,
    pub verdict: Verdict,
    pub more_violations: Vec<(String, String, Value)>,
    pub counters: BTreeMap<String, u64>,
    pub seen: Vec<(String, String)>,
}

pub struct Camp {
    pub id: usize,
    pub tier: Tier,
    pub rng: Rng,
    pub scenario: Value,
    pub counters: BTreeMap<String, u64>,
    pub seen: Vec<(String, String)>,
    pub fed_bytes: u64,
    pub fed_inputs: u64,
    /// longest single input fed so far (L of the single-allocation bound)
    pub max_input_len: usize,
    pub recent: Vec<Vec<u8>>,
    pub heap_base: i64,
    pub canary: Arc<AtomicU64>,
    pub heap_violation: Option<(String, String, Value)>,
}

/// What a campaign body reports back.
pub enum End {
    /// all probes answered
    Live,
    /// the endpoint ended cleanly (state named) – accepted, not a hang
    CleanEnd(String),
    /// stimulus unanswered although the endpoint claims to be alive
    Unresponsive(String),
    Inconclusive(String),
}

impl Camp {
    pub fn count(&mut self, k: &str, n: u64) {
        *self.counters.entry(k.to_string()).or_insert(0) += n;
    }
    pub fn seen(&mut self, set: &str, item: impl Into<String>) {
        self.seen.push((set.to_string(), item.into()));
    }
    pub fn fed(&mut self, input: &[u8]) {
        self.fed_bytes += input.len() as u64;
        self.fed_inputs += 1;
        if input.len() > self.max_input_len {
            self.max_input_len = input.len();
            alloc_count::set_tag_big_threshold(self.id, single_alloc_bound(self.max_input_len));
        }
        if self.recent.len() >= 40 {
            self.recent.remove(0);
        }
        self.recent.push(input.to_vec());
    }
    /// Bulk accounting for flood campaigns (thousands of small packets): same as `fed` but only
    /// every `keep`-th input is kept among the recent ones.
    pub fn fed_quiet(&mut self, input: &[u8], keep: bool) {
        if keep {
            self.fed(input);
        } else {
            self.fed_bytes += input.len() as u64;
            self.fed_inputs += 1;
            if input.len() > self.max_input_len {
                self.max_input_len = input.len();
                alloc_count::set_tag_big_threshold(self.id, single_alloc_bound(self.max_input_len));
            }
        }
    }
    /// What the campaign holds now (set-up, reference exchanges) is not hostile input: heap growth
    /// (iii) and the live heap of the single-allocation bound (iv) are counted from here.
    pub fn rebaseline(&mut self) {
        self.heap_base = alloc_count::tag_net_bytes(self.id);
        alloc_count::set_tag_heap_base(self.id, self.heap_base);
    }
    pub fn thread_prefix(&self) -> String {
        format!("c07L{}-", self.id)
    }
    pub fn panics(&self) -> Vec<PanicSite> {
        let p = self.thread_prefix();
        LIVE_PANICS
            .lock()
            .iter()
            .filter(|(t, _)| t.starts_with(&p))
            .map(|(_, s)| s.clone())
            .collect()
    }
    /// true if the scheduler of this campaign was alive during the last `d`
    pub async fn canary_ok(&self, d: Duration) -> bool {
        let a = self.canary.load(Ordering::Relaxed);
        tokio::time::sleep(d).await;
        self.canary.load(Ordering::Relaxed) > a
    }
}

/// Calibration knob (`--single-alloc-slack-kib N`): lowers the slack so that a run lists the
/// largest legitimate blocks of every target with their call sites. Never set by `./check`.
static SINGLE_ALLOC_SLACK_OVERRIDE: std::sync::atomic::AtomicUsize = std::sync::atomic::AtomicUsize::new(0);

pub fn single_alloc_bound(max_input_len: usize) -> usize {
    let o = SINGLE_ALLOC_SLACK_OVERRIDE.load(Ordering::Relaxed);
    let slack = if o != 0 { o } else { SINGLE_ALLOC_SLACK };
    slack + SINGLE_ALLOC_FACTOR * max_input_len
}

pub type Body = fn(Camp) -> Pin<Box<dyn Future<Output = (Camp, End)> + Send>>;

pub struct Spec {
    pub target: &'static str,
    pub scenario: Value,
    pub body: Body,
}

fn run_one_campaign(id: usize, tier: Tier, seed: u64, spec: &Spec) -> Out {
    let prefix = format!("c07L{id}-");
    alloc_count::set_thread_tag(id);
    alloc_count::reset_tag(id);
    alloc_count::set_tag_big_threshold(id, single_alloc_bound(0));
    let rt = tokio::runtime::Builder::new_multi_thread()
        .worker_threads(2)
        .thread_name(format!("{prefix}rt"))
        .on_thread_start(move || alloc_count::set_thread_tag(id))
        .enable_all()
        .build();
    let rt = match rt {
        Ok(r) => r,
        Err(e) => {
            return Out {
                scenario: spec.scenario.clone(),
                nontrivial: false,
                verdict: Verdict::Inconclusive(format!("runtime: {e}")),
                more_violations: vec![],
                counters: BTreeMap::new(),
                seen: vec![],
            };
        }
    };
    let salt = spec.scenario["salt"].as_u64().unwrap_or(0);
    // a replayed scenario carries the seed it was generated with
    let seed = spec.scenario["seed"].as_u64().unwrap_or(seed);
    let canary = Arc::new(AtomicU64::new(0));
    let camp = Camp {
        id,
        tier,
        rng: Rng::new(seed).fork(0xC07_0000 + salt),
        scenario: spec.scenario.clone(),
        counters: BTreeMap::new(),
        seen: vec![],
        fed_bytes: 0,
        fed_inputs: 0,
        max_input_len: 0,
        recent: vec![],
        heap_base: alloc_count::tag_net_bytes(id),
        canary: canary.clone(),
        heap_violation: None,
    };
    let watchdog = Duration::from_secs(tier.pick(70, 240));
    let body = spec.body;
    // A rustrtc task that blocks inside `poll` (a self-dead-lock) pins one of the two workers.
    // If that worker was the one that had been parked on the I/O + timer driver, the other one
    // sleeps on a condition variable and nobody turns the driver any more: every timer of the
    // campaign – probes, canary, watchdog – would stop. An OS thread outside the runtime
    // therefore (a) injects an empty task every 5 ms, which wakes a parked worker that then
    // takes over the driver, and (b) is the watchdog: it aborts the body through a oneshot,
    // which wakes the `block_on` thread without any help from the runtime.
    let (abort_tx, abort_rx) = tokio::sync::oneshot::channel::<()>();
    let ticker_stop = Arc::new(std::sync::atomic::AtomicBool::new(false));
    let ticker = {
        let handle = rt.handle().clone();
        let stop = ticker_stop.clone();
        std::thread::Builder::new().name(format!("{prefix}tick")).spawn(move || {
            // the empty tasks are freed by the campaign's workers: allocate them under the
            // same tag, or the campaign's net heap would drift downwards
            alloc_count::set_thread_tag(id);
            let t0 = Instant::now();
            let mut abort = Some(abort_tx);
            while !stop.load(Ordering::Relaxed) {
                handle.spawn(async {});
                if t0.elapsed() > watchdog {
                    if let Some(a) = abort.take() {
                        let _ = a.send(());
                    }
                }
                std::thread::sleep(Duration::from_millis(5));
            }
        })
    };
    let res = std::panic::catch_unwind(std::panic::AssertUnwindSafe(|| {
        rt.block_on(async move {
            let c2 = canary.clone();
            tokio::spawn(async move {
                loop {
                    tokio::time::sleep(Duration::from_millis(10)).await;
                    c2.fetch_add(1, Ordering::Relaxed);
                }
            });
            tokio::select! {
                r = body(camp) => Ok(r),
                _ = abort_rx => Err(()),
            }
        })
    }));
    ticker_stop.store(true, Ordering::Relaxed);
    if let Ok(t) = ticker {
        let _ = t.join();
    }
    // let detached rustrtc tasks finish what they are doing before the verdict
    std::thread::sleep(Duration::from_millis(150));
    let panics: Vec<PanicSite> = LIVE_PANICS
        .lock()
        .iter()
        .filter(|(t, _)| t.starts_with(&prefix))
        .map(|(_, s)| s.clone())
        .collect();
    rt.shutdown_timeout(Duration::from_millis(500));
    alloc_count::set_thread_tag(0);
    // (iv) blocks above 256 KiB + 64·L (L as it was when the block was requested); resolved
    // here, on the now untagged driver thread
    let largest_block = alloc_count::tag_max_single(id);
    let big_total = alloc_count::tag_big_events(id);
    alloc_count::set_tag_big_threshold(id, usize::MAX);
    let big: Vec<(usize, usize, usize, Option<String>, String)> = alloc_count::take_big_allocs(id)
        .into_iter()
        .map(|b| {
            let bt = b.backtrace.to_string();
            let site = super::totality::rustrtc_frame_of_backtrace(&bt);
            (b.size, b.threshold, b.live_before, site, b.thread)
        })
        .collect();
    let target = spec.target;
    let (camp, end) = match res {
        Ok(Ok((c, e))) => (Some(c), e),
        Ok(Err(_)) => (None, End::Inconclusive("watchdog expired".into())),
        Err(_) => (None, End::Inconclusive("campaign driver unwound".into())),
    };
    let mut out = Out {
        scenario: spec.scenario.clone(),
        nontrivial: false,
        verdict: Verdict::Held,
        more_violations: vec![],
        counters: BTreeMap::new(),
        seen: vec![],
    };
    let mut recent_hex: Vec<String> = vec![];
    let mut heap_v = None;
    if let Some(c) = camp {
        out.nontrivial = c.fed_inputs > 0;
        out.counters = c.counters;
        out.seen = c.seen;
        *out.counters.entry(format!("live.inputs[{target}]")).or_insert(0) += c.fed_inputs;
        *out.counters.entry("live.bytes_fed".into()).or_insert(0) += c.fed_bytes;
        recent_hex = c.recent.iter().rev().take(12).map(|b| hex_cap(b, 160)).collect();
        heap_v = c.heap_violation.clone();
        out.scenario["observed"] = json!({"inputs": c.fed_inputs, "bytes": c.fed_bytes});
    }
    // (i) panics
    let mut viols: Vec<(String, String, Value)> = vec![];
    let mut seen_keys = std::collections::BTreeSet::new();
    for p in &panics {
        if !(p.site.starts_with("src/") || p.site.starts_with("fn:")) {
            // not attributable to rustrtc (harness code or unresolved): never a violation
            *out.counters.entry("live.panics_unattributed".into()).or_insert(0) += 1;
            out.seen.push(("live.unattributed_panics".into(), format!("{} @ {} ({})", target, p.raised_at, p.message)));
            continue;
        }
        let key = format!("entry=live:{},panic={}", target, p.site);
        if seen_keys.insert(key.clone()) {
            viols.push((
                key,
                format!("panic in a task of live target {} at {} ({})", target, p.site, p.message),
                json!({"kind":"panic","site":p.site,"raised_at":p.raised_at,"message":p.message,
                       "last_inputs_newest_first":recent_hex}),
            ));
        }
    }
    if let Some(h) = heap_v {
        viols.push(h);
    }
    *out.counters.entry(format!("live.largest_single_alloc_bytes[{target}]_max")).or_insert(0) = largest_block as u64;
    let mut big_sites: BTreeMap<String, (usize, usize, usize, u64)> = BTreeMap::new();
    for (size, threshold, live_before, site, thread) in &big {
        match site {
            Some(site) => {
                let e = big_sites.entry(site.clone()).or_insert((0, *threshold, *live_before, 0));
                if *size > e.0 || (*size == e.0 && *threshold < e.1) {
                    e.0 = *size;
                    e.1 = *threshold;
                    e.2 = *live_before;
                }
                e.3 += 1;
            }
            None => {
                // requested by the harness itself (input generators, bookkeeping): not rustrtc's
                *out.counters.entry("live.big_blocks_requested_by_harness".into()).or_insert(0) += 1;
                out.seen.push(("live.big_blocks_requested_by_harness".into(), format!("{target}: {} KiB on {thread}", size / 1024)));
            }
        }
    }
    if big_total > big.len() {
        *out.counters.entry("live.big_blocks_not_recorded".into()).or_insert(0) += (big_total - big.len()) as u64;
    }
    for (site, (size, threshold, live_before, n)) in big_sites {
        let l = threshold.saturating_sub(single_alloc_bound(0) + 2 * live_before) / SINGLE_ALLOC_FACTOR;
        viols.push((
            format!("entry=live:{target},bigalloc={site}"),
            format!("rustrtc code at {site} requested a single block of {size} bytes while the campaign had fed inputs of at most {l} bytes each and held {live_before} bytes of live heap (bound 256KiB+64*L+2*H = {threshold}); {n} such request(s)"),
            json!({"kind":"bloat","single_block":size,"max_input_len":l,"live_heap_before":live_before,"bound":threshold,"site":site,
                   "requests":n,"last_inputs_newest_first":recent_hex}),
        ));
    }
    match end {
        End::Live => {}
        End::CleanEnd(s) => {
            *out.counters.entry(format!("live.clean_end[{target}]")).or_insert(0) += 1;
            out.seen.push(("live.clean_ends".into(), format!("{target}: {s}")));
        }
        End::Unresponsive(s) => {
            if panics.is_empty() {
                viols.push((
                    format!("entry=live:{target},unresponsive"),
                    format!("live target {target} stopped reacting to genuine stimuli without reporting an end: {s}"),
                    json!({"kind":"hang","detail":s,"last_inputs_newest_first":recent_hex}),
                ));
            }
        }
        End::Inconclusive(s) => {
            if viols.is_empty() {
                out.verdict = Verdict::Inconclusive(format!("{target}: {s}"));
            }
        }
    }
    if let Some((k, w, v)) = viols.first().cloned() {
        out.verdict = Verdict::violated(k, w, v);
        out.more_violations = viols.into_iter().skip(1).collect();
        out.nontrivial = true;
    }
    out
}

/// Heap check used by campaign bodies right after the last probe (before teardown).
pub fn heap_verdict(c: &mut Camp, target: &str) {
    let grown = alloc_count::tag_net_bytes(c.id) - c.heap_base;
    let bound = LIVE_HEAP_SLACK + LIVE_HEAP_FACTOR * c.fed_bytes as i64;
    c.count("live.heap_growth_kib_max", 0);
    let e = c.counters.entry("live.heap_growth_kib_max".into()).or_insert(0);
    *e = (*e).max((grown.max(0) / 1024) as u64);
    if grown > bound {
        c.heap_violation = Some((
            format!("entry=live:{target},bloat"),
            format!("live heap of the campaign grew by {grown} bytes after {} input bytes (bound 8MiB+64*len = {bound})", c.fed_bytes),
            json!({"kind":"bloat","grown":grown,"fed_bytes":c.fed_bytes,"bound":bound}),
        ));
    }
}

// ------------------------------------------------------------------ DTLS rig

#[derive(Clone, Copy, PartialEq, Debug)]
pub enum Mode {
    Forward,
    Hold,
    Drop,
}

pub struct Gate {
    pub mode: Mode,
    pub held: Vec<Bytes>,
    pub forwarded: usize,
    /// after this many forwarded datagrams switch to Hold
    pub limit: Option<usize>,
    pub capture: Vec<Vec<u8>>,
}

pub struct Side {
    pub sock: Arc<UdpSocket>,
    pub addr: SocketAddr,
    pub conn: Arc<IceConn>,
    pub dtls: Arc<DtlsTransport>,
    pub rx: Option<mpsc::UnboundedReceiver<Bytes>>,
    pub runner: parking_lot::Mutex<Option<Pin<Box<dyn Future<Output = ()> + Send>>>>,
    pub gate_in: Arc<tokio::sync::Mutex<Gate>>,
    _sock_tx: watch::Sender<Option<IceSocketWrapper>>,
}

pub struct Rig {
    pub client: Side,
    pub server: Side,
}

async fn bind() -> Result<Arc<UdpSocket>, String> {
    UdpSocket::bind("127.0.0.1:0").await.map(Arc::new).map_err(|e| format!("bind: {e}"))
}

/// Deliver what arrives on `sock` (i.e. what the *peer* emitted) into `conn`, under gate control.
fn spawn_pump(sock: Arc<UdpSocket>, conn: Arc<IceConn>, from: SocketAddr, gate: Arc<tokio::sync::Mutex<Gate>>) {
    tokio::spawn(async move {
        let mut buf = vec![0u8; 65536];
        let mut mb = Vec::new();
        loop {
            let Ok((n, _src)) = sock.recv_from(&mut buf).await else {
                tokio::time::sleep(Duration::from_millis(5)).await;
                continue;
            };
            let pkt = Bytes::copy_from_slice(&buf[..n]);
            let mut g = gate.lock().await;
            if g.capture.len() < 64 {
                g.capture.push(pkt.to_vec());
            }
            if g.mode == Mode::Forward {
                if let Some(l) = g.limit {
                    if g.forwarded >= l {
                        g.mode = Mode::Hold;
                    }
                }
            }
            match g.mode {
                Mode::Forward => {
                    g.forwarded += 1;
                    conn.receive(pkt, from, &mut mb).await;
                }
                Mode::Hold => g.held.push(pkt),
                Mode::Drop => {}
            }
        }
    });
}

impl Side {
    pub async fn release(&self, from: SocketAddr) {
        let mut g = self.gate_in.lock().await;
        g.limit = None;
        g.mode = Mode::Forward;
        let held = std::mem::take(&mut g.held);
        let mut mb = Vec::new();
        for p in held {
            g.forwarded += 1;
            self.conn.receive(p, from, &mut mb).await;
        }
    }
    pub async fn set_mode(&self, m: Mode, limit: Option<usize>) {
        let mut g = self.gate_in.lock().await;
        g.mode = m;
        g.limit = limit;
    }
}

pub async fn build_rig(server_mode: Mode, client_mode: Mode) -> Result<Rig, String> {
    let cs = bind().await?;
    let ss = bind().await?;
    let ca = cs.local_addr().map_err(|e| e.to_string())?;
    let sa = ss.local_addr().map_err(|e| e.to_string())?;
    let ccert = dtls::generate_certificate().map_err(|e| e.to_string())?;
    let scert = dtls::generate_certificate().map_err(|e| e.to_string())?;
    let cfp = dtls::fingerprint(&ccert);
    let sfp = dtls::fingerprint(&scert);
    let mk = |m: Mode| {
        Arc::new(tokio::sync::Mutex::new(Gate {
            mode: m,
            held: vec![],
            forwarded: 0,
            limit: None,
            capture: vec![],
        }))
    };
    let (ctx, _) = watch::channel(Some(IceSocketWrapper::Udp(cs.clone())));
    let cconn = IceConn::new(ctx.subscribe(), sa, None);
    let (cd, crx, crun) = DtlsTransport::new(cconn.clone(), ccert, true, 1500, Some(sfp)).await.map_err(|e| e.to_string())?;
    let (stx, _) = watch::channel(Some(IceSocketWrapper::Udp(ss.clone())));
    let sconn = IceConn::new(stx.subscribe(), ca, None);
    let (sd, srx, srun) = DtlsTransport::new(sconn.clone(), scert, false, 1500, Some(cfp)).await.map_err(|e| e.to_string())?;
    let cg = mk(client_mode);
    let sg = mk(server_mode);
    // what the server emits lands on the client's socket and is delivered into the client conn
    spawn_pump(cs.clone(), cconn.clone(), sa, cg.clone());
    spawn_pump(ss.clone(), sconn.clone(), ca, sg.clone());
    Ok(Rig {
        client: Side { sock: cs, addr: ca, conn: cconn, dtls: cd, rx: Some(crx), runner: parking_lot::Mutex::new(Some(Box::pin(crun))), gate_in: cg, _sock_tx: ctx },
        server: Side { sock: ss, addr: sa, conn: sconn, dtls: sd, rx: Some(srx), runner: parking_lot::Mutex::new(Some(Box::pin(srun))), gate_in: sg, _sock_tx: stx },
    })
}

pub fn state_name(s: &DtlsState) -> &'static str {
    match s {
        DtlsState::New => "New",
        DtlsState::Handshaking => "Handshaking",
        DtlsState::Connected(..) => "Connected",
        DtlsState::Failed => "Failed",
        DtlsState::Closed => "Closed",
    }
}

/// Wait until both transports left the handshake (Connected / Failed / Closed).
pub async fn wait_settled(a: &Arc<DtlsTransport>, b: &Arc<DtlsTransport>, max: Duration) -> (String, String) {
    let t0 = Instant::now();
    loop {
        let sa = a.get_state();
        let sb = b.get_state();
        let done = |s: &DtlsState| matches!(s, DtlsState::Connected(..) | DtlsState::Failed | DtlsState::Closed);
        if (done(&sa) && done(&sb)) || t0.elapsed() > max {
            return (state_name(&sa).into(), state_name(&sb).into());
        }
        tokio::time::sleep(Duration::from_millis(20)).await;
    }
}

/// One genuine, complete handshake with everything captured: (client→server, server→client).
pub async fn capture_handshake() -> Result<(Vec<Vec<u8>>, Vec<Vec<u8>>), String> {
    let rig = build_rig(Mode::Forward, Mode::Forward).await?;
    if let Some(r) = rig.server.runner.lock().take() { tokio::spawn(r); }
    if let Some(r) = rig.client.runner.lock().take() { tokio::spawn(r); }
    let (a, b) = wait_settled(&rig.client.dtls, &rig.server.dtls, Duration::from_secs(20)).await;
    if a != "Connected" || b != "Connected" {
        return Err(format!("reference handshake ended {a}/{b}"));
    }
    let _ = rig.client.dtls.send(Bytes::from_static(b"hello")).await;
    let _ = rig.server.dtls.send(Bytes::from_static(b"world")).await;
    tokio::time::sleep(Duration::from_millis(100)).await;
    let c2s = rig.server.gate_in.lock().await.capture.clone();
    let s2c = rig.client.gate_in.lock().await.capture.clone();
    rig.client.dtls.close();
    rig.server.dtls.close();
    Ok((c2s, s2c))
}

/// Split captured datagrams into (handshake type, seq, body) triples where possible.
fn handshake_bodies(dgrams: &[Vec<u8>]) -> Vec<(u8, u16, Vec<u8>)> {
    use rustrtc::transports::dtls::handshake::HandshakeMessage;
    use rustrtc::transports::dtls::record::{ContentType, DtlsRecord};
    let mut out = vec![];
    for d in dgrams {
        let mut b = Bytes::copy_from_slice(d);
        while let Ok(Some(r)) = DtlsRecord::decode(&mut b) {
            if r.content_type != ContentType::Handshake || r.epoch != 0 {
                continue;
            }
            let mut p = r.payload.clone();
            while let Ok(Some(m)) = HandshakeMessage::decode(&mut p) {
                out.push((m.msg_type as u8, m.message_seq, m.body.to_vec()));
            }
        }
    }
    out
}

fn raw_record(ct: u8, epoch: u16, seq: u64, payload: &[u8]) -> Vec<u8> {
    let mut v = Vec::with_capacity(13 + payload.len());
    v.push(ct);
    v.extend_from_slice(&[254, 253]);
    v.extend_from_slice(&epoch.to_be_bytes());
    v.extend_from_slice(&seq.to_be_bytes()[2..]);
    v.extend_from_slice(&(payload.len().min(0xffff) as u16).to_be_bytes());
    v.extend_from_slice(payload);
    v
}

fn raw_hs(t: u8, total: u32, seq: u16, off: u32, flen: u32, body: &[u8]) -> Vec<u8> {
    let mut v = vec![t];
    v.extend_from_slice(&total.to_be_bytes()[1..]);
    v.extend_from_slice(&seq.to_be_bytes());
    v.extend_from_slice(&off.to_be_bytes()[1..]);
    v.extend_from_slice(&flen.to_be_bytes()[1..]);
    v.extend_from_slice(body);
    v
}

/// Hostile DTLS datagram generator. `corpus` = genuine datagrams of the direction that the
/// victim normally receives, `bodies` = their handshake messages.
pub fn hostile_dtls(corpus: &[Vec<u8>], bodies: &[(u8, u16, Vec<u8>)], r: &mut Rng, allow_alert: bool, gentle: bool) -> Vec<u8> {
    if gentle {
        // garbage that cannot be mistaken for a handshake message of the genuine peer:
        // random bytes with a DTLS first byte, and genuine datagrams cut inside the record header
        let mut v = if r.bool() {
            let n = r.usize_below(1400);
            let mut v = r.bytes(n);
            if let Some(b) = v.first_mut() { *b = *r.pick(&[20u8, 22, 23, 24, 25, 40, 63]); }
            if v.len() > 12 && r.bool() { v[11] = 0xff; v[12] = 0xff; }
            v
        } else {
            let d = r.pick(corpus).clone();
            let k = r.usize_below(d.len().min(13) + 1);
            d[..k].to_vec()
        };
        if v.first() == Some(&21) { v[0] = 22; }
        return v;
    }
    let body_seeds: Vec<Vec<u8>> = bodies.iter().map(|b| b.2.clone()).collect();
    let v = match r.below(10) {
        0 | 1 => mutators::random_mutant(corpus, r),
        2 => mutators::plain_random(corpus, r),
        3..=7 if !bodies.is_empty() => {
            // a (possibly mutated) body inside a well-formed record + handshake header, with
            // consistent or inconsistent lengths / fragmentation, seq near the expected one
            let (t, seq, body) = r.pick(bodies).clone();
            let body = if r.chance(3, 4) { mutators::random_mutant(&[body], r) } else { body };
            let body = match r.below(12) {
                0 => body[..body.len().min(34)].to_vec(),
                1 => body[..body.len().min(35)].to_vec(),
                _ => body,
            };
            let t = if r.chance(1, 8) { *r.pick(&[0u8, 1, 2, 3, 11, 12, 13, 14, 15, 16, 20]) } else { t };
            let seq = match r.below(6) {
                0 => seq.wrapping_add(1),
                1 => seq.wrapping_sub(1),
                2 => r.range(0, 6) as u16,
                3 => 0xffff,
                _ => seq,
            };
            let n = body.len() as u32;
            let (total, off, flen, slice): (u32, u32, u32, Vec<u8>) = match r.below(10) {
                8 | 9 => {
                    // *first fragment* (offset 0, a few body bytes) of a message whose header
                    // declares a huge / lying total_length
                    let cut = r.usize_below(body.len().min(24) + 1);
                    let total = match r.below(6) {
                        0 => 0xff_ffff,
                        1 => 0xff_fffe,
                        2 => 0x80_0000,
                        3 => 0x10_0000 + (r.u32() & 0xf_ffff),
                        4 => 0x1_0000 + (r.u32() & 0xffff),
                        _ => r.u32() & 0xff_ffff,
                    };
                    (total, 0, cut as u32, body[..cut].to_vec())
                }
                0 => (n.wrapping_add(r.range(1, 70000) as u32) & 0xff_ffff, 0, n, body.clone()),
                1 => {
                    let cut = r.usize_below(body.len() + 1);
                    (n, 0, cut as u32, body[..cut].to_vec())
                }
                2 => {
                    let cut = r.usize_below(body.len() + 1);
                    (n, cut as u32, n - cut as u32, body[cut..].to_vec())
                }
                3 => (n, r.u32() & 0xff_ffff, n, body.clone()),
                4 => (0, 0, n, body.clone()),
                5 => (0xff_ffff, 0xff_fff0, n, body.clone()),
                _ => (n, 0, n, body.clone()),
            };
            let mut payload = raw_hs(t, total, seq, off, flen, &slice);
            if r.chance(1, 4) && !bodies.is_empty() {
                let (t2, s2, b2) = r.pick(bodies).clone();
                payload.extend_from_slice(&raw_hs(t2, b2.len() as u32, s2, 0, b2.len() as u32, &b2));
            }
            let epoch = if r.chance(1, 10) { r.range(0, 3) as u16 } else { 0 };
            raw_record(22, epoch, r.below(1 << 20), &payload)
        }
        8 => {
            // other content types in clear
            let ct = if allow_alert { *r.pick(&[20u8, 21, 23, 24, 22]) } else { *r.pick(&[20u8, 23, 24, 22]) };
            let n = r.usize_below(40);
            raw_record(ct, r.range(0, 2) as u16, r.below(1 << 16), &r.bytes(n))
        }
        _ => {
            let mut v = mutators::random_mutant(&body_seeds, r);
            v.truncate(1400);
            raw_record(22, 0, r.below(1000), &v)
        }
    };
    let mut v = v;
    v.truncate(mutators::MAX_INPUT);
    if !allow_alert && v.first() == Some(&21) {
        v[0] = 22;
    }
    v
}

/// Deterministic block: for every message_seq the victim may currently expect (0..=9 covers the
/// pre-handshake server / client and every mid-handshake point of a WebRTC handshake) a first
/// fragment (fragment_offset 0, one or zero body bytes) whose header declares a 24-bit
/// total_length of 16 MiB − 1 / 8 MiB / 1 MiB. A datagram of 25–26 bytes; a reassembler must
/// buffer the byte it got, not what the header promises.
pub fn forged_first_fragments(msg_type: u8, rec_seq0: u64) -> Vec<Vec<u8>> {
    let mut out = vec![];
    let mut rs = rec_seq0;
    for seq in 0u16..10 {
        for (total, body) in [(0xff_ffffu32, &[0xfeu8][..]), (0x80_0000, &[][..]), (0x10_0000, &[0xfe][..])] {
            out.push(raw_record(22, 0, rs, &raw_hs(msg_type, total, seq, 0, body.len() as u32, body)));
            rs += 1;
        }
    }
    out
}

/// Well-framed ClientHellos (victim = server) / ServerHellos (victim = client), message_seq 0 and 1,
/// whose extension block carries ONE hostile extension body next to ordinary ones.
pub fn hello_extension_sweep(victim_server: bool) -> Vec<(String, Vec<u8>)> {
    let bodies: Vec<Vec<u8>> = vec![
        vec![], vec![0], vec![0, 0], vec![0, 2], vec![0, 2, 0], vec![0, 2, 0, 1], vec![0, 2, 0, 1, 0],
        vec![0, 4, 0, 1, 0], vec![0, 4, 0, 1], vec![0, 3, 0, 1, 0, 2], vec![0xff, 0xff], vec![0xff, 0xff, 0, 1],
        vec![0, 1, 0], vec![1], vec![1, 0], vec![2, 0], vec![0, 2, 0, 1, 5, 1, 2], vec![0, 6, 0, 1, 0, 2, 0, 7, 0xff],
        vec![0, 0, 0], vec![0x7f; 5], vec![0, 8, 0, 29, 0, 23, 0, 24], vec![3, 0, 1],
    ];
    let types: [u16; 9] = [14, 10, 11, 13, 23, 0xff01, 35, 16, 0x1234];
    let mut out = vec![];
    let mut rs = 1u64 << 30;
    for ty in types {
        for (bi, b) in bodies.iter().enumerate() {
            for (pos, trailing) in [(0usize, true), (1, false)] {
                // extension block: [ordinary EMS] [hostile] [ordinary point formats] / hostile last
                let mut exts: Vec<(u16, Vec<u8>)> = vec![(23, vec![])];
                exts.push((ty, b.clone()));
                if trailing {
                    exts.push((11, vec![1, 0]));
                }
                let mut block = vec![];
                for (t, d) in &exts {
                    block.extend_from_slice(&t.to_be_bytes());
                    block.extend_from_slice(&(d.len() as u16).to_be_bytes());
                    block.extend_from_slice(d);
                }
                let mut body = vec![0xfe, 0xfd];
                body.extend_from_slice(&[0x5a; 32]); // random
                body.push(0); // session id
                if victim_server {
                    body.push(0); // cookie
                    body.extend_from_slice(&[0, 2, 0xc0, 0x2b]); // cipher suites
                    body.extend_from_slice(&[1, 0]); // compression methods
                } else {
                    body.extend_from_slice(&[0xc0, 0x2b]); // chosen suite
                    body.push(0); // compression
                }
                body.extend_from_slice(&(block.len() as u16).to_be_bytes());
                body.extend_from_slice(&block);
                let t = if victim_server { 1u8 } else { 2u8 };
                let mseq = if victim_server { 0 } else { pos as u16 };
                let d = raw_record(22, 0, rs, &raw_hs(t, body.len() as u32, mseq, 0, body.len() as u32, &body));
                rs += 1;
                out.push((format!("ext{ty}:body{bi}:{}", if trailing { "mid" } else { "last" }), d));
            }
        }
    }
    out
}

/// Application-data marker round trip in both directions; true if both arrived.
async fn dtls_marker_probe(rig: &mut Rig, n: u64) -> bool {
    let mut ok_cs = false;
    let mut ok_sc = false;
    for attempt in 0..5u64 {
        let m1 = format!("probe-cs-{n}-{attempt}");
        let m2 = format!("probe-sc-{n}-{attempt}");
        if !ok_cs {
            let _ = rig.client.dtls.send(Bytes::from(m1.clone())).await;
        }
        if !ok_sc {
            let _ = rig.server.dtls.send(Bytes::from(m2.clone())).await;
        }
        let deadline = Instant::now() + Duration::from_millis(400);
        while Instant::now() < deadline && !(ok_cs && ok_sc) {
            if let Some(rx) = rig.server.rx.as_mut() {
                while let Ok(b) = rx.try_recv() {
                    if b.starts_with(b"probe-cs-") {
                        ok_cs = true;
                    }
                }
            }
            if let Some(rx) = rig.client.rx.as_mut() {
                while let Ok(b) = rx.try_recv() {
                    if b.starts_with(b"probe-sc-") {
                        ok_sc = true;
                    }
                }
            }
            tokio::time::sleep(Duration::from_millis(5)).await;
        }
        if ok_cs && ok_sc {
            return true;
        }
    }
    false
}

fn dtls_body(mut c: Camp) -> Pin<Box<dyn Future<Output = (Camp, End)> + Send>> {
    Box::pin(async move {
        let state = c.scenario["state"].as_str().unwrap_or("established").to_string();
        let victim_server = c.scenario["victim"].as_str().unwrap_or("server") == "server";
        let n = c.scenario["n"].as_u64().unwrap_or(500) as usize;
        let k = c.scenario["k"].as_u64().unwrap_or(1) as usize;
        let (c2s, s2c) = match capture_handshake().await {
            Ok(x) => x,
            Err(e) => return (c, End::Inconclusive(format!("reference handshake: {e}"))),
        };
        c.count("live.dtls.captured_datagrams", (c2s.len() + s2c.len()) as u64);
        let corpus = if victim_server { c2s.clone() } else { s2c.clone() };
        let mut corpus_all = corpus.clone();
        corpus_all.extend(pure::record_seeds());
        let bodies = handshake_bodies(&corpus);
        for b in &bodies {
            c.seen("live.dtls.genuine_handshake_types", format!("{}", b.0));
        }
        let mut rig = match build_rig(Mode::Forward, Mode::Forward).await {
            Ok(r) => r,
            Err(e) => return (c, End::Inconclusive(e)),
        };
        // re-baseline the heap: the reference handshake and rig set-up are not hostile input
        c.rebaseline();
        let allow_alert = c.scenario["alerts"].as_bool().unwrap_or(false);
        let gentle = c.scenario["gentle"].as_bool().unwrap_or(false);
        macro_rules! victim { () => { if victim_server { &rig.server } else { &rig.client } }; }
        macro_rules! peer { () => { if victim_server { &rig.client } else { &rig.server } }; }
        let inject = |c: &mut Camp, rig: &Rig, data: Vec<u8>| {
            let v = if victim_server { &rig.server } else { &rig.client };
            let p = if victim_server { &rig.client } else { &rig.server };
            let conn = v.conn.clone();
            let from = p.addr;
            c.fed(&data);
            async move {
                let mut mb = Vec::new();
                conn.receive(Bytes::from(data), from, &mut mb).await;
            }
        };
        match state.as_str() {
            "hello_ext" => {
                // The extension walk of a hello runs only for the FIRST well-framed hello a
                // fresh endpoint sees (later ones are treated as retransmissions): one fresh rig
                // per crafted hello. Framing is correct throughout; only extension bodies are
                // hostile (declared list lengths larger / smaller than the data, odd trailing
                // bytes, empty bodies, length fields at the end of the block).
                rig.client.dtls.close();
                rig.server.dtls.close();
                drop(rig);
                let hellos = hello_extension_sweep(victim_server);
                let total = hellos.len();
                for (i, (label, d)) in hellos.into_iter().enumerate() {
                    let rig = match build_rig(Mode::Forward, Mode::Forward).await {
                        Ok(r) => r,
                        Err(e) => return (c, End::Inconclusive(e)),
                    };
                    let p = if victim_server { &rig.client } else { &rig.server };
                    p.set_mode(Mode::Drop, None).await;
                    let r = if victim_server { rig.server.runner.lock().take() } else { rig.client.runner.lock().take() };
                    let h = r.map(tokio::spawn);
                    tokio::task::yield_now().await;
                    inject(&mut c, &rig, d).await;
                    // a second, genuine-looking hello behind it: the task must still be there to take it
                    tokio::time::sleep(Duration::from_millis(8)).await;
                    if let Some(h) = &h {
                        if h.is_finished() {
                            c.seen("live.dtls.hello_ext_runner_ended_after", label.clone());
                        }
                    }
                    c.seen("live.dtls.hello_ext_variants", label.split(':').next().unwrap_or("").to_string());
                    rig.client.dtls.close();
                    rig.server.dtls.close();
                    if i % 16 == 15 {
                        tokio::task::yield_now().await;
                    }
                }
                c.count("live.dtls.hello_ext_hellos", total as u64);
                // no heap-growth verdict here: the campaign builds hundreds of rigs (certificates,
                // sockets, tasks) itself; panics and the single-allocation bound stay active
                (c, End::Live)
            }
            "seqflood" => {
                // 65 540 in-order, empty HelloRequest messages (50 per datagram): every one is
                // accepted as "the expected message_seq", so the receive counter walks through
                // its whole 16-bit range. Totality demands that this ends in a value or an error.
                peer!().set_mode(Mode::Drop, None).await;
                let r = if victim_server { rig.server.runner.lock().take() } else { rig.client.runner.lock().take() };
                if let Some(r) = r { tokio::spawn(r); }
                let mut seq: u32 = 0;
                let mut rec_seq = 0u64;
                while seq < 65_540 {
                    let mut payload = vec![];
                    for _ in 0..50 {
                        payload.extend_from_slice(&raw_hs(0, 0, (seq & 0xffff) as u16, 0, 0, &[]));
                        seq += 1;
                    }
                    let d = raw_record(22, 0, rec_seq, &payload);
                    rec_seq += 1;
                    inject(&mut c, &rig, d).await;
                    if rec_seq % 16 == 0 { tokio::task::yield_now().await; }
                }
                tokio::time::sleep(Duration::from_millis(500)).await;
                c.seen("live.dtls.victim_state_after_injection", format!("seqflood:{}", state_name(&victim!().dtls.get_state())));
                heap_verdict(&mut c, "dtls");
                rig.client.dtls.close();
                rig.server.dtls.close();
                (c, End::Live)
            }
            "pre" | "mid" => {
                // pre: victim runs alone and sees only hostile input, what it emits is dropped.
                // mid: k genuine datagrams are forwarded to the victim first, the rest is held.
                if state == "pre" {
                    peer!().set_mode(Mode::Drop, None).await;
                    let r = if victim_server { rig.server.runner.lock().take() } else { rig.client.runner.lock().take() };
                    if let Some(r) = r { tokio::spawn(r); }
                } else {
                    victim!().set_mode(Mode::Forward, Some(k)).await;
                    if let Some(r) = rig.server.runner.lock().take() { tokio::spawn(r); }
                    if let Some(r) = rig.client.runner.lock().take() { tokio::spawn(r); }
                    // wait until k datagrams reached the victim (or the handshake finished)
                    let t0 = Instant::now();
                    loop {
                        let f = victim!().gate_in.lock().await.forwarded;
                        if f >= k || t0.elapsed() > Duration::from_secs(5) { break; }
                        tokio::time::sleep(Duration::from_millis(10)).await;
                    }
                }
                if !gentle {
                    // deterministic boundary inputs first: forged first fragments for every
                    // message_seq the victim can be waiting for in this state, ...
                    let t = if victim_server { 1u8 } else { 2u8 };
                    for d in forged_first_fragments(t, 1 << 24) {
                        inject(&mut c, &rig, d).await;
                    }
                    c.count("live.dtls.forged_first_fragments", 30);
                    // let the victim's task work through them before the long inputs follow
                    // (the single-allocation bound uses the longest input fed *so far*)
                    tokio::time::sleep(Duration::from_millis(40)).await;
                    // ... hello bodies of exactly 34..36 bytes
                    // (version + random and nothing / almost nothing behind it)
                    for (i, l) in [34usize, 35, 36, 33].iter().enumerate() {
                        let body = vec![0xfeu8; *l];
                        let d = raw_record(22, 0, i as u64, &raw_hs(t, *l as u32, 0, 0, *l as u32, &body));
                        inject(&mut c, &rig, d).await;
                    }
                    tokio::task::yield_now().await;
                }
                let frag_flood = c.scenario["flood"].as_str() == Some("fragments");
                if frag_flood {
                    // structured flood: thousands of fragments that a reassembler may want to
                    // keep – consecutive 1-byte fragments of a message that claims 16 MiB, first
                    // fragments of ever new (future) message_seqs, out-of-order offsets, and
                    // first fragments that restart the message over and over
                    let t = if victim_server { 1u8 } else { 2u8 };
                    let mut rs = 1u64 << 25;
                    let mut frags: Vec<Vec<u8>> = vec![];
                    for seq in 0u16..3 {
                        for off in 0..n as u32 / 6 {
                            frags.push(raw_hs(t, 0xff_ffff, seq, off, 1, &[0xfe]));
                        }
                    }
                    for seq in 1..=(n as u16 / 2) {
                        frags.push(raw_hs(t, 3000, seq, 0, 100, &[0xab; 100]));
                    }
                    for i in 0..n as u32 / 4 {
                        let seq = (i % 3) as u16;
                        let total = 0x1_0000 + (i & 0xfff);
                        let off = c.rng.below(total as u64) as u32;
                        frags.push(raw_hs(t, total, seq, off, 32, &[0xcd; 32]));
                        frags.push(raw_hs(t, total, seq, 0, 200, &[0xef; 200]));
                    }
                    c.count("live.dtls.flood_fragments", frags.len() as u64);
                    let mut i = 0;
                    while i < frags.len() {
                        // several handshake fragments per record, like a genuine flight
                        let k = 1 + c.rng.usize_below(4);
                        let mut payload = vec![];
                        for f in frags[i..(i + k).min(frags.len())].iter() { payload.extend_from_slice(f); }
                        i += k;
                        let d = raw_record(22, 0, rs, &payload);
                        rs += 1;
                        inject(&mut c, &rig, d).await;
                        if rs % 32 == 0 { tokio::task::yield_now().await; }
                    }
                    tokio::time::sleep(Duration::from_millis(50)).await;
                }
                for i in 0..(if frag_flood { 0 } else { n }) {
                    let d = hostile_dtls(&corpus_all, &bodies, &mut c.rng, allow_alert, gentle);
                    inject(&mut c, &rig, d).await;
                    if i % 64 == 63 { tokio::task::yield_now().await; }
                }
                let hk = (alloc_count::tag_net_bytes(c.id) - c.heap_base) / 1024;
                c.seen("live.dtls.heap_kib_after_injection", format!("{state}/{}/gentle={gentle}: {hk} KiB after {} B", if victim_server {"server"} else {"client"}, c.fed_bytes));
                c.seen("live.dtls.victim_state_after_injection", format!("{state}:{}", state_name(&victim!().dtls.get_state())));
                // now let the genuine handshake run
                if state == "pre" {
                    peer!().set_mode(Mode::Forward, None).await;
                    let r = if victim_server { rig.client.runner.lock().take() } else { rig.server.runner.lock().take() };
                    if let Some(r) = r { tokio::spawn(r); }
                } else {
                    let from = peer!().addr;
                    victim!().release(from).await;
                }
                let (a, b) = wait_settled(&rig.client.dtls, &rig.server.dtls, Duration::from_secs(40)).await;
                let (fc, fs) = (rig.client.gate_in.lock().await.forwarded, rig.server.gate_in.lock().await.forwarded);
                c.seen("live.dtls.genuine_datagrams_during_settle", format!("{state}/{}/gentle={gentle}: to_client={fc} to_server={fs} heap={} KiB", if victim_server {"server"} else {"client"}, (alloc_count::tag_net_bytes(c.id) - c.heap_base) / 1024));
                c.seen("live.dtls.handshake_outcome", format!("{state}/{}: client={a} server={b}", if victim_server {"server"} else {"client"}));
                heap_verdict(&mut c, "dtls");
                let end = if a == "Connected" && b == "Connected" {
                    if dtls_marker_probe(&mut rig, 0).await { End::Live } else {
                        let (a2, b2) = (state_name(&rig.client.dtls.get_state()), state_name(&rig.server.dtls.get_state()));
                        if a2 == "Connected" && b2 == "Connected" && c.canary_ok(Duration::from_millis(200)).await {
                            End::Unresponsive("handshake completed after injection, both Connected, markers not delivered in 5 attempts".into())
                        } else { End::CleanEnd(format!("{a2}/{b2}")) }
                    }
                } else if a == "Handshaking" || b == "Handshaking" || a == "New" || b == "New" {
                    // rustrtc's own 30 s handshake deadline has not fired within 40 s: report,
                    // but a wall-clock observation alone is never a violation
                    End::Inconclusive(format!("handshake neither completed nor failed within 40 s: {a}/{b}"))
                } else {
                    End::CleanEnd(format!("{a}/{b}"))
                };
                rig.client.dtls.close();
                rig.server.dtls.close();
                (c, end)
            }
            _ => {
                // established / closing
                if let Some(r) = rig.server.runner.lock().take() { tokio::spawn(r); }
                if let Some(r) = rig.client.runner.lock().take() { tokio::spawn(r); }
                let (a, b) = wait_settled(&rig.client.dtls, &rig.server.dtls, Duration::from_secs(20)).await;
                if a != "Connected" || b != "Connected" {
                    return (c, End::Inconclusive(format!("set-up handshake ended {a}/{b}")));
                }
                if !dtls_marker_probe(&mut rig, 0).await {
                    return (c, End::Inconclusive("baseline marker probe failed".into()));
                }
                c.rebaseline();
                if state == "closing" {
                    victim!().dtls.close();
                    tokio::time::sleep(Duration::from_millis(30)).await;
                }
                let mut probes = 0u64;
                let mut end = End::Live;
                for i in 0..n {
                    let d = hostile_dtls(&corpus_all, &bodies, &mut c.rng, allow_alert, gentle);
                    inject(&mut c, &rig, d).await;
                    if i % 100 == 99 && state == "established" {
                        probes += 1;
                        if !dtls_marker_probe(&mut rig, probes).await {
                            let (a2, b2) = (state_name(&rig.client.dtls.get_state()), state_name(&rig.server.dtls.get_state()));
                            end = if a2 == "Connected" && b2 == "Connected" && c.canary_ok(Duration::from_millis(200)).await {
                                End::Unresponsive(format!("both Connected, marker not delivered after {} inputs", i + 1))
                            } else { End::CleanEnd(format!("{a2}/{b2} after {} inputs", i + 1)) };
                            break;
                        }
                    }
                }
                c.count("live.dtls.marker_probes_ok", probes);
                heap_verdict(&mut c, "dtls");
                rig.client.dtls.close();
                rig.server.dtls.close();
                (c, end)
            }
        }
    })
}

// ------------------------------------------------------------------ SCTP over authentic DTLS

pub fn sctp_packet(src: u16, dst: u16, vtag: u32, chunks: &[u8], good_crc: bool) -> Vec<u8> {
    let mut v = Vec::with_capacity(12 + chunks.len());
    v.extend_from_slice(&src.to_be_bytes());
    v.extend_from_slice(&dst.to_be_bytes());
    v.extend_from_slice(&vtag.to_be_bytes());
    v.extend_from_slice(&[0, 0, 0, 0]);
    v.extend_from_slice(chunks);
    let crc = crc32c::crc32c(&v);
    let crc = if good_crc { crc } else { crc ^ 1 };
    v[8..12].copy_from_slice(&crc.to_le_bytes());
    v
}

/// chunk with an explicit (possibly lying) length field; value is padded to 4
pub fn chunk_raw(t: u8, flags: u8, len_field: u16, value: &[u8]) -> Vec<u8> {
    let mut v = vec![t, flags];
    v.extend_from_slice(&len_field.to_be_bytes());
    v.extend_from_slice(value);
    while v.len() % 4 != 0 {
        v.push(0);
    }
    v
}

pub fn chunk(t: u8, flags: u8, value: &[u8]) -> Vec<u8> {
    chunk_raw(t, flags, (4 + value.len()).min(0xffff) as u16, value)
}

fn data_value(tsn: u32, sid: u16, ssn: u16, ppid: u32, payload: &[u8]) -> Vec<u8> {
    let mut v = Vec::new();
    v.extend_from_slice(&tsn.to_be_bytes());
    v.extend_from_slice(&sid.to_be_bytes());
    v.extend_from_slice(&ssn.to_be_bytes());
    v.extend_from_slice(&ppid.to_be_bytes());
    v.extend_from_slice(payload);
    v
}

fn init_value(tag: u32, rwnd: u32, os: u16, is: u16, tsn: u32, params: &[u8]) -> Vec<u8> {
    let mut v = Vec::new();
    v.extend_from_slice(&tag.to_be_bytes());
    v.extend_from_slice(&rwnd.to_be_bytes());
    v.extend_from_slice(&os.to_be_bytes());
    v.extend_from_slice(&is.to_be_bytes());
    v.extend_from_slice(&tsn.to_be_bytes());
    v.extend_from_slice(params);
    v
}

fn param(t: u16, len_field: u16, value: &[u8]) -> Vec<u8> {
    let mut v = Vec::new();
    v.extend_from_slice(&t.to_be_bytes());
    v.extend_from_slice(&len_field.to_be_bytes());
    v.extend_from_slice(value);
    while v.len() % 4 != 0 {
        v.push(0);
    }
    v
}

/// What the harness-side SCTP speaker knows about the victim.
#[derive(Default, Clone)]
pub struct SctpView {
    pub victim_tag: u32,
    pub victim_cum_ack: u32,
    pub my_tag: u32,
    pub next_tsn: u32,
    pub cookie: Vec<u8>,
    pub got_init: bool,
    pub got_init_ack: bool,
    pub got_cookie_echo: bool,
    pub got_cookie_ack: bool,
    pub hb_acks: Vec<Vec<u8>>,
    pub chunk_types_seen: Vec<u8>,
    pub victim_init_tsn: u32,
    /// SACKs seen from the victim, and how many TSNs the gap blocks of the latest one cover
    pub sacks: u64,
    pub last_sack_gap_tsns: u32,
    pub last_sack_rwnd: u32,
    /// lowest / highest TSN of DATA chunks the victim emitted
    pub data_lo: Option<u32>,
    pub data_hi: Option<u32>,
}

/// Parse what the victim emitted (harness-own reader, tolerant).
pub fn sctp_observe(view: &mut SctpView, pkt: &[u8]) {
    if pkt.len() < 12 {
        return;
    }
    let mut o = 12;
    while o + 4 <= pkt.len() {
        let t = pkt[o];
        let l = u16::from_be_bytes([pkt[o + 2], pkt[o + 3]]) as usize;
        if l < 4 || o + l > pkt.len() {
            break;
        }
        let val = &pkt[o + 4..o + l];
        if !view.chunk_types_seen.contains(&t) {
            view.chunk_types_seen.push(t);
        }
        match t {
            1 | 2 if val.len() >= 16 => {
                view.victim_tag = u32::from_be_bytes([val[0], val[1], val[2], val[3]]);
                view.victim_init_tsn = u32::from_be_bytes([val[12], val[13], val[14], val[15]]);
                if t == 1 {
                    view.got_init = true;
                } else {
                    view.got_init_ack = true;
                    let mut p = 16;
                    while p + 4 <= val.len() {
                        let pt = u16::from_be_bytes([val[p], val[p + 1]]);
                        let pl = u16::from_be_bytes([val[p + 2], val[p + 3]]) as usize;
                        if pl < 4 || p + pl > val.len() {
                            break;
                        }
                        if pt == 7 {
                            view.cookie = val[p + 4..p + pl].to_vec();
                        }
                        p += (pl + 3) & !3;
                    }
                }
            }
            3 if val.len() >= 4 => {
                view.victim_cum_ack = u32::from_be_bytes([val[0], val[1], val[2], val[3]]);
                view.sacks += 1;
                if val.len() >= 12 {
                    view.last_sack_rwnd = u32::from_be_bytes([val[4], val[5], val[6], val[7]]);
                    let ngap = u16::from_be_bytes([val[8], val[9]]) as usize;
                    let mut covered = 0u32;
                    for g in 0..ngap {
                        let o = 12 + 4 * g;
                        if o + 4 > val.len() { break; }
                        let a = u16::from_be_bytes([val[o], val[o + 1]]) as u32;
                        let b = u16::from_be_bytes([val[o + 2], val[o + 3]]) as u32;
                        if b >= a { covered += b - a + 1; }
                    }
                    view.last_sack_gap_tsns = covered;
                }
            }
            0 if val.len() >= 4 => {
                let t = u32::from_be_bytes([val[0], val[1], val[2], val[3]]);
                if view.data_lo.is_none() { view.data_lo = Some(t); }
                view.data_hi = Some(t);
            }
            5 => view.hb_acks.push(val.to_vec()),
            10 => view.got_cookie_echo = true,
            11 => view.got_cookie_ack = true,
            _ => {}
        }
        o += (l + 3) & !3;
    }
}

/// Hostile SCTP packet generator (correct CRC32c and verification tag unless stated otherwise).
pub fn hostile_sctp(view: &SctpView, r: &mut Rng, allow_teardown: bool) -> Vec<u8> {
    let dcep_seeds: Vec<Vec<u8>> = vec![
        rustrtc::transports::datachannel::DataChannelOpen { message_type: 3, channel_type: 0, priority: 0, reliability_parameter: 0, label: "x".into(), protocol: "y".into() }.marshal(),
        vec![2],
        vec![3, 0x82, 0, 0, 0, 0, 0, 9, 0, 1, 0, 0, b'z'],
    ];
    let near = |r: &mut Rng, base: u32| -> u32 {
        match r.below(8) {
            0 => base,
            1 => base.wrapping_add(1),
            2 => base.wrapping_add(2),
            3 => base.wrapping_sub(1),
            4 => base.wrapping_add(0x7fff_ffff),
            5 => base.wrapping_add(0x8000_0000),
            6 => base.wrapping_add(r.range(3, 3000) as u32),
            _ => r.u32(),
        }
    };
    let mut chunks: Vec<u8> = vec![];
    let nchunks = if r.chance(1, 6) { r.range(2, 40) as usize } else { 1 };
    for _ in 0..nchunks {
        let kind = r.below(13);
        let mut ch = match kind {
            0 => {
                // INIT with parameter-walker food
                let mut params = vec![];
                for _ in 0..r.below(5) {
                    let t = *r.pick(&[7u16, 0xC000, 0x8008, 0x8002, 0x8003, 5, 6, 9, 11, 0x8004, 0xffff]);
                    let vl = r.usize_below(24);
                    let val = r.bytes(vl);
                    let lf = match r.below(6) { 0 => 0, 1 => 3, 2 => 4, 3 => 0xffff, 4 => (vl + 5) as u16, _ => (vl + 4) as u16 };
                    params.extend_from_slice(&param(t, lf, &val));
                }
                if r.chance(1, 3) {
                    // unaligned, unpadded final parameter (its padding is not part of the chunk length)
                    let vl = *r.pick(&[1usize, 2, 3, 5, 6, 7]);
                    params.extend_from_slice(&0x8008u16.to_be_bytes());
                    params.extend_from_slice(&((vl + 4) as u16).to_be_bytes());
                    params.extend_from_slice(&r.bytes(vl));
                }
                let tsn = r.u32();
                chunk(1, 0, &init_value(near(r, view.my_tag), *r.pick(&[0u32, 1, 1500, 0xffff_ffff, 131072]), r.u16(), r.u16(), tsn, &params))
            }
            1 => {
                let mut params = vec![];
                if r.chance(2, 3) {
                    let cl = r.usize_below(40);
                    let ck = if r.bool() && !view.cookie.is_empty() { view.cookie.clone() } else { r.bytes(cl) };
                    let lf = match r.below(5) { 0 => 0, 1 => 4, 2 => 0xffff, _ => (ck.len() + 4) as u16 };
                    params.extend_from_slice(&param(7, lf, &ck));
                }
                for _ in 0..r.below(3) {
                    let vl = r.usize_below(12);
                    let val = r.bytes(vl);
                    params.extend_from_slice(&param(r.u16(), *r.pick(&[0u16, 4, 8, 0xffff]), &val));
                }
                if r.chance(1, 2) {
                    // RFC 4960 3.2.1: the chunk length does not count the padding of the LAST
                    // parameter - a consistent, unaligned, unpadded final parameter
                    let vl = *r.pick(&[1usize, 2, 3, 5, 6, 7, 9]);
                    let t = *r.pick(&[0x8008u16, 0x8002, 0xC000, 0x8004, 11, 0x7fff]);
                    params.extend_from_slice(&t.to_be_bytes());
                    params.extend_from_slice(&((vl + 4) as u16).to_be_bytes());
                    params.extend_from_slice(&r.bytes(vl));
                }
                chunk(2, 0, &init_value(r.u32(), r.u32(), r.u16(), r.u16(), r.u32(), &params))
            }
            2 => {
                // COOKIE-ECHO: genuine, truncated, mutated or random cookie
                let ck = match r.below(4) {
                    0 => view.cookie.clone(),
                    1 => view.cookie[..r.usize_below(view.cookie.len() + 1)].to_vec(),
                    2 => mutators::random_mutant(&[view.cookie.clone()], r),
                    _ => { let n = r.usize_below(64); r.bytes(n) }
                };
                chunk(10, 0, &ck)
            }
            3 => { let n = r.usize_below(2) * 4; chunk(11, 0, &r.bytes(n)) }
            4 | 5 => {
                // DATA: DCEP bodies, fragments, tiny / odd lengths
                let flags = *r.pick(&[0u8, 1, 2, 3, 4, 5, 6, 7, 0xff]);
                let ppid = *r.pick(&[50u32, 50, 51, 53, 56, 57, 0, 0xffff_ffff]);
                let payload = match r.below(5) {
                    0 => vec![],
                    1 => mutators::random_mutant(&dcep_seeds, r),
                    2 => r.pick(&dcep_seeds).clone(),
                    3 => { let n = r.usize_below(1200); r.bytes(n) }
                    _ => mutators::random_mutant(&pure::entries().iter().find(|e| e.name == "dcep").map(|e| e.seeds.clone()).unwrap_or_default(), r),
                };
                let tsn = near(r, view.next_tsn);
                let val = data_value(tsn, *r.pick(&[0u16, 1, 2, 7, 1000, 65535]), r.u16() & 7, ppid, &payload);
                match r.below(6) {
                    0 => chunk(0, flags, &val[..r.usize_below(val.len().min(16) + 1)]),
                    1 => chunk_raw(0, flags, *r.pick(&[0u16, 3, 4, 15, 16, 17, 0xffff]), &val),
                    _ => chunk(0, flags, &val),
                }
            }
            6 => {
                // SACK with lying gap / dup counts
                let mut v = Vec::new();
                v.extend_from_slice(&near(r, view.victim_init_tsn).to_be_bytes());
                v.extend_from_slice(&r.pick(&[0u32, 1, 1500, 0xffff_ffff, 262144]).to_be_bytes());
                let ngap = *r.pick(&[0u16, 1, 2, 16, 400, 0xffff]);
                let ndup = *r.pick(&[0u16, 1, 2, 400, 0xffff]);
                v.extend_from_slice(&ngap.to_be_bytes());
                v.extend_from_slice(&ndup.to_be_bytes());
                for _ in 0..r.below(300) {
                    let a = *r.pick(&[0u16, 1, 2, 3, 100, 0x7fff, 0xffff]);
                    let b = *r.pick(&[0u16, 1, 2, 3, 100, 0x7fff, 0xffff]);
                    v.extend_from_slice(&a.to_be_bytes());
                    v.extend_from_slice(&b.to_be_bytes());
                }
                if r.chance(1, 4) { v.truncate(r.usize_below(v.len() + 1)); }
                chunk(3, 0, &v)
            }
            7 => {
                // FORWARD-TSN
                let mut v = near(r, view.next_tsn).to_be_bytes().to_vec();
                for _ in 0..r.below(200) {
                    v.extend_from_slice(&r.u16().to_be_bytes());
                    v.extend_from_slice(&r.u16().to_be_bytes());
                }
                if r.chance(1, 3) { v.truncate(r.usize_below(v.len() + 1)); }
                chunk(192, 0, &v)
            }
            8 => {
                // RECONFIG with outgoing-reset / response / odd params
                let mut v = vec![];
                for _ in 0..r.range(1, 3) {
                    let pt = *r.pick(&[13u16, 14, 15, 16, 17, 18, 0]);
                    let mut pv = Vec::new();
                    pv.extend_from_slice(&r.u32().to_be_bytes());
                    pv.extend_from_slice(&r.u32().to_be_bytes());
                    pv.extend_from_slice(&near(r, view.next_tsn).to_be_bytes());
                    for _ in 0..r.below(60) {
                        pv.extend_from_slice(&r.pick(&[0u16, 1, 2, 65535]).to_be_bytes());
                    }
                    if r.chance(1, 3) { pv.truncate(r.usize_below(pv.len() + 1)); }
                    let lf = match r.below(5) { 0 => 0, 1 => 4, 2 => 0xffff, 3 => (pv.len() + 3) as u16, _ => (pv.len() + 4) as u16 };
                    v.extend_from_slice(&param(pt, lf, &pv));
                }
                chunk(130, 0, &v)
            }
            9 => chunk(4, 0, &{ let n = r.usize_below(64); r.bytes(n) }),
            10 => chunk(5, 0, &{ let n = r.usize_below(64); r.bytes(n) }),
            11 => {
                let t = if allow_teardown { *r.pick(&[6u8, 7, 8, 9, 14, 12, 13, 64, 128, 193, 255]) } else { *r.pick(&[9u8, 12, 13, 64, 128, 193, 255]) };
                chunk(t, r.u8(), &{ let n = r.usize_below(32); r.bytes(n) })
            }
            _ => {
                // chunk header games
                let n = r.usize_below(32);
                let val = r.bytes(n);
                chunk_raw(*r.pick(&[0u8, 1, 2, 3, 10, 130, 192]), r.u8(), *r.pick(&[0u16, 1, 3, 4, 5, 0xffff]), &val)
            }
        };
        if r.chance(1, 20) {
            ch = mutators::random_mutant(&[ch], r);
        }
        chunks.extend_from_slice(&ch);
        if chunks.len() > 1150 {
            break;
        }
    }
    chunks.truncate(1180);
    let vtag = match r.below(10) { 0 => 0, 1 => r.u32(), _ => view.victim_tag };
    let good_crc = !r.chance(1, 30);
    let mut p = sctp_packet(5000, 5000, vtag, &chunks, good_crc);
    if r.chance(1, 25) {
        p.truncate(r.usize_below(p.len() + 1));
    }
    p
}

/// A checksum-valid INIT ACK with the right verification tag whose parameter list ends in shape `k`:
/// consistent length fields throughout; the variants differ in alignment and in whether the padding
/// of the final parameter is inside the chunk length (rustrtc's own style) or not (RFC 4960 3.2.1).
fn crafted_init_ack(view: &SctpView, k: u64) -> Vec<u8> {
    let raw = |t: u16, val: &[u8], pad: bool| -> Vec<u8> {
        let mut v = Vec::new();
        v.extend_from_slice(&t.to_be_bytes());
        v.extend_from_slice(&((val.len() + 4) as u16).to_be_bytes());
        v.extend_from_slice(val);
        if pad {
            while v.len() % 4 != 0 {
                v.push(0);
            }
        }
        v
    };
    let cookie = raw(7, &[0xab; 16], true);
    let mut params = vec![];
    match k % 12 {
        0 => { params.extend(cookie); params.extend(raw(0x8008, &[130, 192], false)); }
        1 => params.extend(raw(0x8008, &[130, 192], false)),
        2 => params.extend(raw(7, &[0xab; 17], false)),
        3 => { params.extend(cookie); params.extend(raw(0xC000, &[1], false)); }
        4 => { params.extend(cookie); params.extend(raw(0x8002, &[1, 2, 3], false)); }
        5 => { params.extend(raw(0x8008, &[130, 192], true)); params.extend(cookie); }
        6 => { params.extend(cookie); params.extend(raw(0x8008, &[130, 192], true)); }
        7 => { params.extend(cookie); params.extend(raw(11, b"host.name", false)); }
        8 => { params.extend(raw(0x8008, &[130], false)); }
        9 => { params.extend(cookie); params.extend(raw(0x8004, &[0x80, 0x08, 0xc0], false)); }
        10 => { params.extend(raw(0xC000, &[], true)); params.extend(raw(7, &[0xcd; 30], false)); }
        _ => { params.extend(cookie); params.extend(raw(0x7fff, &[9; 5], false)); }
    }
    let ia = chunk(2, 0, &init_value(view.my_tag, 131072, 10, 10, view.next_tsn, &params));
    sctp_packet(5000, 5000, view.victim_tag, &ia, true)
}

struct SctpRig {
    rig: Rig,
    sctp: Arc<SctpTransport>,
    dc0: Arc<DataChannel>,
    _channels: Arc<parking_lot::Mutex<Vec<Weak<DataChannel>>>>,
    new_dc_rx: mpsc::UnboundedReceiver<Arc<DataChannel>>,
    view: SctpView,
}

async fn drain_view(s: &mut SctpRig) {
    if let Some(rx) = s.rig.client.rx.as_mut() {
        while let Ok(b) = rx.try_recv() {
            sctp_observe(&mut s.view, &b);
        }
    }
    while let Ok(_dc) = s.new_dc_rx.try_recv() {}
}

async fn sctp_send(s: &SctpRig, pkt: Vec<u8>) {
    let _ = s.rig.client.dtls.send(Bytes::from(pkt)).await;
}

async fn wait_view(s: &mut SctpRig, ms: u64, pred: impl Fn(&SctpView) -> bool) -> bool {
    let t0 = Instant::now();
    loop {
        drain_view(s).await;
        if pred(&s.view) {
            return true;
        }
        if t0.elapsed() > Duration::from_millis(ms) {
            return false;
        }
        tokio::time::sleep(Duration::from_millis(5)).await;
    }
}

/// HEARTBEAT → HEARTBEAT-ACK with the same info: the state-independent genuine stimulus.
async fn sctp_heartbeat_probe(s: &mut SctpRig, n: u64) -> bool {
    for attempt in 0..5u64 {
        let info = format!("c07-hb-{n}-{attempt}-pad").into_bytes();
        let mut val = vec![0, 1];
        val.extend_from_slice(&((info.len() + 4) as u16).to_be_bytes());
        val.extend_from_slice(&info);
        let pkt = sctp_packet(5000, 5000, s.view.victim_tag, &chunk(4, 0, &val), true);
        sctp_send(s, pkt).await;
        let want = val.clone();
        if wait_view(s, 400, |v| v.hb_acks.iter().any(|a| a.starts_with(&want))).await {
            s.view.hb_acks.clear();
            return true;
        }
    }
    false
}


// ------------------------------------------------------------------ SCTP structured floods
//
// Byte-level mutation of valid packets almost never builds a long *consistent* history (hundreds
// of DATA chunks with consecutive TSNs behind one withheld TSN, hundreds of channels, ...), so the
// rarely taken "a bounded structure reached its cap" branches stay unexercised. The floods below
// are such histories, sent through the genuine peer's DTLS with correct CRC and verification
// tag by a sender that ignores a_rwnd. Monitors and verdict rules are those of every other
// campaign: panic, HEARTBEAT → HEARTBEAT-ACK liveness after each flood, heap growth, largest
// single allocation.

/// Send `chunks` packed into packets of at most ~1180 bytes of chunk data.
async fn flood_send(c: &mut Camp, s: &mut SctpRig, vtag: u32, chunks: &[Vec<u8>]) {
    let mut cur: Vec<u8> = Vec::new();
    let mut npk = 0usize;
    let n = chunks.len();
    for (i, ch) in chunks.iter().enumerate() {
        if !cur.is_empty() && cur.len() + ch.len() > 1180 {
            let p = sctp_packet(5000, 5000, vtag, &cur, true);
            c.fed_quiet(&p, npk % 32 == 0);
            sctp_send(s, p).await;
            cur.clear();
            npk += 1;
            // pace: the loopback socket buffer must not overflow (a lost packet only makes
            // the history shorter, never wrong)
            if npk % 4 == 0 { tokio::task::yield_now().await; }
            if npk % 16 == 0 {
                tokio::time::sleep(Duration::from_millis(2)).await;
                drain_view(s).await;
            }
        }
        cur.extend_from_slice(ch);
        if i + 1 == n {
            let p = sctp_packet(5000, 5000, vtag, &cur, true);
            c.fed(&p);
            sctp_send(s, p).await;
        }
    }
    c.count("live.sctp.flood.chunks_sent", n as u64);
    tokio::time::sleep(Duration::from_millis(30)).await;
    drain_view(s).await;
}

/// Elicit a SACK (a DATA chunk at the victim's last known cumulative TSN is a duplicate and is
/// answered at once) and return the victim's cumulative TSN ack.
async fn flood_sync_cum(s: &mut SctpRig) -> Option<u32> {
    for _ in 0..5 {
        drain_view(s).await;
        let before = s.view.sacks;
        let val = data_value(s.view.victim_cum_ack, 1, 0, 51, b"s");
        let tag = s.view.victim_tag;
        sctp_send(s, sctp_packet(5000, 5000, tag, &chunk(0, 0x07, &val), true)).await;
        if wait_view(s, 400, |v| v.sacks > before).await {
            // a second round trip: the first SACK may describe the state before a jump
            let before = s.view.sacks;
            let val = data_value(s.view.victim_cum_ack, 1, 0, 51, b"s");
            sctp_send(s, sctp_packet(5000, 5000, tag, &chunk(0, 0x07, &val), true)).await;
            let _ = wait_view(s, 400, |v| v.sacks > before).await;
            return Some(s.view.victim_cum_ack);
        }
    }
    None
}

/// The HEARTBEAT probe failed: did the association report an end (clean, accepted), or does it
/// claim to be alive (unresponsive)? The accessors take association locks, so they run on a
/// blocking thread with a bound: a dead-locked association must never block the driver.
async fn sctp_silent_end(c: &mut Camp, s: &SctpRig, what: &str) -> End {
    let sctp = s.sctp.clone();
    let reason = tokio::time::timeout(Duration::from_secs(3), tokio::task::spawn_blocking(move || sctp.close_reason())).await;
    let sctp = s.sctp.clone();
    let info = tokio::time::timeout(Duration::from_secs(3), tokio::task::spawn_blocking(move || sctp.diagnostic_info())).await;
    let info = match info { Ok(Ok(i)) => i, _ => "(diagnostic_info did not return)".to_string() };
    let ds = state_name(&s.rig.server.dtls.get_state());
    let reason = match reason { Ok(Ok(r)) => r, _ => None };
    if reason.is_none() && ds == "Connected" && c.canary_ok(Duration::from_millis(200)).await {
        // (DTLS below is still Connected: this is SCTP's silence)
        End::Unresponsive(format!("HEARTBEAT unanswered 5x after {what}, close_reason=None, DTLS Connected, info={info}"))
    } else {
        End::CleanEnd(format!("close_reason={reason:?} dtls={ds} after {what}"))
    }
}

/// Liveness after a flood; `Some(end)` stops the campaign.
async fn flood_probe(c: &mut Camp, s: &mut SctpRig, probes: &mut u64, what: &str) -> Option<End> {
    *probes += 1;
    if sctp_heartbeat_probe(s, 1000 + *probes).await {
        c.count("live.sctp.flood.heartbeat_probes_ok", 1);
        return None;
    }
    Some(sctp_silent_end(c, s, &format!("flood '{what}'")).await)
}

async fn drain_dc(dc: &Arc<DataChannel>) -> u64 {
    use futures::FutureExt;
    let mut n = 0;
    while let Some(Some(_)) = dc.recv().now_or_never() {
        n += 1;
        if n > 100_000 { break; }
    }
    n
}

/// One structured flood against an association in the state the campaign reached.
async fn sctp_flood(c: &mut Camp, s: &mut SctpRig, kind: &str, n: usize) -> End {
    let mut probes = 0u64;
    macro_rules! probe { ($what:expr) => { if let Some(e) = flood_probe(c, s, &mut probes, $what).await { return e; } }; }
    macro_rules! sync { () => { match flood_sync_cum(s).await { Some(x) => x, None => {
        // no SACK for a DATA chunk: decide through the liveness probe whether that is a hang
        probe!("tsn-sync");
        return End::Inconclusive("victim answers HEARTBEAT but sent no SACK for a DATA chunk".into());
    } } }; }
    match kind {
        "ooo_data" => {
            // (i) n DATA chunks with consecutive TSNs behind ONE withheld TSN: the out-of-order
            // queue is driven to and past whatever cap it has; then the hole is filled.
            // (payload bytes, flags, number of streams, ordered SSNs)
            let variants: [(usize, u8, u16, &str); 6] = [
                (1, 0x07, 1, "1B unordered, one stream"),
                (1, 0x03, 300, "1B ordered, 300 streams"),
                (100, 0x07, 1, "100B unordered, stream 0"),
                (1000, 0x03, 1, "1000B ordered, stream 0"),
                (16, 0x02, 1, "B-fragments that never end"),
                (16, 0x00, 7, "middle fragments, 7 streams"),
            ];
            for (vi, (plen, flags, nstreams, label)) in variants.iter().enumerate() {
                let cum = sync!();
                let hole = cum.wrapping_add(1);
                let count = n + 16 * vi;
                let mut chunks = vec![];
                for i in 0..count {
                    let tsn = hole.wrapping_add(1 + i as u32);
                    let sid = if *nstreams == 1 { if *plen >= 100 { 0 } else { 1 } } else { 1 + (i as u16 % *nstreams) };
                    let ssn = (i as u16) / *nstreams;
                    chunks.push(chunk(0, *flags, &data_value(tsn, sid, ssn, 51, &vec![b'x'; *plen])));
                }
                let tag = s.view.victim_tag;
                flood_send(c, s, tag, &chunks).await;
                let stored = s.view.last_sack_gap_tsns;
                c.seen("live.sctp.flood.ooo_queue_depth_reported_by_sack", format!("{label}: sent {count}, gap blocks cover {stored}, a_rwnd {}", s.view.last_sack_rwnd));
                if stored > 512 { c.count("live.sctp.flood.ooo_variants_past_512", 1); }
                probe!(label);
                // fill the hole: everything queued is delivered in one go
                let val = data_value(hole, 1, 0, 51, b"h");
                sctp_send(s, sctp_packet(5000, 5000, tag, &chunk(0, 0x07, &val), true)).await;
                tokio::time::sleep(Duration::from_millis(30)).await;
                probe!("hole filled");
                let _ = drain_dc(&s.dc0).await;
            }
            // ordered messages with consecutive TSNs (in order) but a withheld SSN: the
            // per-stream reordering buffer is what fills up
            let cum = sync!();
            let mut chunks = vec![];
            for i in 0..n {
                chunks.push(chunk(0, 0x03, &data_value(cum.wrapping_add(1 + i as u32), 0, 0x4001u16.wrapping_add(i as u16), 51, b"ssn-gap")));
            }
            let tag = s.view.victim_tag;
            flood_send(c, s, tag, &chunks).await;
            probe!("withheld SSN");
            let _ = drain_dc(&s.dc0).await;
        }
        "dup_tsn" => {
            // (ii) the same TSN thousands of times: at / below the cumulative ack, and a queued one
            let cum = sync!();
            let tag = s.view.victim_tag;
            let mut chunks = vec![];
            for i in 0..n * 3 {
                let tsn = match i % 3 { 0 => cum, 1 => cum.wrapping_sub(1 + (i as u32 % 50)), _ => cum.wrapping_add(5) };
                chunks.push(chunk(0, 0x07, &data_value(tsn, 1, 0, 51, b"dup")));
            }
            flood_send(c, s, tag, &chunks).await;
            probe!("duplicate TSNs");
            // a packet full of duplicates of ONE chunk, repeated
            let one = chunk(0, 0x07, &data_value(cum.wrapping_add(9), 1, 0, 51, b"dup"));
            let chunks: Vec<Vec<u8>> = (0..n * 2).map(|_| one.clone()).collect();
            flood_send(c, s, tag, &chunks).await;
            probe!("one chunk repeated");
        }
        "sack" => {
            // (iii) the victim has data in flight; SACKs with hundreds of gap blocks, wild
            // cumulative acks and duplicate lists
            for i in 0..40u32 {
                let sctp = s.sctp.clone();
                tokio::spawn(async move {
                    let _ = tokio::time::timeout(Duration::from_secs(5), sctp.send_data(0, format!("in-flight-{i}").as_bytes())).await;
                });
            }
            let _ = wait_view(s, 1500, |v| v.data_hi.is_some()).await;
            tokio::time::sleep(Duration::from_millis(50)).await;
            drain_view(s).await;
            let lo = s.view.data_lo.unwrap_or(s.view.victim_init_tsn);
            let hi = s.view.data_hi.unwrap_or(lo);
            c.seen("live.sctp.flood.victim_tsns_in_flight", format!("{}", hi.wrapping_sub(lo).wrapping_add(1)));
            let tag = s.view.victim_tag;
            let mut chunks = vec![];
            for i in 0..n {
                let cumack = match c.rng.below(10) {
                    0..=3 => lo.wrapping_sub(1),
                    4 => lo.wrapping_sub(1 + c.rng.range(1, 100_000) as u32),
                    5 => lo.wrapping_add(c.rng.below(hi.wrapping_sub(lo) as u64 + 1) as u32),
                    6 => hi.wrapping_add(c.rng.range(1, 100_000) as u32),
                    7 => lo.wrapping_add(0x7fff_ffff),
                    8 => lo.wrapping_add(0x8000_0000),
                    _ => c.rng.u32(),
                };
                let nblocks = *c.rng.pick(&[1usize, 16, 100, 280, 280]);
                let ndups = if c.rng.chance(1, 4) { c.rng.usize_below(200) } else { 0 };
                let nblocks = nblocks.min((1160 - 4 * ndups.min(200)) / 4);
                let mut v = Vec::new();
                v.extend_from_slice(&cumack.to_be_bytes());
                v.extend_from_slice(&c.rng.pick(&[0u32, 1, 1500, 131072, 0xffff_ffff]).to_be_bytes());
                let lie = c.rng.chance(1, 8);
                v.extend_from_slice(&(if lie { 0xffffu16 } else { nblocks as u16 }).to_be_bytes());
                v.extend_from_slice(&(if lie { 0xffffu16 } else { ndups as u16 }).to_be_bytes());
                let pattern = i % 6;
                for b in 0..nblocks as u32 {
                    let (a, e): (u32, u32) = match pattern {
                        0 => (2 + 2 * b, 2 + 2 * b),             // every other TSN
                        1 => (2 + b, 0xffff),                    // nested, all reaching the end
                        2 => (0xffff - b, 1 + b),                // inverted
                        3 => (1, 1 + b),                         // all overlapping from 1
                        4 => (c.rng.u16() as u32, c.rng.u16() as u32),
                        _ => (2 + 3 * b, 3 + 3 * b),
                    };
                    v.extend_from_slice(&(a as u16).to_be_bytes());
                    v.extend_from_slice(&(e as u16).to_be_bytes());
                }
                for _ in 0..ndups {
                    v.extend_from_slice(&lo.wrapping_add(c.rng.below(64) as u32).to_be_bytes());
                }
                chunks.push(chunk(3, 0, &v));
            }
            flood_send(c, s, tag, &chunks).await;
            probe!("SACK flood");
        }
        "fwd_tsn" => {
            // (iv) FORWARD-TSN with hundreds of stream entries; small steps over a filled
            // out-of-order queue, then far ahead
            let cum = sync!();
            let tag = s.view.victim_tag;
            let hole = cum.wrapping_add(1);
            let mut chunks = vec![];
            for i in 0..300u32 {
                chunks.push(chunk(0, 0x03, &data_value(hole.wrapping_add(1 + 2 * i), 1 + (i % 280) as u16, (i / 280) as u16 + 1, 51, b"fwd")));
            }
            flood_send(c, s, tag, &chunks).await;
            let entries = |k: u32, ssn: u16| -> Vec<u8> {
                let mut v = vec![];
                for sid in 0..k { v.extend_from_slice(&(sid as u16).to_be_bytes()); v.extend_from_slice(&ssn.to_be_bytes()); }
                v
            };
            let mut chunks = vec![];
            for step in 0..n as u32 {
                let mut v = hole.wrapping_add(step).to_be_bytes().to_vec();
                v.extend_from_slice(&entries(*c.rng.pick(&[0u32, 1, 280, 290]), *c.rng.pick(&[0u16, 1, 2, 0x7fff, 0x8000, 0xffff])));
                chunks.push(chunk(192, 0, &v));
            }
            flood_send(c, s, tag, &chunks).await;
            probe!("FORWARD-TSN steps");
            for ahead in [1000u32, 100_000, 0x7fff_fff0, 0x7fff_ffff, 0x8000_0000, 0xffff_ffff] {
                let cum = sync!();
                let mut v = cum.wrapping_add(ahead).to_be_bytes().to_vec();
                v.extend_from_slice(&entries(290, (ahead & 0xffff) as u16));
                let tag = s.view.victim_tag;
                flood_send(c, s, tag, &[chunk(192, 0, &v)]).await;
                probe!("FORWARD-TSN far ahead");
            }
        }
        "init_cookie" => {
            // (v) INIT flood (distinct tags, parameter lists of every size), then COOKIE-ECHO
            // flood (the genuine cookie replayed, stale cookies, random ones)
            let mut chunks = vec![];
            for i in 0..n as u32 {
                let mut params = vec![];
                let np = match i % 5 { 0 => 0, 1 => 1, 2 => 8, 3 => 120, _ => 280 };
                for k in 0..np {
                    match (i + k) % 4 {
                        0 => params.extend_from_slice(&param(0xC000, 4, &[])),
                        1 => params.extend_from_slice(&param(0x8008, 4 + 3, &[0xC0, 0x82, 0x0F])),
                        2 => params.extend_from_slice(&param(0x8000 | (k as u16 & 0xff), 4, &[])),
                        _ => params.extend_from_slice(&param(0xC000 | (k as u16 & 0xff), 8, &[1, 2, 3, 4])),
                    }
                    if params.len() > 1100 { break; }
                }
                let v = init_value(0x5000_0000 + i, *c.rng.pick(&[0u32, 1500, 131072, 0xffff_ffff]), 10, 10, c.rng.u32(), &params);
                chunks.push(chunk(1, 0, &v));
            }
            // one INIT per packet (an INIT must be alone in its packet)
            for (i, ch) in chunks.iter().enumerate() {
                let p = sctp_packet(5000, 5000, 0, ch, true);
                c.fed_quiet(&p, i % 64 == 0);
                sctp_send(s, p).await;
                if i % 8 == 7 { tokio::time::sleep(Duration::from_millis(1)).await; drain_view(s).await; }
            }
            c.count("live.sctp.flood.chunks_sent", chunks.len() as u64);
            tokio::time::sleep(Duration::from_millis(200)).await;
            drain_view(s).await;
            probe!("INIT flood");
            let genuine = s.view.cookie.clone();
            for i in 0..n {
                let ck = match i % 4 {
                    0 => genuine.clone(),
                    1 => { let mut k = genuine.clone(); if let Some(b) = k.last_mut() { *b ^= 1; } k }
                    2 => { let l = c.rng.usize_below(1100); c.rng.bytes(l) }
                    _ => genuine[..genuine.len().min(i % 64)].to_vec(),
                };
                let p = sctp_packet(5000, 5000, s.view.victim_tag, &chunk(10, 0, &ck), true);
                c.fed_quiet(&p, i % 64 == 0);
                sctp_send(s, p).await;
                if i % 8 == 7 { tokio::time::sleep(Duration::from_millis(1)).await; drain_view(s).await; }
            }
            c.count("live.sctp.flood.chunks_sent", n as u64);
            tokio::time::sleep(Duration::from_millis(200)).await;
            drain_view(s).await;
            probe!("COOKIE-ECHO flood");
        }
        "dcep_open" => {
            // (vi) DCEP OPEN on hundreds of stream ids (in-order TSNs), then one id over and over
            let cum = sync!();
            let tag = s.view.victim_tag;
            let mut chunks = vec![];
            for i in 0..n as u32 {
                let sid = if i < (n as u32 * 2) / 3 { 1 + i as u16 } else { 7 };
                let open = rustrtc::transports::datachannel::DataChannelOpen {
                    message_type: 3,
                    channel_type: *c.rng.pick(&[0u8, 1, 2, 0x80, 0x81, 0x82]),
                    priority: 0,
                    reliability_parameter: c.rng.u32(),
                    label: format!("flood-{i}"),
                    protocol: if i % 50 == 0 { "p".repeat(900) } else { String::new() },
                }.marshal();
                let flags = if i % 2 == 0 { 0x03 } else { 0x07 };
                chunks.push(chunk(0, flags, &data_value(cum.wrapping_add(1 + i), sid, 0, 50, &open)));
            }
            flood_send(c, s, tag, &chunks).await;
            tokio::time::sleep(Duration::from_millis(100)).await;
            drain_view(s).await;
            c.seen("live.sctp.flood.victim_cum_ack_advance_after_opens", format!("{}", s.view.victim_cum_ack.wrapping_sub(cum)));
            probe!("DCEP OPEN flood");
        }
        other => return End::Inconclusive(format!("unknown flood kind {other}")),
    }
    End::Live
}

fn sctp_body(mut c: Camp) -> Pin<Box<dyn Future<Output = (Camp, End)> + Send>> {
    Box::pin(async move {
        let state = c.scenario["state"].as_str().unwrap_or("established").to_string();
        let n = c.scenario["n"].as_u64().unwrap_or(500) as usize;
        let victim_is_client = state == "cookie_wait" || state == "cookie_echoed" || state == "established_client";
        let mut rig = match build_rig(Mode::Forward, Mode::Forward).await {
            Ok(r) => r,
            Err(e) => return (c, End::Inconclusive(e)),
        };
        if let Some(r) = rig.server.runner.lock().take() { tokio::spawn(r); }
        if let Some(r) = rig.client.runner.lock().take() { tokio::spawn(r); }
        let (a, b) = wait_settled(&rig.client.dtls, &rig.server.dtls, Duration::from_secs(20)).await;
        if a != "Connected" || b != "Connected" {
            return (c, End::Inconclusive(format!("DTLS set-up ended {a}/{b}")));
        }
        let mut cfg = rustrtc::RtcConfiguration::default();
        cfg.sctp_heartbeat_interval = Duration::from_secs(3600);
        cfg.sctp_rto_initial = Duration::from_millis(300);
        cfg.sctp_rto_min = Duration::from_millis(100);
        cfg.sctp_rto_max = Duration::from_millis(1000);
        let channels = Arc::new(parking_lot::Mutex::new(Vec::<Weak<DataChannel>>::new()));
        let dc0 = Arc::new(DataChannel::new(0, DataChannelConfig { label: "probe".into(), ordered: true, negotiated: Some(0), ..Default::default() }));
        channels.lock().push(Arc::downgrade(&dc0));
        let (ndtx, ndrx) = mpsc::unbounded_channel();
        let Some(srx) = rig.server.rx.take() else { return (c, End::Inconclusive("no rx".into())) };
        let (sctp, runner) = SctpTransport::new(rig.server.dtls.clone(), srx, channels.clone(), 5000, 5000, Some(ndtx), victim_is_client, &cfg);
        tokio::spawn(runner);
        let mut s = SctpRig { rig, sctp, dc0, _channels: channels, new_dc_rx: ndrx, view: SctpView::default() };
        s.view.my_tag = 0x1357_9bdf;
        s.view.next_tsn = 1000;
        c.rebaseline();
        // bring the victim into the requested state with a genuine exchange
        let reached: Result<(), String> = async {
            if victim_is_client {
                if !wait_view(&mut s, 3000, |v| v.got_init).await { return Err("victim sent no INIT".into()); }
                if state == "cookie_wait" { return Ok(()); }
                let ia = chunk(2, 0, &init_value(s.view.my_tag, 131072, 10, 10, s.view.next_tsn, &param(7, 4 + 16, &[0xab; 16])));
                sctp_send(&s, sctp_packet(5000, 5000, s.view.victim_tag, &ia, true)).await;
                if !wait_view(&mut s, 3000, |v| v.got_cookie_echo).await { return Err("victim sent no COOKIE-ECHO".into()); }
                if state == "cookie_echoed" { return Ok(()); }
                sctp_send(&s, sctp_packet(5000, 5000, s.view.victim_tag, &chunk(11, 0, &[]), true)).await;
                Ok(())
            } else {
                if state == "closed" { return Ok(()); }
                let init = chunk(1, 0, &init_value(s.view.my_tag, 131072, 10, 10, s.view.next_tsn, &param(0xC000, 4, &[])));
                sctp_send(&s, sctp_packet(5000, 5000, 0, &init, true)).await;
                if !wait_view(&mut s, 3000, |v| v.got_init_ack && !v.cookie.is_empty()).await { return Err("no INIT-ACK".into()); }
                if state == "cookie_pending" { return Ok(()); }
                let ce = chunk(10, 0, &s.view.cookie.clone());
                sctp_send(&s, sctp_packet(5000, 5000, s.view.victim_tag, &ce, true)).await;
                if !wait_view(&mut s, 3000, |v| v.got_cookie_ack).await { return Err("no COOKIE-ACK".into()); }
                if state == "closing" {
                    s.sctp.close();
                    tokio::time::sleep(Duration::from_millis(30)).await;
                }
                Ok(())
            }
        }.await;
        if let Err(e) = reached {
            return (c, End::Inconclusive(format!("could not reach SCTP state {state}: {e}")));
        }
        let teardown = c.scenario["teardown"].as_bool().unwrap_or(false);
        let mut end = End::Live;
        let mut probes = 0;
        let mut data_ok = 0u64;
        let flood = c.scenario["flood"].as_str().map(|x| x.to_string());
        if let Some(kind) = &flood {
            drain_view(&mut s).await;
            // (before the first INIT the victim knows no peer tag and cannot answer a HEARTBEAT)
            if state != "closed" && !sctp_heartbeat_probe(&mut s, 999).await {
                return (c, End::Inconclusive("baseline HEARTBEAT probe failed before the flood".into()));
            }
            end = sctp_flood(&mut c, &mut s, kind, n).await;
            c.count(&format!("live.sctp.flood.campaigns[{kind}]"), 1);
        }
        for i in 0..(if flood.is_some() { 0 } else { n }) {
            // cookie_wait: only the FIRST INIT ACK a client sees is walked (it cancels T1), so the
            // parameter-walker shapes get one fresh association each
            let crafted = if i == 0 { c.scenario["first_init_ack"].as_u64().map(|k| crafted_init_ack(&s.view, k)) } else { None };
            if crafted.is_some() {
                c.seen("live.sctp.first_init_ack_variants", format!("{}", c.scenario["first_init_ack"]));
            }
            let p = match crafted {
                Some(p) => p,
                None => hostile_sctp(&s.view, &mut c.rng, teardown),
            };
            c.fed(&p);
            sctp_send(&s, p).await;
            if i % 16 == 15 { drain_view(&mut s).await; }
            if i % 100 == 99 {
                if state == "closing" { continue; }
                probes += 1;
                if !sctp_heartbeat_probe(&mut s, probes).await {
                    end = sctp_silent_end(&mut c, &s, &format!("{} inputs", i + 1)).await;
                    break;
                }
                // secondary observation (not a verdict): an unordered message on the negotiated
                // channel right after the victim's cumulative ack is delivered
                if state.starts_with("established") {
                    let probe_tsn = s.view.victim_cum_ack.wrapping_add(1);
                    let val = data_value(probe_tsn, 0, 0, 51, b"c07-data-probe");
                    sctp_send(&s, sctp_packet(5000, 5000, s.view.victim_tag, &chunk(0, 0x07, &val), true)).await;
                    if let Ok(Some(DataChannelEvent::Message(_))) = tokio::time::timeout(Duration::from_millis(150), s.dc0.recv()).await {
                        data_ok += 1;
                    }
                }
            }
        }
        drain_view(&mut s).await;
        c.count("live.sctp.heartbeat_probes_ok", probes);
        c.count("live.sctp.data_probes_delivered", data_ok);
        for t in &s.view.chunk_types_seen {
            c.seen("live.sctp.victim_chunk_types_emitted", format!("{state}:{t}"));
        }
        heap_verdict(&mut c, "sctp");
        // close() takes an association lock: fire and forget, a dead-locked association must
        // not block the driver
        let sctp = s.sctp.clone();
        tokio::task::spawn_blocking(move || sctp.close());
        s.rig.client.dtls.close();
        s.rig.server.dtls.close();
        (c, end)
    })
}

// ------------------------------------------------------------------ stage driver

fn specs(args: &Args) -> Vec<Spec> {
    let q = args.tier == Tier::Quick;
    let mut v = vec![];
    let mut salt = 0u64;
    let seed = args.seed;
    let mut push = |target: &'static str, body: Body, mut sc: Value| {
        salt += 1;
        sc["stage"] = json!("live");
        sc["target"] = json!(target);
        sc["salt"] = json!(salt);
        sc["seed"] = json!(seed);
        v.push(Spec { target, scenario: sc, body });
    };
    let nd = if q { 3000 } else { 20000 };
    for victim in ["server", "client"] {
        push("dtls", dtls_body, json!({"state":"pre","victim":victim,"n":nd}));
        for k in if q { vec![1usize, 2] } else { vec![1usize, 2, 3, 4] } {
            push("dtls", dtls_body, json!({"state":"mid","victim":victim,"k":k,"n":nd}));
        }
        push("dtls", dtls_body, json!({"state":"pre","victim":victim,"n":nd,"gentle":true}));
        push("dtls", dtls_body, json!({"state":"mid","victim":victim,"k":2,"n":nd,"gentle":true}));
        push("dtls", dtls_body, json!({"state":"established","victim":victim,"n":nd}));
        push("dtls", dtls_body, json!({"state":"established","victim":victim,"n":nd/2,"alerts":true}));
        push("dtls", dtls_body, json!({"state":"closing","victim":victim,"n":nd/2,"alerts":true}));
        push("dtls", dtls_body, json!({"state":"seqflood","victim":victim,"n":1311}));
        push("dtls", dtls_body, json!({"state":"hello_ext","victim":victim,"n":0}));
        push("dtls", dtls_body, json!({"state":"pre","victim":victim,"n":nd,"flood":"fragments"}));
        push("dtls", dtls_body, json!({"state":"mid","victim":victim,"k":1,"n":nd,"flood":"fragments"}));
    }
    let ns = if q { 6000 } else { 40000 };
    for st in ["closed", "cookie_pending", "established", "established", "cookie_wait", "cookie_echoed", "established_client", "closing"] {
        push("sctp", sctp_body, json!({"state":st,"n":ns}));
    }
    push("sctp", sctp_body, json!({"state":"established","n":ns/2,"teardown":true}));
    for k in 0..12u64 {
        push("sctp", sctp_body, json!({"state":"cookie_wait","n":24,"first_init_ack":k}));
    }
    // structured floods (histories that reach the caps of bounded structures)
    let nf = if q { 640 } else { 3000 };
    for kind in ["ooo_data", "dup_tsn", "sack", "fwd_tsn", "init_cookie", "dcep_open"] {
        push("sctp", sctp_body, json!({"state":"established","flood":kind,"n":nf}));
    }
    push("sctp", sctp_body, json!({"state":"closed","flood":"init_cookie","n":nf}));
    push("sctp", sctp_body, json!({"state":"established_client","flood":"ooo_data","n":nf}));
    super::totality_live2::more_specs(args, &mut push);
    v
}

pub fn stage2(args: &Args, report: &mut Report) {
    LIVE_MODE.store(true, Ordering::SeqCst);
    LIVE_PANICS.lock().clear();
    if let Some(k) = args.opt("--single-alloc-slack-kib").and_then(|x| x.parse::<usize>().ok()) {
        SINGLE_ALLOC_SLACK_OVERRIDE.store(k.max(1) << 10, Ordering::Relaxed);
    }
    let specs = specs(args);
    let only = args.opt("--target");
    let specs: Vec<Spec> = specs.into_iter().filter(|s| only.as_deref().map(|o| o == s.target).unwrap_or(true)).collect();
    let outs = run_specs(args, specs);
    for o in outs {
        fold(report, o);
    }
    LIVE_MODE.store(false, Ordering::SeqCst);
}

fn run_specs(args: &Args, specs: Vec<Spec>) -> Vec<Out> {
    let specs = Arc::new(specs);
    let next = Arc::new(std::sync::atomic::AtomicUsize::new(0));
    let par = 10usize.min(specs.len().max(1));
    let (tx, rx) = std::sync::mpsc::channel::<(usize, Out)>();
    let mut hs = vec![];
    for _ in 0..par {
        let specs = specs.clone();
        let next = next.clone();
        let tx = tx.clone();
        let tier = args.tier;
        let seed = args.seed;
        hs.push(std::thread::spawn(move || loop {
            let i = next.fetch_add(1, Ordering::SeqCst);
            if i >= specs.len() {
                break;
            }
            let id = 1 + (i % (alloc_count::NTAGS - 1));
            // thread name carries the campaign id (the driver thread itself may panic)
            let spec = &specs[i];
            let out = std::thread::Builder::new()
                .name(format!("c07L{id}-driver"))
                .spawn({
                    let specs = specs.clone();
                    move || run_one_campaign(id, tier, seed, &specs[i])
                })
                .ok()
                .and_then(|h| h.join().ok());
            let out = out.unwrap_or(Out {
                scenario: spec.scenario.clone(),
                nontrivial: false,
                verdict: Verdict::Inconclusive("campaign thread died".into()),
                more_violations: vec![],
                counters: BTreeMap::new(),
                seen: vec![],
            });
            let _ = tx.send((i, out));
        }));
    }
    drop(tx);
    let mut outs: Vec<(usize, Out)> = rx.iter().collect();
    for h in hs {
        let _ = h.join();
    }
    outs.sort_by_key(|(i, _)| *i);
    outs.into_iter().map(|(_, o)| o).collect()
}

fn fold(report: &mut Report, o: Out) {
    for (k, v) in &o.counters {
        if k.ends_with("_max") {
            let e = report.counters.entry(k.clone()).or_insert(0);
            *e = (*e).max(*v);
        } else {
            report.count(k, *v);
        }
    }
    for (s, i) in &o.seen {
        report.seen(s, i.clone());
    }
    report.count("live.campaigns", 1);
    let mut norm = o.scenario.clone();
    if let Some(m) = norm.as_object_mut() {
        m.remove("observed");
    }
    let h = if o.nontrivial { Some(hash_value(&norm)) } else { None };
    report.sample(o.scenario.clone());
    for (k, w, wit) in &o.more_violations {
        report.violation(&o.scenario, k, w, wit.clone());
    }
    report.record(&o.scenario, h, o.verdict);
}

pub fn replay(args: &Args, report: &mut Report, sc: &Value) {
    LIVE_MODE.store(true, Ordering::SeqCst);
    let target = sc["target"].as_str().unwrap_or("").to_string();
    let all = specs(args);
    let Some(proto) = all.into_iter().find(|s| s.target == target) else {
        report.record(sc, None, Verdict::Inconclusive(format!("unknown live target {target}")));
        return;
    };
    // up to 5 attempts: rustrtc's own randomness (keys, tags) and the scheduler are not seedable
    for attempt in 0..5 {
        let mut sc2 = sc.clone();
        if let Some(m) = sc2.as_object_mut() {
            m.remove("observed");
        }
        let spec = Spec { target: proto.target, scenario: sc2, body: proto.body };
        let mut outs = run_specs(args, vec![spec]);
        let Some(o) = outs.pop() else { continue };
        let viol = o.verdict.is_violated();
        if viol || attempt == 4 {
            fold(report, o);
            break;
        }
    }
    LIVE_MODE.store(false, Ordering::SeqCst);
}
