//! C07 stage 2, target (6): a hostile in-harness TURN server (UDP and TCP). It answers Allocate
//! (optionally after a 401 challenge) and every later request with a success response, then
//! sends the client Data indications with empty / short DATA, ChannelData with lying lengths,
//! mutated STUN and – over TCP, which is framed as RFC 5766 prescribes (STUN messages
//! self-framed back to back, ChannelData padded to 4, no extra length prefix) – messages whose
//! declared length exceeds the client's 1500-byte buffer, truncated messages and unpadded
//! ChannelData. Liveness stimulus: a Data indication carrying a genuine Binding request from a
//! "peer"; the normal reaction is a Binding success response relayed back through the server
//! (Send indication or ChannelData) with the same transaction id.

use super::totality_live::{Body, Camp, End, heap_verdict};
use super::totality_live2::{IceCreds, stun_binding_request};
use super::totality_mut as mutators;
use super::totality_pure as pure;
use crate::common::*;
use rustrtc::transports::ice::IceParameters;
use rustrtc::{IceRole, IceServer, IceTransport, RtcConfiguration};
use serde_json::{Value, json};
use std::future::Future;
use std::net::SocketAddr;
use std::pin::Pin;
use std::sync::Arc;
use std::time::{Duration, Instant};
use tokio::io::{AsyncReadExt, AsyncWriteExt};
use tokio::net::{TcpListener, UdpSocket};
use tokio::sync::mpsc;

const COOKIE: [u8; 4] = [0x21, 0x12, 0xa4, 0x42];

fn attr(t: u16, v: &[u8]) -> Vec<u8> {
    let mut o = Vec::new();
    o.extend_from_slice(&t.to_be_bytes());
    o.extend_from_slice(&(v.len() as u16).to_be_bytes());
    o.extend_from_slice(v);
    while o.len() % 4 != 0 {
        o.push(0);
    }
    o
}

fn xor_addr(a: SocketAddr) -> Vec<u8> {
    let mut v = vec![0u8, 1];
    v.extend_from_slice(&(a.port() ^ 0x2112).to_be_bytes());
    if let std::net::IpAddr::V4(ip) = a.ip() {
        for (i, b) in ip.octets().iter().enumerate() {
            v.push(b ^ COOKIE[i]);
        }
    } else {
        v.extend_from_slice(&[0; 4]);
    }
    v
}

fn stun(msg_type: u16, tid: &[u8], attrs: &[u8]) -> Vec<u8> {
    let mut v = Vec::new();
    v.extend_from_slice(&msg_type.to_be_bytes());
    v.extend_from_slice(&(attrs.len() as u16).to_be_bytes());
    v.extend_from_slice(&COOKIE);
    v.extend_from_slice(tid);
    v.extend_from_slice(attrs);
    v
}

/// The server's answer to a client request (None: not a request we answer).
fn answer(req: &[u8], relayed: SocketAddr, client: SocketAddr, challenged: &mut bool, challenge: bool) -> Option<Vec<u8>> {
    if req.len() < 20 || req[0] & 0xc0 != 0 {
        return None;
    }
    let t = u16::from_be_bytes([req[0], req[1]]);
    if t & 0x0110 != 0 {
        return None; // not a request
    }
    let tid = &req[8..20];
    let method = t & 0x3eef;
    match method {
        0x003 => {
            if challenge && !*challenged {
                *challenged = true;
                let mut a = attr(0x0009, &[0, 0, 4, 1, b'U', b'n', b'a', b'u']);
                a.extend(attr(0x0014, b"c07realm"));
                a.extend(attr(0x0015, b"c07nonce"));
                return Some(stun(0x0113, tid, &a));
            }
            let mut a = attr(0x0016, &xor_addr(relayed));
            a.extend(attr(0x0020, &xor_addr(client)));
            a.extend(attr(0x000d, &600u32.to_be_bytes()));
            Some(stun(0x0103, tid, &a))
        }
        0x001 => Some(stun(0x0101, tid, &attr(0x0020, &xor_addr(client)))),
        _ => Some(stun(t | 0x0100, tid, &attr(0x000d, &600u32.to_be_bytes()))),
    }
}

fn data_indication(peer: SocketAddr, data: Option<&[u8]>) -> Vec<u8> {
    let mut a = attr(0x0012, &xor_addr(peer));
    if let Some(d) = data {
        a.extend(attr(0x0013, d));
    }
    stun(0x0017, &[0x5a; 12], &a)
}

/// Hostile server → client message.
fn hostile_turn(seeds: &[Vec<u8>], peer: SocketAddr, r: &mut Rng) -> Vec<u8> {
    let mut v = match r.below(12) {
        0 => data_indication(peer, Some(&[])),
        1 => data_indication(peer, None),
        2 => {
            let n = r.usize_below(4);
            data_indication(peer, Some(&r.bytes(n)))
        }
        3 => {
            // Data indication whose DATA is a mutated STUN / RTP / DTLS packet
            let d = mutators::random_mutant(seeds, r);
            data_indication(peer, Some(&d[..d.len().min(1200)]))
        }
        4 | 5 => {
            // ChannelData with honest and lying lengths
            let n = r.usize_below(40);
            let mut v = (*r.pick(&[0x4000u16, 0x4001, 0x7fff, 0x4fff])).to_be_bytes().to_vec();
            v.extend_from_slice(&r.pick(&[0u16, 1, n as u16, (n + 1) as u16, 0xffff]).to_be_bytes());
            v.extend_from_slice(&r.bytes(n));
            v
        }
        6 => mutators::random_mutant(&[data_indication(peer, Some(&[1, 2, 3, 4]))], r),
        7 => mutators::plain_random(seeds, r),
        8 => {
            // truncated XOR-PEER-ADDRESS / odd families
            let mut a = attr(0x0012, &[0, *r.pick(&[0u8, 1, 2, 3]), 1, 2]);
            a.extend(attr(0x0013, &[]));
            stun(0x0017, &[1; 12], &a)
        }
        _ => mutators::random_mutant(seeds, r),
    };
    v.truncate(60000);
    v
}

/// Genuine stimulus: a Binding request that passes the agent's USERNAME / MESSAGE-INTEGRITY
/// gate (C06 fix), built with rustrtc's own encoder from the agent's local ICE parameters.
fn probe_request(n: u64, creds: &IceCreds) -> (Vec<u8>, [u8; 12]) {
    let mut tid = [0u8; 12];
    tid[..8].copy_from_slice(&(n + 1).to_be_bytes());
    tid[8..].copy_from_slice(b"c07t");
    (stun_binding_request(tid, false, creds), tid)
}

fn contains(hay: &[u8], needle: &[u8]) -> bool {
    hay.windows(needle.len()).any(|w| w == needle)
}

enum Link {
    Udp(Arc<UdpSocket>, SocketAddr),
    Tcp(tokio::net::tcp::OwnedWriteHalf),
}

/// How a message is put on a TURN/TCP stream.
#[derive(Clone, Copy, PartialEq)]
enum Framing {
    /// length field made consistent with the bytes that follow (ChannelData padded to 4), at most
    /// 1500 bytes: whatever the content, the stream stays in sync and the next message is read
    Consistent,
    /// bytes as they are: lying / over-long lengths, truncated messages, unpadded ChannelData
    Raw,
}

/// Make `d` a self-consistent RFC 5766 stream element (see `Framing::Consistent`).
fn reframe(d: &[u8]) -> Vec<u8> {
    let mut v = d.to_vec();
    v.truncate(1500);
    if v.len() < 4 {
        v.resize(4, 0);
    }
    if v[0] & 0xC0 == 0 {
        // STUN: 20-byte header + body, body length in bytes 2..4
        if v.len() < 20 {
            v.resize(20, 0);
        }
        let body = (v.len() - 20) as u16;
        v[2..4].copy_from_slice(&body.to_be_bytes());
    } else {
        // ChannelData (and anything else the reader treats as such): 4-byte header + data + pad
        let body = (v.len() - 4) as u16;
        v[2..4].copy_from_slice(&body.to_be_bytes());
        while v.len() % 4 != 0 {
            v.push(0);
        }
    }
    v
}

/// Deliberately mis-framed stream elements (the hostile TCP variants).
fn misframe(d: &[u8], r: &mut Rng) -> Vec<u8> {
    let mut v = reframe(d);
    match r.below(6) {
        0 => {
            // declared length beyond the client's buffer, and that many bytes really follow
            let total = *r.pick(&[1501usize, 1504, 1600, 4000, 20 + 0xffff]);
            let stun = r.bool();
            v.truncate(4);
            v[0] = if stun { 0x00 } else { 0x40 };
            v[1] = if stun { 0x17 } else { 0x00 };
            let hdr = if stun { 20 } else { 4 };
            v[2..4].copy_from_slice(&(((total - hdr).min(0xffff)) as u16).to_be_bytes());
            v.resize(total, 0x55);
        }
        1 => {
            // truncated: the header promises more than is sent (the next message fills the gap)
            let cut = r.usize_below(v.len().max(5) - 4) + 4;
            v.truncate(cut.min(v.len()));
        }
        2 => {
            // ChannelData whose padding is missing / whose length is not what follows
            v = vec![0x40, 0x01];
            let n = *r.pick(&[1usize, 2, 3, 5, 7]);
            v.extend_from_slice(&(n as u16).to_be_bytes());
            v.extend_from_slice(&r.bytes(n));
        }
        3 => {
            // length field one more / one less than the truth
            let cur = u16::from_be_bytes([v[2], v[3]]);
            let nv = if r.bool() { cur.wrapping_add(1) } else { cur.wrapping_sub(1) };
            v[2..4].copy_from_slice(&nv.to_be_bytes());
        }
        4 => {
            // fewer than four bytes, then nothing
            v.truncate(r.usize_below(4));
        }
        _ => {
            // the raw hostile bytes without any reframing
            v = d.to_vec();
        }
    }
    v
}

impl Link {
    async fn send(&mut self, d: &[u8], framing: Framing) -> bool {
        match self {
            Link::Udp(s, to) => s.send_to(d, *to).await.is_ok(),
            Link::Tcp(w) => {
                if framing == Framing::Consistent {
                    w.write_all(&reframe(d)).await.is_ok()
                } else {
                    w.write_all(d).await.is_ok()
                }
            }
        }
    }
}

fn turn_body(mut c: Camp) -> Pin<Box<dyn Future<Output = (Camp, End)> + Send>> {
    Box::pin(async move {
        let tcp = c.scenario["transport"].as_str().unwrap_or("udp") == "tcp";
        let challenge = c.scenario["challenge"].as_bool().unwrap_or(false);
        let phase = c.scenario["state"].as_str().unwrap_or("allocated").to_string();
        let n = c.scenario["n"].as_u64().unwrap_or(1000) as usize;
        let relayed: SocketAddr = "127.0.0.1:45000".parse().unwrap();
        let peer: SocketAddr = "127.0.0.1:46000".parse().unwrap();
        // requests from the client are forwarded to the campaign through this channel
        let (req_tx, mut req_rx) = mpsc::unbounded_channel::<Vec<u8>>();
        let mut link: Option<Link> = None;
        let port;
        let mut tcp_accept: Option<tokio::task::JoinHandle<Option<(tokio::net::tcp::OwnedReadHalf, tokio::net::tcp::OwnedWriteHalf)>>> = None;
        let udp_sock = if tcp {
            let Ok(l) = TcpListener::bind("127.0.0.1:0").await else { return (c, End::Inconclusive("bind".into())) };
            port = l.local_addr().map(|a| a.port()).unwrap_or(0);
            tcp_accept = Some(tokio::spawn(async move { l.accept().await.ok().map(|(s, _)| s.into_split()) }));
            None
        } else {
            let Ok(s) = UdpSocket::bind("127.0.0.1:0").await else { return (c, End::Inconclusive("bind".into())) };
            port = s.local_addr().map(|a| a.port()).unwrap_or(0);
            Some(Arc::new(s))
        };
        let mut cfg = RtcConfiguration::default();
        cfg.ice_servers = vec![IceServer::new(vec![format!("turn:127.0.0.1:{port}?transport={}", if tcp { "tcp" } else { "udp" })]).with_credential("user", "pass")];
        let (ice, runner) = IceTransport::new(cfg);
        tokio::spawn(runner);
        ice.set_role(IceRole::Controlled);
        let lp = ice.local_parameters();
        let creds = IceCreds { ufrag: lp.username_fragment.clone(), pwd: lp.password.clone() };
        c.rebaseline();
        if let Err(e) = ice.start_gathering() {
            return (c, End::Inconclusive(format!("start_gathering: {e}")));
        }
        let seeds = {
            let mut s = pure::stun_seeds();
            s.extend(pure::rtp_seeds().into_iter().take(2));
            s.extend(pure::record_seeds().into_iter().take(2));
            s
        };
        // ---- serve the allocation (or attack it, in phase "allocating")
        let mut challenged = false;
        let mut client_addr: SocketAddr = "127.0.0.1:1".parse().unwrap();
        let t0 = Instant::now();
        let mut allocated = false;
        let mut tcp_read: Option<tokio::net::tcp::OwnedReadHalf> = None;
        if tcp {
            if let Some(h) = tcp_accept.take() {
                match tokio::time::timeout(Duration::from_secs(10), h).await {
                    Ok(Ok(Some((r, w)))) => {
                        tcp_read = Some(r);
                        link = Some(Link::Tcp(w));
                    }
                    _ => return (c, End::Inconclusive("TURN/TCP client never connected".into())),
                }
            }
        }
        // reader task: client → server
        if let Some(mut r) = tcp_read.take() {
            let tx = req_tx.clone();
            tokio::spawn(async move {
                loop {
                    // RFC 5766 stream framing: STUN is self-framed, ChannelData padded to 4
                    let mut h = [0u8; 4];
                    if r.read_exact(&mut h).await.is_err() { break; }
                    let body = u16::from_be_bytes([h[2], h[3]]) as usize;
                    let (len, padded) = if h[0] & 0xC0 == 0 { (20 + body, 20 + body) } else { (4 + body, (4 + body + 3) & !3) };
                    let mut b = vec![0u8; padded];
                    b[..4].copy_from_slice(&h);
                    if r.read_exact(&mut b[4..]).await.is_err() { break; }
                    b.truncate(len);
                    if tx.send(b).is_err() { break; }
                }
            });
        }
        let (addr_tx, mut addr_rx) = mpsc::unbounded_channel::<SocketAddr>();
        if let Some(s) = udp_sock.clone() {
            let tx = req_tx.clone();
            tokio::spawn(async move {
                let mut b = vec![0u8; 65536];
                loop {
                    let Ok((l, from)) = s.recv_from(&mut b).await else { break };
                    let _ = addr_tx.send(from);
                    if tx.send(b[..l].to_vec()).is_err() { break; }
                }
            });
        }
        while t0.elapsed() < Duration::from_secs(10) && !allocated {
            let Ok(Some(req)) = tokio::time::timeout(Duration::from_millis(200), req_rx.recv()).await else { continue };
            while let Ok(a) = addr_rx.try_recv() { client_addr = a; }
            if link.is_none() {
                if let Some(s) = udp_sock.clone() { link = Some(Link::Udp(s, client_addr)); }
            }
            if let Some(Link::Udp(_, to)) = link.as_mut() { *to = client_addr; }
            let Some(l) = link.as_mut() else { continue };
            if phase == "allocating" {
                // hostile answers to the Allocate request itself (same transaction id half the time)
                for _ in 0..n.min(400) {
                    let mut d = hostile_turn(&seeds, peer, &mut c.rng);
                    if c.rng.bool() && d.len() >= 20 && req.len() >= 20 { d[8..20].copy_from_slice(&req[8..20]); }
                    let mut fr = Framing::Consistent;
                    if tcp && c.rng.chance(1, 40) { d = misframe(&d, &mut c.rng); fr = Framing::Raw; }
                    c.fed(&d);
                    if !l.send(&d, fr).await { break; }
                }
            }
            if let Some(a) = answer(&req, relayed, client_addr, &mut challenged, challenge) {
                let is_alloc_ok = a[0] == 0x01 && a[1] == 0x03;
                l.send(&a, Framing::Consistent).await;
                if is_alloc_ok { allocated = true; }
            }
        }
        if !allocated {
            let st = format!("{:?}", ice.gather_state());
            heap_verdict(&mut c, "turn");
            // the client may legitimately have given up on a misbehaving server
            return (c, if phase == "allocating" { End::CleanEnd(format!("allocation not completed, gather state {st}")) } else { End::Inconclusive("TURN allocation not completed".into()) });
        }
        let Some(mut l) = link else { return (c, End::Inconclusive("no link".into())) };
        // wait for the relay candidate, then start checking so that requests are answered
        let t1 = Instant::now();
        while t1.elapsed() < Duration::from_secs(5) && !ice.local_candidates().iter().any(|x| x.address == relayed) {
            tokio::time::sleep(Duration::from_millis(20)).await;
        }
        let _ = ice.start(IceParameters::new("remoteufrag", "remotepasswordremotepassword"));
        // keep answering the client's own requests in the background of the loop below
        let mut probes = 0u64;
        let mut end = End::Live;
        // baseline probe
        let probe = async |l: &mut Link, req_rx: &mut mpsc::UnboundedReceiver<Vec<u8>>, n: u64, challenged: &mut bool| -> bool {
            for attempt in 0..5u64 {
                let (rq, tid) = probe_request(n * 8 + attempt, &creds);
                if !l.send(&data_indication(peer, Some(&rq)), Framing::Consistent).await { return false; }
                let deadline = Instant::now() + Duration::from_millis(400);
                while Instant::now() < deadline {
                    if let Ok(Some(m)) = tokio::time::timeout(Duration::from_millis(50), req_rx.recv()).await {
                        if contains(&m, &tid) { return true; }
                        if let Some(a) = answer(&m, relayed, client_addr, challenged, false) { l.send(&a, Framing::Consistent).await; }
                    }
                }
            }
            false
        };
        if !probe(&mut l, &mut req_rx, 0, &mut challenged).await {
            heap_verdict(&mut c, "turn");
            ice.stop();
            // after hostile answers to its Allocate request the client may legitimately have given
            // up on this server (its read loop is only started for a granted allocation)
            return (c, if phase == "allocating" {
                End::CleanEnd(format!("no relayed traffic after the attacked allocation, gather state {:?}", ice.gather_state()))
            } else {
                End::Inconclusive("baseline: Binding request relayed through the TURN server was not answered".into())
            });
        }
        for i in 0..n {
            let mut d = hostile_turn(&seeds, peer, &mut c.rng);
            // TCP: the first 60 % of the campaign keeps the stream in sync (hostile *content* in
            // consistent frames, so every message is really parsed and the probes stay meaningful);
            // afterwards mis-framed elements are mixed in – each of them may legitimately end the
            // link (error or desynchronisation), which is reported as a clean end, not a hang
            let mut fr = Framing::Consistent;
            if tcp && i * 10 >= n * 6 && c.rng.chance(1, 12) { d = misframe(&d, &mut c.rng); fr = Framing::Raw; c.count("live.turn.tcp_misframed_sent", 1); }
            c.fed(&d);
            if !l.send(&d, fr).await {
                end = End::CleanEnd(format!("client closed the TURN/TCP connection after {} inputs", i + 1));
                break;
            }
            while let Ok(m) = req_rx.try_recv() {
                if let Some(a) = answer(&m, relayed, client_addr, &mut challenged, false) { l.send(&a, Framing::Consistent).await; }
            }
            if i % 100 == 99 {
                probes += 1;
                if !probe(&mut l, &mut req_rx, probes, &mut challenged).await {
                    let st = format!("{:?}", ice.state());
                    // a TCP stream desynchronised by a lying frame length is a dead link, not a hang
                    end = if !tcp && !(st.contains("Failed") || st.contains("Closed")) && c.canary_ok(Duration::from_millis(200)).await {
                        End::Unresponsive(format!("relayed Binding request unanswered 5x after {} inputs, ICE state {st}", i + 1))
                    } else {
                        End::CleanEnd(format!("relayed probe unanswered, ICE state {st}, tcp={tcp}"))
                    };
                    break;
                }
            }
        }
        c.count("live.turn.relayed_probes_ok", probes);
        heap_verdict(&mut c, "turn");
        ice.stop();
        (c, end)
    })
}

pub fn turn_specs(args: &Args, push: &mut impl FnMut(&'static str, Body, Value)) {
    let q = args.tier == Tier::Quick;
    let n = if q { 4000 } else { 30000 };
    for tr in ["udp", "tcp"] {
        push("turn", turn_body, json!({"transport":tr,"state":"allocated","challenge":false,"n":n}));
        push("turn", turn_body, json!({"transport":tr,"state":"allocating","challenge":true,"n":n}));
        push("turn", turn_body, json!({"transport":tr,"state":"allocating","challenge":false,"n":n}));
    }
}
