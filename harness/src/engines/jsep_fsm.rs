//! C09 – signaling state follows the JSEP state machine; rejected calls change nothing.
//!
//! Engine `jsep_fsm` (level: exploration; the enumerated part is exhaustive up to the bound).
//!
//! A *program* is a sequence over the alphabet
//!   {create_offer, create_answer, set_local(offer|answer|pranswer|rollback),
//!    set_remote(offer|answer|pranswer|rollback), close}
//! run against a real `rustrtc::PeerConnection` (the "pc").  Descriptions handed to set_* come from
//! the pc itself ("own"), from a persistent partner PeerConnection that is kept in lock-step where
//! possible ("partner"), from throw-away helper connections ("helper") or are the last remote
//! description sent again ("same"); they are passed unchanged, edited (direction / codecs / extmap /
//! mids / fingerprint / address / sections) or malformed (no fingerprint, unknown hash algorithm,
//! no media, body of the wrong type).
//!
//! ORACLE (demands exactly what the statement demands):
//!  1. A ~25 line JSEP FSM (fn `fsm`).  After every call `signaling_state()` must equal the FSM
//!     state, where the FSM only moves when the call returned `Ok` (a refused call must change
//!     nothing – clause 3).  Provisional answers keep the state, rollback is always refused,
//!     Closed refuses everything (as the statement and the API say).
//!  2. A call the FSM forbids must return `Err`.  The FSM forbids only what JSEP/W3C forbid:
//!     e.g. create_offer in have-local-offer and set_local(offer) in have-local-offer are *allowed*
//!     by JSEP; rustrtc refuses them, which the statement permits (it never says "allowed calls
//!     succeed"), so the oracle accepts `Err` there and only checks clause 3.
//!  3. For every call that returned `Err`: snapshot before == snapshot after, where the snapshot is
//!     (signaling_state, local_description, remote_description, number of transceivers,
//!      per transceiver: mid, direction, payload map, extmap).  These are exactly the observables
//!     named by the statement.  Sender codec parameters / receiver SSRC are recorded as
//!     "aux" counters only (not verdict relevant: the statement lists negotiated parameters of the
//!     transceiver, the anchors list the four accessors above).
//!     The background gathering task legitimately appends candidate lines / rewrites port + c= of
//!     the stored *local* description at any time; a local-description difference confined to
//!     those items is accepted (counted as `benign_gather_update`).
//!  `create_*` calls that return Ok may assign mids / start gathering; not constrained.
//!  No wall-clock verdicts: a call that does not return within the watchdog is *inconclusive*.
//!
//! VIOLATION KEYS (stable, one per failing call site; the damaged fields are in the witness):
//!   err_changed_state:call=<call>,state=<fsm state>,jsep=<allowed|forbidden>,err=<RtcError variant>
//!   forbidden_call_ok:call=<call>,state=<state>
//!   state_mismatch:call=<call>,from=<state>,want=<state>,got=<state>
//!   watch_disagrees:call=<call>      state_moved_between_calls:from=..,to=..
//!
//! PROGRAM CLASSES
//!   enum     – every sequence up to the bound over the 11 symbols with "valid" descriptions
//!              (set_local ← what the pc created / holds, set_remote ← what the partner produced),
//!              on a fresh connection in each transport mode and behind both negotiated prefixes;
//!   directed – refused local offers carrying changed parameters, legal calls with every edit,
//!              closed connections, established transports (prefix `connected_*` waits for
//!              ICE+DTLS) followed by a description from another endpoint, and the environment
//!              fault `"ports": "exhausted"` (the connection's RTP port range is one port that the
//!              harness keeps bound, so socket binds inside rustrtc fail *after* the state change);
//!   random   – seeded programs (length ≤ 14 / ≤ 30) mixing all sources, edits, prefixes, media
//!              layouts, add_transceiver, and (1 in 12 fresh ones) exhausted ports.
//!   Pseudo operations `gather`, `wait_connected`, `add_transceiver` are set-up and never judged.

use crate::common::*;
use rustrtc::{
    Attribute, MediaKind, PeerConnection, RtcConfiguration, RtcError, SdpType, SessionDescription,
    SignalingState, TransceiverDirection, TransportMode,
};
use serde_json::{Value, json};
use std::collections::BTreeMap;
use std::time::Duration;

// ------------------------------------------------------------------ the oracle FSM

#[derive(Clone, Copy, PartialEq, Eq, Debug)]
enum St {
    Stable,
    HaveLocalOffer,
    HaveRemoteOffer,
    Closed,
}

impl St {
    fn name(self) -> &'static str {
        match self {
            St::Stable => "stable",
            St::HaveLocalOffer => "have-local-offer",
            St::HaveRemoteOffer => "have-remote-offer",
            St::Closed => "closed",
        }
    }
    fn of(s: SignalingState) -> St {
        match s {
            SignalingState::Stable => St::Stable,
            SignalingState::HaveLocalOffer => St::HaveLocalOffer,
            SignalingState::HaveRemoteOffer => St::HaveRemoteOffer,
            SignalingState::Closed => St::Closed,
        }
    }
}

#[derive(Clone, Copy, PartialEq, Eq, Debug)]
enum Call {
    CreateOffer,
    CreateAnswer,
    SetLocal(SdpType),
    SetRemote(SdpType),
    Close,
}

impl Call {
    fn name(self) -> String {
        match self {
            Call::CreateOffer => "create_offer".into(),
            Call::CreateAnswer => "create_answer".into(),
            Call::SetLocal(t) => format!("set_local({})", t.as_str()),
            Call::SetRemote(t) => format!("set_remote({})", t.as_str()),
            Call::Close => "close".into(),
        }
    }
}

/// JSEP offer/answer machine (RFC 8829 §3.2 + W3C create* preconditions), with the two
/// documented deviations of this API: pranswer keeps the state, rollback is always refused.
/// `Some(next)` = allowed (state after a *successful* call), `None` = forbidden.
fn fsm(st: St, call: Call) -> Option<St> {
    use SdpType::*;
    use St::*;
    match (call, st) {
        (Call::Close, _) => Some(Closed),
        (_, Closed) => None,
        (Call::CreateOffer, Stable | HaveLocalOffer) => Some(st),
        (Call::CreateOffer, _) => None,
        (Call::CreateAnswer, HaveRemoteOffer) => Some(st),
        (Call::CreateAnswer, _) => None,
        (Call::SetLocal(Rollback) | Call::SetRemote(Rollback), _) => None,
        (Call::SetLocal(Offer), Stable | HaveLocalOffer) => Some(HaveLocalOffer),
        (Call::SetLocal(Answer), HaveRemoteOffer) => Some(Stable),
        (Call::SetLocal(Pranswer), HaveRemoteOffer) => Some(HaveRemoteOffer),
        (Call::SetRemote(Offer), Stable | HaveRemoteOffer) => Some(HaveRemoteOffer),
        (Call::SetRemote(Answer), HaveLocalOffer) => Some(Stable),
        (Call::SetRemote(Pranswer), HaveLocalOffer) => Some(HaveLocalOffer),
        (Call::SetLocal(_) | Call::SetRemote(_), _) => None,
    }
}

const ALPHABET: [Call; 11] = [
    Call::CreateOffer,
    Call::CreateAnswer,
    Call::SetLocal(SdpType::Offer),
    Call::SetLocal(SdpType::Answer),
    Call::SetLocal(SdpType::Pranswer),
    Call::SetLocal(SdpType::Rollback),
    Call::SetRemote(SdpType::Offer),
    Call::SetRemote(SdpType::Answer),
    Call::SetRemote(SdpType::Pranswer),
    Call::SetRemote(SdpType::Rollback),
    Call::Close,
];

// ------------------------------------------------------------------ snapshot

#[derive(Clone, PartialEq, Debug)]
struct TSnap {
    id: u64,
    kind: String,
    mid: Option<String>,
    dir: String,
    pm: BTreeMap<u8, (String, u32, u8)>,
    ext: BTreeMap<u8, String>,
    // aux (not verdict relevant)
    sender_pt: Option<u8>,
    recv_ssrc: Option<u32>,
}

#[derive(Clone, PartialEq, Debug)]
struct Snap {
    state: SignalingState,
    local: Option<SessionDescription>,
    remote: Option<SessionDescription>,
    trs: Vec<TSnap>,
}

fn dir_name(d: TransceiverDirection) -> &'static str {
    match d {
        TransceiverDirection::SendRecv => "sendrecv",
        TransceiverDirection::SendOnly => "sendonly",
        TransceiverDirection::RecvOnly => "recvonly",
        TransceiverDirection::Inactive => "inactive",
    }
}

fn snapshot(pc: &PeerConnection) -> Snap {
    let trs = pc
        .get_transceivers()
        .iter()
        .map(|t| TSnap {
            id: t.id(),
            kind: format!("{:?}", t.kind()).to_lowercase(),
            mid: t.mid(),
            dir: dir_name(t.direction()).to_string(),
            pm: t
                .get_payload_map()
                .into_iter()
                .map(|(k, v)| (k, (v.name, v.clock_rate, v.channels)))
                .collect(),
            ext: t.get_extmap().into_iter().collect(),
            sender_pt: t.sender().map(|s| s.params().payload_type),
            recv_ssrc: t.receiver().map(|r| r.ssrc()),
        })
        .collect();
    Snap {
        state: pc.signaling_state(),
        local: pc.local_description(),
        remote: pc.remote_description(),
        trs,
    }
}

/// What the background gatherer may legitimately touch in the stored local description.
fn strip_gather(d: &SessionDescription, mode: &TransportMode) -> SessionDescription {
    let mut d = d.clone();
    for m in &mut d.media_sections {
        m.attributes
            .retain(|a| a.key != "candidate" && a.key != "end-of-candidates");
        if *mode != TransportMode::WebRtc {
            m.port = 0;
            m.connection = None;
        }
    }
    d
}

fn tsnap_json(t: &TSnap) -> Value {
    json!({"id": t.id, "kind": t.kind, "mid": t.mid, "dir": t.dir,
           "payload_map": t.pm.iter().map(|(k,v)| format!("{}={}/{}/{}", k, v.0, v.1, v.2)).collect::<Vec<_>>(),
           "extmap": t.ext.iter().map(|(k,v)| format!("{}={}", k, v)).collect::<Vec<_>>()})
}

fn desc_brief(d: &Option<SessionDescription>) -> Value {
    match d {
        None => Value::Null,
        Some(d) => json!({
            "type": d.sdp_type.as_str(),
            "hash": format!("{:016x}", fnv64(d.to_sdp_string().as_bytes())),
            "sections": d.media_sections.iter().map(|m| format!("{:?}:{}:{:?}:{}", m.kind, m.mid, m.direction, m.formats.join(","))).collect::<Vec<_>>(),
        }),
    }
}

/// Every verdict-relevant difference between two snapshots: (field, witness), one entry per field.
/// `benign` is set when the only local-description difference is gatherer-owned.
fn snap_diff(a: &Snap, b: &Snap, mode: &TransportMode, benign: &mut bool) -> Vec<(String, Value)> {
    let mut out: Vec<(String, Value)> = vec![];
    if a.state != b.state {
        out.push((
            "signaling_state".into(),
            json!({"before": St::of(a.state).name(), "after": St::of(b.state).name()}),
        ));
    }
    if a.local != b.local {
        let na = a.local.as_ref().map(|d| strip_gather(d, mode));
        let nb = b.local.as_ref().map(|d| strip_gather(d, mode));
        if na != nb {
            out.push((
                "local_description".into(),
                json!({"before": desc_brief(&a.local), "after": desc_brief(&b.local)}),
            ));
        } else {
            *benign = true;
        }
    }
    if a.remote != b.remote {
        out.push((
            "remote_description".into(),
            json!({"before": desc_brief(&a.remote), "after": desc_brief(&b.remote)}),
        ));
    }
    if a.trs.len() != b.trs.len() {
        out.push((
            "transceiver.count".into(),
            json!({"before": a.trs.len(), "after": b.trs.len()}),
        ));
    }
    for (x, y) in a.trs.iter().zip(b.trs.iter()) {
        let mut fs: Vec<&str> = vec![];
        if x.id != y.id {
            fs.push("transceiver.identity");
        } else {
            if x.mid != y.mid {
                fs.push("transceiver.mid");
            }
            if x.dir != y.dir {
                fs.push("transceiver.direction");
            }
            if x.pm != y.pm {
                fs.push("transceiver.payload_map");
            }
            if x.ext != y.ext {
                fs.push("transceiver.extmap");
            }
        }
        for f in fs {
            if !out.iter().any(|(k, _)| k == f) {
                out.push((f.into(), json!({"before": tsnap_json(x), "after": tsnap_json(y)})));
            }
        }
    }
    out
}

fn aux_diff(a: &Snap, b: &Snap) -> Vec<&'static str> {
    let mut v = vec![];
    for (x, y) in a.trs.iter().zip(b.trs.iter()) {
        if x.sender_pt != y.sender_pt {
            v.push("sender.params");
        }
        if x.recv_ssrc != y.recv_ssrc {
            v.push("receiver.ssrc");
        }
    }
    v
}

// ------------------------------------------------------------------ description edits

fn sdp_type_of(s: &str) -> SdpType {
    match s {
        "offer" => SdpType::Offer,
        "answer" => SdpType::Answer,
        "pranswer" => SdpType::Pranswer,
        _ => SdpType::Rollback,
    }
}

const EDITS: [&str; 20] = [
    "none",
    "dir",
    "codecs_drop",
    "codecs_remap",
    "codecs_add",
    "extmap",
    "mids_shift",
    "mids_text",
    "fingerprint",
    "no_fingerprint",
    "bad_alg",
    "garbage_fp",
    "no_media",
    "add_section",
    "drop_section",
    "addr",
    "ssrc",
    "no_ice",
    "no_mid",
    "big_mid",
];

fn for_all_attrs(d: &mut SessionDescription, mut f: impl FnMut(&mut Vec<Attribute>)) {
    f(&mut d.session.attributes);
    for m in &mut d.media_sections {
        f(&mut m.attributes);
    }
}

fn remap_pt_in_value(v: &str, from: &str, to: &str) -> String {
    // "<pt> rest" → "<to> rest"; also apt=<pt>
    let mut out = match v.split_once(' ') {
        Some((p, rest)) if p == from => format!("{to} {rest}"),
        None if v == from => to.to_string(),
        _ => v.to_string(),
    };
    let needle = format!("apt={from}");
    if out.contains(&needle) {
        out = out.replace(&needle, &format!("apt={to}"));
    }
    out
}

fn apply_edit(d: &mut SessionDescription, edit: &str) {
    use rustrtc::Direction as D;
    match edit {
        "dir" => {
            for m in &mut d.media_sections {
                m.direction = match m.direction {
                    D::SendRecv => D::SendOnly,
                    D::SendOnly => D::RecvOnly,
                    D::RecvOnly => D::Inactive,
                    D::Inactive => D::SendRecv,
                };
            }
        }
        "codecs_drop" => {
            for m in &mut d.media_sections {
                if m.kind != MediaKind::Audio && m.kind != MediaKind::Video {
                    continue;
                }
                if m.formats.len() > 1 {
                    let pt = m.formats.remove(0);
                    m.attributes.retain(|a| {
                        !(matches!(a.key.as_str(), "rtpmap" | "fmtp" | "rtcp-fb")
                            && a.value
                                .as_deref()
                                .map(|v| v.split(' ').next() == Some(pt.as_str()))
                                .unwrap_or(false))
                    });
                }
            }
        }
        "codecs_remap" => {
            for m in &mut d.media_sections {
                if m.kind != MediaKind::Audio && m.kind != MediaKind::Video {
                    continue;
                }
                let old: Vec<String> = m.formats.clone();
                for (i, pt) in old.iter().enumerate() {
                    let Ok(n) = pt.parse::<u8>() else { continue };
                    if !(96..=125).contains(&n) {
                        continue;
                    }
                    // shift by 2 through a temporary name to avoid collisions
                    let to = format!("{}", 126u8.saturating_sub(i as u8 % 20));
                    if old.contains(&to) {
                        continue;
                    }
                    m.formats[i] = to.clone();
                    for a in &mut m.attributes {
                        if matches!(a.key.as_str(), "rtpmap" | "fmtp" | "rtcp-fb") {
                            if let Some(v) = &a.value {
                                a.value = Some(remap_pt_in_value(v, pt, &to));
                            }
                        }
                    }
                }
            }
        }
        "codecs_add" => {
            for m in &mut d.media_sections {
                if m.kind == MediaKind::Audio {
                    m.formats.push("119".into());
                    m.attributes
                        .push(Attribute::new("rtpmap", Some("119 L16/16000/1".into())));
                } else if m.kind == MediaKind::Video {
                    m.formats.push("119".into());
                    m.attributes
                        .push(Attribute::new("rtpmap", Some("119 AV1/90000".into())));
                }
            }
        }
        "extmap" => {
            for m in &mut d.media_sections {
                if m.kind != MediaKind::Audio && m.kind != MediaKind::Video {
                    continue;
                }
                if let Some(i) = m.attributes.iter().position(|a| a.key == "extmap") {
                    m.attributes.remove(i);
                }
                m.attributes.push(Attribute::new(
                    "extmap",
                    Some("13 urn:example:verif:ext".into()),
                ));
            }
        }
        "mids_shift" | "mids_text" | "no_mid" | "big_mid" => {
            let mut map: Vec<(String, String)> = vec![];
            for (i, m) in d.media_sections.iter_mut().enumerate() {
                let new = match edit {
                    "mids_shift" => match m.mid.parse::<u32>() {
                        Ok(n) => format!("{}", n + 3),
                        Err(_) => format!("{}", i + 3),
                    },
                    "mids_text" => format!("m{}", m.mid),
                    "big_mid" => format!("{}", 65000 + i), // 65535 is a known C07 panic, not C09's business
                    _ => String::new(),
                };
                map.push((m.mid.clone(), new.clone()));
                m.mid = new.clone();
                // the printer derives a=mid from the field; keep explicit attributes in step
                for a in &mut m.attributes {
                    if a.key == "mid" {
                        a.value = if new.is_empty() { None } else { Some(new.clone()) };
                    }
                }
                if new.is_empty() {
                    m.attributes.retain(|a| a.key != "mid");
                }
            }
            for a in &mut d.session.attributes {
                if a.key == "group" {
                    if edit == "no_mid" {
                        a.value = Some("BUNDLE".into());
                    } else if let Some(v) = &a.value {
                        let parts: Vec<String> = v
                            .split(' ')
                            .map(|p| {
                                map.iter()
                                    .find(|(o, _)| o == p)
                                    .map(|(_, n)| n.clone())
                                    .unwrap_or_else(|| p.to_string())
                            })
                            .collect();
                        a.value = Some(parts.join(" "));
                    }
                }
            }
            if edit == "no_mid" {
                d.session.attributes.retain(|a| a.key != "group");
            }
        }
        "fingerprint" => for_all_attrs(d, |attrs| {
            for a in attrs.iter_mut() {
                if a.key == "fingerprint" {
                    if let Some(v) = &a.value {
                        let mut s = v.clone();
                        let last = s.pop().unwrap_or('0');
                        s.push(if last == '0' { '1' } else { '0' });
                        a.value = Some(s);
                    }
                }
            }
        }),
        "no_fingerprint" => for_all_attrs(d, |attrs| attrs.retain(|a| a.key != "fingerprint")),
        "bad_alg" => for_all_attrs(d, |attrs| {
            for a in attrs.iter_mut() {
                if a.key == "fingerprint" {
                    if let Some(v) = &a.value {
                        let rest = v.split_once(' ').map(|x| x.1).unwrap_or("");
                        a.value = Some(format!("sha-1 {}", rest));
                    }
                }
            }
        }),
        "garbage_fp" => for_all_attrs(d, |attrs| {
            for a in attrs.iter_mut() {
                if a.key == "fingerprint" {
                    a.value = Some("sha-256".into());
                }
            }
        }),
        "no_media" => d.media_sections.clear(),
        "add_section" => {
            if let Some(m) = d
                .media_sections
                .iter()
                .find(|m| m.kind == MediaKind::Audio || m.kind == MediaKind::Video)
                .cloned()
            {
                let mut m = m;
                m.mid = "9".into();
                for a in &mut m.attributes {
                    if a.key == "mid" {
                        a.value = Some("9".into());
                    }
                }
                d.media_sections.push(m);
                for a in &mut d.session.attributes {
                    if a.key == "group" {
                        if let Some(v) = &a.value {
                            a.value = Some(format!("{v} 9"));
                        }
                    }
                }
            }
        }
        "drop_section" => {
            if d.media_sections.len() > 1 {
                d.media_sections.pop();
            }
        }
        "addr" => {
            d.session.connection = Some("IN IP4 127.0.0.1".into());
            for (i, m) in d.media_sections.iter_mut().enumerate() {
                m.connection = None;
                m.port = 41000 + i as u16 * 2;
            }
        }
        "ssrc" => {
            for (i, m) in d.media_sections.iter_mut().enumerate() {
                m.attributes.retain(|a| a.key != "ssrc" && a.key != "ssrc-group");
                m.attributes.push(Attribute::new(
                    "ssrc",
                    Some(format!("{} cname:verif", 777_000 + i)),
                ));
            }
        }
        "no_ice" => for_all_attrs(d, |attrs| {
            attrs.retain(|a| a.key != "ice-ufrag" && a.key != "ice-pwd")
        }),
        _ => {}
    }
}

// ------------------------------------------------------------------ the world of one scenario

const CALL_WATCHDOG: Duration = Duration::from_secs(20);
const STALL: Duration = Duration::from_secs(40);

fn mode_of(s: &str) -> TransportMode {
    match s {
        "srtp" => TransportMode::Srtp,
        "rtp" => TransportMode::Rtp,
        _ => TransportMode::WebRtc,
    }
}

fn kind_of(s: &str) -> Option<MediaKind> {
    match s {
        "audio" => Some(MediaKind::Audio),
        "video" => Some(MediaKind::Video),
        _ => None,
    }
}

fn tdir_of(s: &str) -> TransceiverDirection {
    match s {
        "sendonly" => TransceiverDirection::SendOnly,
        "recvonly" => TransceiverDirection::RecvOnly,
        "inactive" => TransceiverDirection::Inactive,
        _ => TransceiverDirection::SendRecv,
    }
}

fn new_pc(mode: &TransportMode, media: &Value) -> PeerConnection {
    new_pc_ports(mode, media, None)
}

/// `only_port`: restrict the connection's RTP port range to exactly this (even) port on 127.0.0.1.
/// The harness keeps that port bound, so every socket bind inside rustrtc fails ("port range
/// exhausted") – the way to reach the failure branches that come *after* the state change.
fn new_pc_ports(mode: &TransportMode, media: &Value, only_port: Option<u16>) -> PeerConnection {
    let mut cfg = RtcConfiguration::default();
    cfg.transport_mode = mode.clone();
    if let Some(p) = only_port {
        cfg.bind_ip = Some("127.0.0.1".into());
        cfg.rtp_start_port = Some(p);
        cfg.rtp_end_port = Some(p);
    }
    let pc = PeerConnection::new(cfg);
    if let Some(arr) = media.as_array() {
        for m in arr {
            let k = m["kind"].as_str().unwrap_or("audio");
            if k == "dc" {
                let _ = pc.create_data_channel("verif", None);
            } else if let Some(kind) = kind_of(k) {
                pc.add_transceiver(kind, tdir_of(m["dir"].as_str().unwrap_or("sendrecv")));
            }
        }
    }
    pc
}

struct World {
    mode: TransportMode,
    pc: PeerConnection,
    peer: Option<PeerConnection>,
    peer_media: Value,
    last_created: Option<SessionDescription>,
    last_remote_sent: Option<SessionDescription>,
    trash: Vec<PeerConnection>,
    src_used: Vec<String>,
}

/// rustrtc has a lock-order inversion between `create_offer` (local → remote description lock) and
/// the SRTP-mode background `setup_sdes` (remote → local) that runs right after a remote
/// description was applied.  It blocks two threads for good and is outside this property, so the
/// harness gives the background task a moment before it asks such a connection for an offer
/// (the stall detector in `run` stays as the backstop).
async fn create_offer_guarded(pc: &PeerConnection) -> Result<SessionDescription, RtcError> {
    if pc.config().transport_mode == TransportMode::Srtp && pc.remote_description().is_some() {
        tokio::time::sleep(Duration::from_millis(4)).await;
    }
    pc.create_offer().await
}

async fn wd<T>(f: impl std::future::Future<Output = T>) -> Option<T> {
    tokio::time::timeout(CALL_WATCHDOG, f).await.ok()
}

impl World {
    fn peer(&mut self) -> PeerConnection {
        if self.peer.is_none() {
            self.peer = Some(new_pc(&self.mode, &self.peer_media));
        }
        self.peer.clone().unwrap()
    }

    /// A well-formed offer from a throw-away connection.
    async fn helper_offer(&mut self) -> Option<SessionDescription> {
        let h = new_pc(&self.mode, &self.peer_media);
        let r = wd(h.create_offer()).await;
        self.trash.push(h);
        r?.ok()
    }

    /// A well-formed answer from a throw-away connection (to our pending offer if there is one).
    async fn helper_answer(&mut self) -> Option<SessionDescription> {
        // first choice: an answer to the offer the pc really has pending; if that offer is one a
        // well-behaved endpoint refuses (it may be an edited / malformed one), answer a helper offer
        let mut candidates = vec![];
        if let Some(d) = self.pc.local_description() {
            if d.sdp_type == SdpType::Offer {
                candidates.push(d);
            }
        }
        if let Some(o) = self.helper_offer().await {
            candidates.push(o);
        }
        for offer in candidates {
            let h = new_pc(&self.mode, &self.peer_media);
            let r1 = wd(h.set_remote_description(offer)).await;
            let out = match r1 {
                Some(Ok(())) => wd(h.create_answer()).await.and_then(|r| r.ok()),
                _ => None,
            };
            self.trash.push(h);
            if out.is_some() {
                return out;
            }
        }
        None
    }

    /// Description for set_remote(ty) from the persistent partner (falls back to helpers).
    async fn partner_desc(&mut self, ty: SdpType) -> Option<SessionDescription> {
        let peer = self.peer();
        let want_offer = matches!(ty, SdpType::Offer | SdpType::Rollback);
        if want_offer {
            match peer.signaling_state() {
                SignalingState::Stable => {
                    if let Some(Ok(o)) = wd(create_offer_guarded(&peer)).await {
                        let _ = peer.set_local_description(o.clone());
                        self.src_used.push("partner:new_offer".into());
                        return Some(o);
                    }
                }
                SignalingState::HaveLocalOffer => {
                    if let Some(o) = peer.local_description() {
                        self.src_used.push("partner:pending_offer".into());
                        return Some(o);
                    }
                }
                _ => {}
            }
            self.src_used.push("partner:helper_offer".into());
            self.helper_offer().await
        } else {
            if peer.signaling_state() == SignalingState::HaveRemoteOffer {
                if let Some(Ok(a)) = wd(peer.create_answer()).await {
                    if ty == SdpType::Answer {
                        let _ = peer.set_local_description(a.clone());
                    }
                    self.src_used.push("partner:new_answer".into());
                    return Some(a);
                }
            }
            if let Some(d) = peer.local_description() {
                if d.sdp_type != SdpType::Offer {
                    self.src_used.push("partner:last_answer".into());
                    return Some(d);
                }
            }
            self.src_used.push("partner:helper_answer".into());
            self.helper_answer().await
        }
    }

    async fn own_desc(&mut self, ty: SdpType) -> Option<SessionDescription> {
        if let Some(d) = &self.last_created {
            self.src_used.push("own:last_created".into());
            return Some(d.clone());
        }
        if let Some(d) = self.pc.local_description() {
            self.src_used.push("own:stored_local".into());
            return Some(d);
        }
        self.src_used.push("own:helper".into());
        if matches!(ty, SdpType::Offer | SdpType::Rollback) {
            self.helper_offer().await
        } else {
            self.helper_answer().await
        }
    }

    async fn desc_for(&mut self, local: bool, ty: SdpType, src: &str, edit: &str) -> Option<SessionDescription> {
        let base = match src {
            "own" => self.own_desc(ty).await,
            "partner" => self.partner_desc(ty).await,
            "same" => match (local, self.last_remote_sent.clone()) {
                (false, Some(d)) => {
                    self.src_used.push("same:last_remote".into());
                    Some(d)
                }
                _ => {
                    if local {
                        self.own_desc(ty).await
                    } else {
                        self.partner_desc(ty).await
                    }
                }
            },
            _ => {
                self.src_used.push("helper".into());
                if matches!(ty, SdpType::Offer | SdpType::Rollback) {
                    self.helper_offer().await
                } else {
                    self.helper_answer().await
                }
            }
        };
        let mut d = base?;
        d.sdp_type = ty; // "wrong type" bodies arise here (e.g. own offer body typed answer)
        apply_edit(&mut d, edit);
        Some(d)
    }

    async fn shutdown(self) {
        self.pc.close();
        if let Some(p) = &self.peer {
            p.close();
        }
        for h in &self.trash {
            h.close();
        }
    }
}

// ------------------------------------------------------------------ running one scenario

struct Outcome {
    verdict: Verdict,
    extra_violations: Vec<(String, String, Value)>,
    nontrivial: bool,
    counts: BTreeMap<String, u64>,
    seen: Vec<(String, String)>,
    trace: Vec<Value>,
}

fn err_class(e: &RtcError) -> &'static str {
    match e {
        RtcError::InvalidConfiguration(_) => "InvalidConfiguration",
        RtcError::InvalidState(_) => "InvalidState",
        RtcError::NotImplemented(_) => "NotImplemented",
        RtcError::Protocol(_) => "Protocol",
        RtcError::Transport(_) => "Transport",
        RtcError::Internal(_) => "Internal",
    }
}

fn call_of(op: &Value) -> Option<Call> {
    let ty = sdp_type_of(op["type"].as_str().unwrap_or(""));
    match op["op"].as_str()? {
        "create_offer" => Some(Call::CreateOffer),
        "create_answer" => Some(Call::CreateAnswer),
        "set_local" => Some(Call::SetLocal(ty)),
        "set_remote" => Some(Call::SetRemote(ty)),
        "close" => Some(Call::Close),
        _ => None,
    }
}

async fn run_scenario(sc: Value) -> Outcome {
    let mode = mode_of(sc["mode"].as_str().unwrap_or("webrtc"));
    let mut out = Outcome {
        verdict: Verdict::Held,
        extra_violations: vec![],
        nontrivial: false,
        counts: BTreeMap::new(),
        seen: vec![],
        trace: vec![],
    };
    let bump = |c: &mut BTreeMap<String, u64>, k: &str| *c.entry(k.to_string()).or_insert(0) += 1;
    let mut violations: Vec<(String, String, Value)> = vec![];

    // optional environment fault: the only port this connection may use is held by the harness
    let mut held_socket = None;
    let mut only_port = None;
    if sc["ports"] == "exhausted" {
        for _ in 0..64 {
            if let Ok(s) = std::net::UdpSocket::bind("127.0.0.1:0") {
                if let Ok(a) = s.local_addr() {
                    if a.port() % 2 == 0 {
                        only_port = Some(a.port());
                        held_socket = Some(s);
                        break;
                    }
                }
            }
        }
        if only_port.is_none() {
            out.verdict = Verdict::Inconclusive("harness could not reserve an even UDP port".into());
            return out;
        }
    }
    let pc = new_pc_ports(&mode, &sc["media"], only_port);
    let sig_rx = pc.subscribe_signaling_state();
    let mut w = World {
        mode: mode.clone(),
        pc: pc.clone(),
        peer: None,
        peer_media: sc["peer_media"].clone(),
        last_created: None,
        last_remote_sent: None,
        trash: vec![],
        src_used: vec![],
    };
    let mut st = St::of(pc.signaling_state());
    if st != St::Stable {
        violations.push((
            "initial_state_not_stable".into(),
            "a new connection does not start in stable".into(),
            json!({"got": st.name()}),
        ));
    }
    let empty = vec![];
    let ops = sc["ops"].as_array().unwrap_or(&empty).clone();
    let mut ok_transitions = 0u64;
    let mut err_checked_with_state = 0u64;
    let mut inconclusive: Option<String> = None;

    'ops: for (idx, op) in ops.iter().enumerate() {
        let name = op["op"].as_str().unwrap_or("");
        // ---- pseudo operations (set-up, never judged)
        match name {
            "add_transceiver" => {
                if let Some(k) = kind_of(op["kind"].as_str().unwrap_or("")) {
                    pc.add_transceiver(k, tdir_of(op["dir"].as_str().unwrap_or("sendrecv")));
                }
                continue;
            }
            "gather" => {
                let _ = tokio::time::timeout(Duration::from_secs(3), pc.wait_for_gathering_complete()).await;
                let peer = w.peer();
                let _ = tokio::time::timeout(Duration::from_secs(3), peer.wait_for_gathering_complete()).await;
                continue;
            }
            "wait_connected" => {
                let r = tokio::time::timeout(Duration::from_secs(6), pc.wait_for_connected()).await;
                let connected = matches!(r, Ok(Ok(())));
                bump(&mut out.counts, if connected { "prefix_connected" } else { "prefix_not_connected" });
                out.trace.push(json!({"i": idx, "op": "wait_connected", "connected": connected}));
                continue;
            }
            _ => {}
        }
        let Some(call) = call_of(op) else { continue };
        let src = op["src"].as_str().unwrap_or(match call {
            Call::SetLocal(_) => "own",
            _ => "partner",
        });
        let edit = op["edit"].as_str().unwrap_or("none");

        // materialise the argument first (may drive the partner; never touches the pc)
        let desc = match call {
            Call::SetLocal(t) => w.desc_for(true, t, src, edit).await,
            Call::SetRemote(t) => w.desc_for(false, t, src, edit).await,
            _ => None,
        };
        if matches!(call, Call::SetLocal(_) | Call::SetRemote(_)) && desc.is_none() {
            inconclusive = Some(format!("harness could not produce a description for op {idx} ({})", call.name()));
            break 'ops;
        }

        let before = snapshot(&pc);
        if St::of(before.state) != st {
            // somebody else moved the state between calls (only close() does that in rustrtc)
            violations.push((
                format!("state_moved_between_calls:from={},to={}", st.name(), St::of(before.state).name()),
                "signaling state changed while no monitored call was running".into(),
                json!({"op_index": idx}),
            ));
            st = St::of(before.state);
        }
        let verdict_fsm = fsm(st, call);
        let result: Result<(), RtcError> = match call {
            Call::CreateOffer => match wd(create_offer_guarded(&pc)).await {
                None => {
                    inconclusive = Some(format!("watchdog: {} did not return", call.name()));
                    break 'ops;
                }
                Some(Ok(d)) => {
                    w.last_created = Some(d);
                    Ok(())
                }
                Some(Err(e)) => Err(e),
            },
            Call::CreateAnswer => match wd(pc.create_answer()).await {
                None => {
                    inconclusive = Some(format!("watchdog: {} did not return", call.name()));
                    break 'ops;
                }
                Some(Ok(d)) => {
                    w.last_created = Some(d);
                    Ok(())
                }
                Some(Err(e)) => Err(e),
            },
            Call::SetLocal(_) => pc.set_local_description(desc.clone().unwrap()),
            Call::SetRemote(_) => {
                w.last_remote_sent = desc.clone();
                match wd(pc.set_remote_description(desc.clone().unwrap())).await {
                    None => {
                        inconclusive = Some(format!("watchdog: {} did not return", call.name()));
                        break 'ops;
                    }
                    Some(r) => r,
                }
            }
            Call::Close => {
                pc.close();
                Ok(())
            }
        };
        let after = snapshot(&pc);
        let got = St::of(after.state);
        // observe_at lists both accessors: they must tell the same story
        let watched = St::of(*sig_rx.borrow());
        if watched != got {
            violations.push((
                format!("watch_disagrees:call={}", call.name()),
                "subscribe_signaling_state() and signaling_state() report different states".into(),
                json!({"op_index": idx, "watch": watched.name(), "getter": got.name()}),
            ));
        }
        let allowed = if verdict_fsm.is_some() { "allowed" } else { "forbidden" };
        bump(&mut out.counts, &format!("calls:{}", call.name()));
        out.seen.push((
            "call_state_result".into(),
            format!("{}@{}={}", call.name(), st.name(), if result.is_ok() { "ok" } else { "err" }),
        ));
        let mut tr = json!({"i": idx, "call": call.name(), "src": src, "edit": edit, "fsm_state": st.name(),
            "jsep": allowed, "result": match &result { Ok(()) => "ok".to_string(), Err(e) => format!("err: {e}") },
            "state_after": got.name()});

        match &result {
            Ok(()) => {
                bump(&mut out.counts, "calls_ok");
                match verdict_fsm {
                    None => {
                        // clause 2: forbidden calls return an error
                        violations.push((
                            format!("forbidden_call_ok:call={},state={}", call.name(), st.name()),
                            format!("{} in state {} is forbidden by the JSEP machine but returned Ok", call.name(), st.name()),
                            json!({"op_index": idx, "state_after": got.name()}),
                        ));
                        st = got; // resynchronise so that later calls are judged against reality
                    }
                    Some(next) => {
                        if got != next {
                            // clause 1
                            violations.push((
                                format!("state_mismatch:call={},from={},want={},got={}", call.name(), st.name(), next.name(), got.name()),
                                format!("after successful {} from {} the machine prescribes {} but signaling_state() is {}", call.name(), st.name(), next.name(), got.name()),
                                json!({"op_index": idx}),
                            ));
                            st = got;
                        } else {
                            if next != st {
                                ok_transitions += 1;
                            }
                            st = next;
                        }
                    }
                }
                // keep the partner in step with what the pc really applied
                if let (Call::SetLocal(t), Some(d)) = (call, &desc) {
                    if t != SdpType::Rollback {
                        let peer = w.peer();
                        let _ = wd(peer.set_remote_description(d.clone())).await;
                    }
                }
            }
            Err(e) => {
                bump(&mut out.counts, "calls_err");
                bump(&mut out.counts, &format!("err_class:{}", err_class(e)));
                out.seen.push(("err_message".into(), format!("{}: {}", call.name(), e).chars().take(110).collect()));
                // clause 3: nothing may have changed
                let mut benign = false;
                let diffs = snap_diff(&before, &after, &mode, &mut benign);
                if !diffs.is_empty() {
                    let fields: Vec<String> = diffs.iter().map(|d| d.0.clone()).collect();
                    tr["changed"] = json!(fields);
                    for f in &fields {
                        out.seen.push((
                            "err_changed_field".into(),
                            format!("{}@{} err={}: {}", call.name(), st.name(), err_class(e), f),
                        ));
                    }
                    // key = the failing call site (call, state, JSEP legality, error class); the
                    // damaged fields are the consequence and go into the witness, so the key set
                    // of one defect does not depend on which parameters a program happened to edit
                    violations.push((
                        format!(
                            "err_changed_state:call={},state={},jsep={},err={}",
                            call.name(),
                            st.name(),
                            allowed,
                            err_class(e)
                        ),
                        format!(
                            "{} in state {} returned Err({}) but these differ before/after the call: {}",
                            call.name(),
                            st.name(),
                            e,
                            fields.join(", ")
                        ),
                        json!({"op_index": idx, "error": e.to_string(), "changed_fields": fields,
                               "diff": diffs.iter().map(|(k, v)| json!({"field": k, "change": v})).collect::<Vec<_>>(),
                               "argument": desc_brief(&desc)}),
                    ));
                    st = got;
                }
                if benign {
                    bump(&mut out.counts, "benign_gather_update");
                }
                for a in aux_diff(&before, &after) {
                    bump(&mut out.counts, &format!("aux_changed_on_err:{a}"));
                }
                if !before.trs.is_empty() {
                    bump(&mut out.counts, "err_calls_snapshot_with_transceivers");
                    if before.local.is_some() || before.remote.is_some() || st != St::Stable {
                        err_checked_with_state += 1;
                    }
                }
            }
        }
        out.trace.push(tr);
    }

    for s in &w.src_used {
        out.seen.push(("desc_source".into(), s.clone()));
    }
    out.seen.push(("final_state".into(), st.name().to_string()));
    out.nontrivial = ok_transitions >= 1 && err_checked_with_state >= 1;
    *out.counts.entry("ok_state_transitions_total".to_string()).or_insert(0) += ok_transitions;
    w.shutdown().await;
    drop(held_socket);

    for v in violations.iter_mut() {
        v.2["trace"] = json!(out.trace);
    }
    if !violations.is_empty() {
        let (k, wh, wi) = violations.remove(0);
        out.verdict = Verdict::violated(k, wh, wi);
        out.extra_violations = violations;
    } else if let Some(why) = inconclusive {
        out.verdict = Verdict::Inconclusive(why);
    }
    out
}

// ------------------------------------------------------------------ program generation

fn op_json(c: Call, src: Option<&str>, edit: &str) -> Value {
    match c {
        Call::CreateOffer => json!({"op": "create_offer"}),
        Call::CreateAnswer => json!({"op": "create_answer"}),
        Call::Close => json!({"op": "close"}),
        Call::SetLocal(t) => json!({"op": "set_local", "type": t.as_str(), "src": src.unwrap_or("own"), "edit": edit}),
        Call::SetRemote(t) => json!({"op": "set_remote", "type": t.as_str(), "src": src.unwrap_or("partner"), "edit": edit}),
    }
}

fn prefix_ops(prefix: &str) -> Vec<Value> {
    let so = |t| op_json(Call::SetLocal(t), None, "none");
    let sr = |t| op_json(Call::SetRemote(t), None, "none");
    match prefix {
        "negotiated_offerer" => vec![
            op_json(Call::CreateOffer, None, "none"),
            so(SdpType::Offer),
            sr(SdpType::Answer),
        ],
        "negotiated_answerer" => vec![
            sr(SdpType::Offer),
            op_json(Call::CreateAnswer, None, "none"),
            so(SdpType::Answer),
        ],
        "connected_offerer" => vec![
            json!({"op": "gather"}),
            op_json(Call::CreateOffer, None, "none"),
            so(SdpType::Offer),
            sr(SdpType::Answer),
            json!({"op": "wait_connected"}),
        ],
        "connected_answerer" => vec![
            json!({"op": "gather"}),
            sr(SdpType::Offer),
            op_json(Call::CreateAnswer, None, "none"),
            so(SdpType::Answer),
            json!({"op": "wait_connected"}),
        ],
        _ => vec![],
    }
}

fn media_json(spec: &str) -> Value {
    // "a", "v", "av", "aa", "ad", "d", "A" (audio recvonly) …
    let mut v = vec![];
    for ch in spec.chars() {
        v.push(match ch {
            'a' => json!({"kind": "audio", "dir": "sendrecv"}),
            'A' => json!({"kind": "audio", "dir": "recvonly"}),
            'v' => json!({"kind": "video", "dir": "sendrecv"}),
            'V' => json!({"kind": "video", "dir": "sendonly"}),
            'd' => json!({"kind": "dc"}),
            _ => continue,
        });
    }
    Value::Array(v)
}

const MODES: [&str; 3] = ["webrtc", "srtp", "rtp"];

/// All sequences of length 1..=max_len over the 11-symbol alphabet with "valid" descriptions
/// (set_local ← what the pc created itself, set_remote ← what the partner produced).
fn enumerate(mode: &str, prefix: &str, max_len: usize, out: &mut Vec<Value>) {
    fn rec(mode: &str, prefix: &str, cur: &mut Vec<usize>, max_len: usize, out: &mut Vec<Value>) {
        if !cur.is_empty() {
            let mut ops = prefix_ops(prefix);
            ops.extend(cur.iter().map(|&i| op_json(ALPHABET[i], None, "none")));
            out.push(json!({"class": "enum", "mode": mode, "prefix": prefix,
                "media": media_json("a"), "peer_media": media_json("a"), "ops": ops}));
        }
        if cur.len() == max_len {
            return;
        }
        for i in 0..ALPHABET.len() {
            // after close every call is refused in the same way; still enumerated (cheap)
            cur.push(i);
            rec(mode, prefix, cur, max_len, out);
            cur.pop();
        }
    }
    rec(mode, prefix, &mut vec![], max_len, out);
}

fn random_program(rng: &mut Rng, max_len: usize) -> Value {
    let mode = *rng.pick(&MODES);
    let medias: &[&str] = if mode == "webrtc" {
        &["a", "v", "av", "aa", "ad", "d", "Av", "aV", "avd"]
    } else {
        &["a", "v", "av", "aa", "Av", "aV"]
    };
    let media = *rng.pick(medias);
    let peer_media = if rng.chance(7, 10) { media } else { *rng.pick(medias) };
    let prefix = match rng.below(20) {
        0..=7 => "fresh",
        8..=12 => "negotiated_offerer",
        13..=17 => "negotiated_answerer",
        18 => "connected_offerer",
        _ => "connected_answerer",
    };
    let mut ops = prefix_ops(prefix);
    let mut model = St::Stable; // every prefix ends in stable
    let len = rng.range(1, max_len as u64) as usize;
    for _ in 0..len {
        if rng.chance(1, 25) {
            ops.push(json!({"op": "add_transceiver", "kind": if rng.bool() {"audio"} else {"video"},
                "dir": *rng.pick(&["sendrecv", "sendonly", "recvonly", "inactive"])}));
            continue;
        }
        // 60 %: a call the machine allows in the (guessed) current state, so negotiations progress
        let call = if rng.chance(6, 10) {
            let allowed: Vec<Call> = ALPHABET
                .iter()
                .copied()
                .filter(|c| *c != Call::Close && fsm(model, *c).is_some())
                .collect();
            if allowed.is_empty() { *rng.pick(&ALPHABET) } else { *rng.pick(&allowed) }
        } else {
            let c = *rng.pick(&ALPHABET);
            // close ends all variety: keep it rarer than 1/11
            if c == Call::Close && rng.chance(2, 3) { *rng.pick(&ALPHABET) } else { c }
        };
        let (src, edit) = match call {
            Call::SetLocal(_) => {
                let src = match rng.below(10) {
                    0..=6 => "own",
                    7 => "partner",
                    8 => "helper",
                    _ => "same",
                };
                (Some(src), if rng.bool() { "none" } else { *rng.pick(&EDITS) })
            }
            Call::SetRemote(_) => {
                let src = match rng.below(10) {
                    0..=5 => "partner",
                    6 => "own",
                    7 => "helper",
                    _ => "same",
                };
                (Some(src), if rng.bool() { "none" } else { *rng.pick(&EDITS) })
            }
            _ => (None, "none"),
        };
        if let Some(n) = fsm(model, call) {
            model = n; // optimistic guess
        }
        ops.push(op_json(call, src, edit));
    }
    let mut sc = json!({"class": "random", "mode": mode, "prefix": prefix,
        "media": media_json(media), "peer_media": media_json(peer_media), "ops": ops});
    if prefix == "fresh" && rng.chance(1, 12) {
        sc["ports"] = json!("exhausted");
    }
    sc
}

/// Hand-directed programs for the mechanisms the code reading pointed at (each also reachable by
/// the random generator; these make the quick tier independent of luck).
fn directed() -> Vec<Value> {
    let mut v = vec![];
    let lo = |t, src: &str, e: &str| op_json(Call::SetLocal(t), Some(src), e);
    let ro = |t, src: &str, e: &str| op_json(Call::SetRemote(t), Some(src), e);
    let co = || op_json(Call::CreateOffer, None, "none");
    let ca = || op_json(Call::CreateAnswer, None, "none");
    for mode in MODES {
        for edit in EDITS {
            for prefix in ["fresh", "negotiated_offerer", "negotiated_answerer"] {
                for media in ["a", "av", "aa"] {
                    // refused local offers (wrong state) carrying changed parameters
                    v.push(json!({"class": "directed", "mode": mode, "prefix": prefix, "media": media_json(media), "peer_media": media_json(media),
                        "ops": [co(), lo(SdpType::Offer, "own", "none"), lo(SdpType::Offer, "own", edit), ro(SdpType::Offer, "partner", edit)]}));
                    v.push(json!({"class": "directed", "mode": mode, "prefix": prefix, "media": media_json(media), "peer_media": media_json("a"),
                        "ops": [ro(SdpType::Offer, "partner", "none"), lo(SdpType::Offer, "helper", edit), ro(SdpType::Answer, "partner", edit), ro(SdpType::Offer, "partner", edit)]}));
                    // legal calls with changed / malformed arguments (late failures)
                    v.push(json!({"class": "directed", "mode": mode, "prefix": prefix, "media": media_json(media), "peer_media": media_json(media),
                        "ops": [ro(SdpType::Offer, "partner", edit), ca(), lo(SdpType::Answer, "own", edit), ro(SdpType::Offer, "partner", edit)]}));
                    v.push(json!({"class": "directed", "mode": mode, "prefix": prefix, "media": media_json(media), "peer_media": media_json(media),
                        "ops": [co(), lo(SdpType::Offer, "own", "none"), ro(SdpType::Pranswer, "partner", edit), ro(SdpType::Answer, "partner", edit), ro(SdpType::Answer, "same", "none")]}));
                    // closed connection
                    v.push(json!({"class": "directed", "mode": mode, "prefix": prefix, "media": media_json(media), "peer_media": media_json(media),
                        "ops": [op_json(Call::Close, None, "none"), lo(SdpType::Offer, "helper", edit), ro(SdpType::Offer, "partner", edit), lo(SdpType::Answer, "helper", edit), ro(SdpType::Answer, "helper", edit)]}));
                }
            }
        }
        // established transport, then a remote description with another fingerprint / parameters
        for edit in ["fingerprint", "none", "codecs_drop", "dir", "addr"] {
            for prefix in ["connected_offerer", "connected_answerer"] {
                v.push(json!({"class": "directed", "mode": mode, "prefix": prefix, "media": media_json("ad"), "peer_media": media_json("ad"),
                    "ops": [ro(SdpType::Offer, "partner", edit), ro(SdpType::Offer, "helper", "none"), co(), lo(SdpType::Offer, "own", "none"), ro(SdpType::Answer, "helper", edit)]}));
            }
        }
    }
    for mode in MODES {
        // shortest programs for failures that come after the transport exists
        for prefix in ["connected_offerer", "connected_answerer"] {
            for edit in ["none", "fingerprint"] {
                v.push(json!({"class": "directed", "mode": mode, "prefix": prefix, "media": media_json("a"), "peer_media": media_json("a"),
                    "ops": [ro(SdpType::Offer, "helper", edit)]}));
                v.push(json!({"class": "directed", "mode": mode, "prefix": prefix, "media": media_json("a"), "peer_media": media_json("a"),
                    "ops": [co(), lo(SdpType::Offer, "own", "none"), ro(SdpType::Answer, "helper", edit)]}));
                v.push(json!({"class": "directed", "mode": mode, "prefix": prefix, "media": media_json("a"), "peer_media": media_json("a"),
                    "ops": [co(), lo(SdpType::Offer, "own", "none"), ro(SdpType::Pranswer, "helper", edit)]}));
            }
        }
        // environment fault: no UDP port can be bound by the connection under test
        for media in ["a", "av"] {
            for prog in [
                vec![co()],
                vec![ro(SdpType::Offer, "partner", "none")],
                vec![ro(SdpType::Offer, "partner", "none"), ca()],
                vec![lo(SdpType::Offer, "helper", "none"), ro(SdpType::Answer, "helper", "none")],
                vec![lo(SdpType::Offer, "helper", "none"), ro(SdpType::Pranswer, "helper", "none")],
            ] {
                v.push(json!({"class": "directed", "mode": mode, "prefix": "fresh", "ports": "exhausted",
                    "media": media_json(media), "peer_media": media_json(media), "ops": prog}));
            }
        }
    }
    for s in &mut v {
        // the prefix is part of the program
        let mut ops = prefix_ops(s["prefix"].as_str().unwrap_or("fresh"));
        ops.extend(s["ops"].as_array().cloned().unwrap_or_default());
        s["ops"] = Value::Array(ops);
        if s["mode"] != "webrtc" {
            // no data channels outside WebRTC mode
            if s["media"] == media_json("ad") {
                s["media"] = media_json("a");
                s["peer_media"] = media_json("a");
            }
        }
    }
    v
}

// ------------------------------------------------------------------ driver

fn normalised(sc: &Value) -> Value {
    json!({"mode": sc["mode"], "prefix": sc["prefix"], "ports": sc["ports"], "media": sc["media"], "peer_media": sc["peer_media"], "ops": sc["ops"]})
}

/// Counters / observations of one outcome go into the report at once; the verdict is returned so
/// that violating programs can be reported shortest-first (minimal witness per key).
fn absorb_counts(report: &mut Report, sc: &Value, o: &Outcome) {
    for (k, n) in &o.counts {
        report.count(k, *n);
    }
    for (s, i) in &o.seen {
        report.seen(s, i.clone());
    }
    report.count(&format!("class:{}", sc["class"].as_str().unwrap_or("?")), 1);
    report.count(&format!("mode:{}", sc["mode"].as_str().unwrap_or("?")), 1);
    report.count(&format!("prefix:{}", sc["prefix"].as_str().unwrap_or("?")), 1);
    if o.nontrivial && report.samples.len() < report.max_samples && sc["class"] != "enum" {
        report.sample(json!({"scenario": sc, "trace": o.trace}));
    }
}

fn absorb_verdict(report: &mut Report, sc: &Value, o: Outcome) {
    let mode = sc["mode"].as_str().unwrap_or("?");
    if let Verdict::Violated { key, .. } = &o.verdict {
        report.seen("violation_key_by_mode", format!("{key} | {mode}"));
    }
    for (k, wh, wi) in o.extra_violations {
        report.seen("violation_key_by_mode", format!("{k} | {mode}"));
        report.violation(sc, &k, &wh, wi);
    }
    let h = if o.nontrivial {
        Some(hash_value(&normalised(sc)))
    } else {
        None
    };
    report.record(sc, h, o.verdict);
}

fn absorb(report: &mut Report, sc: &Value, o: Outcome) {
    absorb_counts(report, sc, &o);
    absorb_verdict(report, sc, o);
}

pub fn run(args: &Args) -> i32 {
    let mut report = Report::new(
        args,
        "exploration",
        "a program is non-trivial when at least one call returned Ok and moved the JSEP state AND at least one call \
         returned Err while the connection had transceivers and either a stored description or a non-stable state \
         (so the before/after snapshot comparison had something to lose)",
    );
    report.assume("descriptions are produced by rustrtc itself (own / partner / helper connections) and then edited; the SDP text parser is not part of this property");
    report.assume("the background ICE gatherer may rewrite candidate lines / port / c= of the stored local description at any time; such differences are not attributed to a failed call");
    report.assume("mid value 65535 is avoided (known decoder panic, property C07)");
    report.max_samples = 4;

    let threads = std::thread::available_parallelism().map(|n| n.get()).unwrap_or(8).min(16);
    let rt = build_runtime(threads);

    // ---------------- replay
    if let Some(path) = &args.replay {
        let Some(sc) = load_replay(path) else {
            eprintln!("cannot load replay {}", path.display());
            return 2;
        };
        let mut last = None;
        for _ in 0..5 {
            let o = rt.block_on(run_scenario(sc.clone()));
            let v = o.verdict.is_violated();
            last = Some(o);
            if v {
                break;
            }
        }
        if let Some(o) = last {
            println!("{}", serde_json::to_string_pretty(&json!(o.trace)).unwrap_or_default());
            absorb(&mut report, &sc, o);
        }
        return report.finish(1, 0);
    }

    // ---------------- scenario list
    let mut scenarios: Vec<Value> = vec![];
    let (enum_len_main, enum_len_other, enum_len_neg, n_random, rand_len) = match args.tier {
        Tier::Quick => (4usize, 3usize, 3usize, 2000usize, 14usize),
        Tier::Thorough => (5, 5, 4, 20000, 30),
    };
    let enum_len_main = args.opt("--enum-len").and_then(|s| s.parse().ok()).unwrap_or(enum_len_main);
    let n_random = args.opt("--random").and_then(|s| s.parse().ok()).unwrap_or(n_random);
    enumerate("webrtc", "fresh", enum_len_main, &mut scenarios);
    enumerate("srtp", "fresh", enum_len_other, &mut scenarios);
    enumerate("rtp", "fresh", enum_len_other, &mut scenarios);
    for mode in MODES {
        enumerate(mode, "negotiated_offerer", enum_len_neg, &mut scenarios);
        enumerate(mode, "negotiated_answerer", enum_len_neg, &mut scenarios);
    }
    let n_enum = scenarios.len();
    scenarios.extend(directed());
    let n_directed = scenarios.len() - n_enum;
    let base = Rng::new(args.seed);
    for i in 0..n_random {
        let mut r = base.fork(i as u64 + 1);
        scenarios.push(random_program(&mut r, rand_len));
    }
    report.extra.insert(
        "plan".into(),
        json!({"enumerated": n_enum, "directed": n_directed, "random": n_random,
               "enum_bound": {"webrtc_fresh": enum_len_main, "srtp_fresh": enum_len_other, "rtp_fresh": enum_len_other, "negotiated_prefixes": enum_len_neg},
               "alphabet": ALPHABET.iter().map(|c| c.name()).collect::<Vec<_>>()}),
    );

    // ---------------- run in parallel
    let conc = threads * 3;
    let total = scenarios.len();
    let mut enum_done = 0usize;
    let mut violators: Vec<(Value, Outcome)> = vec![];
    let mut stalled = false;
    let mut received = 0usize;
    {
        let report = &mut report;
        let enum_done = &mut enum_done;
        let violators = &mut violators;
        let stalled = &mut stalled;
        let received = &mut received;
        rt.block_on(async {
            use futures::stream::StreamExt;
            let mut st = futures::stream::iter(scenarios.into_iter().map(|sc| async move {
                let sc2 = sc.clone();
                let h = tokio::spawn(run_scenario(sc2));
                match h.await {
                    Ok(o) => (sc, Ok(o)),
                    Err(e) => (sc, Err(format!("scenario task failed: {e}"))),
                }
            }))
            .buffer_unordered(conc);
            loop {
                // No result for STALL seconds although every single call inside a scenario is
                // watchdog-bounded: a worker thread is blocked inside rustrtc (e.g. the lock-order
                // inversion between create_offer (local→remote description locks) and the SRTP
                // background setup_sdes (remote→local)).  Not a C09 verdict: the unfinished
                // programs are counted inconclusive and the run ends with what it has.
                let next = tokio::time::timeout(STALL, st.next()).await;
                let (sc, r) = match next {
                    Ok(Some(x)) => x,
                    Ok(None) => break,
                    Err(_) => {
                        *stalled = true;
                        break;
                    }
                };
                *received += 1;
                match r {
                    Ok(mut o) => {
                        if sc["class"] == "enum" && !matches!(o.verdict, Verdict::Inconclusive(_)) {
                            *enum_done += 1;
                        }
                        absorb_counts(report, &sc, &o);
                        if o.verdict.is_violated() || !o.extra_violations.is_empty() {
                            o.trace.clear(); // the witness carries its own copy
                            o.seen.clear();
                            o.counts.clear();
                            violators.push((sc, o));
                        } else {
                            absorb_verdict(report, &sc, o);
                        }
                    }
                    Err(why) => {
                        // a panic inside rustrtc while running the program: not a C09 verdict
                        let loc = take_panics()
                            .last()
                            .map(|p| norm_location(&p.location))
                            .unwrap_or_default();
                        report.count("scenario_panicked", 1);
                        report.record(&sc, None, Verdict::Inconclusive(format!("{why} at {loc}")));
                    }
                }
            }
        });
    }
    if stalled {
        let missing = total - received;
        report.count("programs_unfinished_after_stall", missing as u64);
        report.note(format!(
            "run stalled: {missing} program(s) never returned (a thread blocked inside rustrtc); counted inconclusive"
        ));
        for _ in 0..missing {
            report.record(
                &json!({"stalled": true}),
                None,
                Verdict::Inconclusive("program never returned: thread blocked inside rustrtc (suspected lock-order deadlock)".into()),
            );
        }
    }
    // shortest programs first: the replay file kept per violation key is then a minimal witness
    violators.sort_by_key(|(sc, _)| sc["ops"].as_array().map(|a| a.len()).unwrap_or(0));
    for (sc, o) in violators {
        absorb_verdict(&mut report, &sc, o);
    }
    report.exhaustive = Some(enum_done == n_enum);
    report.note(format!(
        "{total} programs: {n_enum} enumerated (all sequences up to the bound, valid descriptions), {n_directed} directed, {n_random} random"
    ));
    if stalled {
        std::mem::forget(rt); // dropping would join the blocked worker threads
    } else {
        rt.shutdown_timeout(Duration::from_secs(5));
    }
    report.finish((total as u64) * 9 / 10, 50)
}
