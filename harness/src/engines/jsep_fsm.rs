//! C09 – signaling state follows the JSEP state machine; rejected calls change nothing.
//!
//! Engine `jsep_fsm` (level: exploration; the enumerated part is exhaustive up to the bound).
//!
//! A *program* is a sequence over the alphabet
//!   {create_offer, create_answer, set_local(offer|answer|pranswer|rollback),
//!    set_remote(offer|answer|pranswer|rollback), close}
//! run against a real `rustrtc::PeerConnection` (the "pc").  Descriptions handed to set_* come from
//! the pc itself ("own"), from a persistent partner PeerConnection that is kept in lock-step where
//! possible ("partner"), from throw-away helper connections ("helper") or are the last remote
//! description sent again ("same"); they are passed unchanged, edited (direction / codecs / extmap /
//! mids / fingerprint / address / sections) or malformed (no fingerprint, unknown hash algorithm,
//! no media, body of the wrong type).
//!
//! ORACLE (demands exactly what the statement demands):
//!  1. A ~25 line JSEP FSM (fn `fsm`).  After every call `signaling_state()` must equal the FSM
//!     state, where the FSM only moves when the call returned `Ok` (a refused call must change
//!     nothing – clause 3).  Provisional answers keep the state, rollback is always refused,
//!     Closed refuses everything (as the statement and the API say).
//!  2. A call the FSM forbids must return `Err`.  The FSM forbids only what JSEP/W3C forbid:
//!     e.g. create_offer in have-local-offer and set_local(offer) in have-local-offer are *allowed*
//!     by JSEP; rustrtc refuses them, which the statement permits (it never says "allowed calls
//!     succeed"), so the oracle accepts `Err` there and only checks clause 3.
//!  3. For every call that returned `Err`: snapshot before == snapshot after, where the snapshot is
//!     (signaling_state, local_description, remote_description, number of transceivers,
//!      per transceiver: mid, direction, payload map, extmap).  These are exactly the observables
//!     named by the statement.  Sender codec parameters / receiver SSRC are recorded as
//!     "aux" counters only (not verdict relevant: the statement lists negotiated parameters of the
//!     transceiver, the anchors list the four accessors above).
//!     The background gathering task legitimately appends candidate lines / rewrites port + c= of
//!     the stored *local* description at any time; a local-description difference confined to
//!     those items is accepted (counted as `benign_gather_update`).
//!  `create_*` calls that return Ok may assign mids / start gathering; not constrained.
//!  No wall-clock verdicts: a call that does not return within the watchdog is *inconclusive*.
//!
//! VIOLATION KEYS (stable, one per failing call site; the damaged fields are in the witness):
//!   err_changed_state:call=<call>,state=<fsm state>,jsep=<allowed|forbidden>,err=<RtcError variant>
//!   forbidden_call_ok:call=<call>,state=<state>
//!   state_mismatch:call=<call>,from=<state>,want=<state>,got=<state>
//!   watch_disagrees:call=<call>      state_moved_between_calls:from=..,to=..
//!
//! PROGRAM CLASSES
//!   enum     – every sequence up to the bound over the 11 symbols with "valid" descriptions
//!              (set_local ← what the pc created / holds, set_remote ← what the partner produced),
//!              on a fresh connection in each transport mode and behind both negotiated prefixes;
//!   directed – refused local offers carrying changed parameters, legal calls with every edit,
//!              closed connections, established transports (prefix `connected_*` waits for
//!              ICE+DTLS) followed by a description from another endpoint, and the environment
//!              fault `"ports": "exhausted"` (the connection's RTP port range is one port that the
//!              harness keeps bound, so socket binds inside rustrtc fail *after* the state change);
//!   random   – seeded programs (length ≤ 14 / ≤ 30) mixing all sources, edits, prefixes, media
//!              layouts, add_transceiver, and (1 in 12 fresh ones) exhausted ports.
//!   Pseudo operations `gather`, `wait_connected`, `add_transceiver` are set-up and never judged.
//!   concurrent – (classes `conc_enum`, `conc_random`) a sequential prefix followed by ONE step in
//!              which two (thorough: up to three) calls overlap.  Schedules: `poll_first` (every
//!              call but the last is polled exactly once by hand, the last call then runs to
//!              completion, then the parked ones are driven to completion – deterministic),
//!              `join` (all futures joined on one task of the multi-thread runtime) and, only
//!              with `--conc-spawn`, `spawn` (one task per call).  ORACLE for the step = linearizability against
//!              the same FSM (fn `judge_concurrent`): the Ok/Err results and the final
//!              `signaling_state()` must be what SOME sequential order of the overlapping calls
//!              prescribes (a call that returned Ok must be allowed at its place in that order and
//!              moves the machine; a call that returned Err moves nothing); a call that returned
//!              Err must not leave its description stored; if every call returned Err the whole
//!              snapshot is unchanged.  States seen while calls are in flight are not judged.
//!              A concurrent program is non-trivial only when at least one of the overlapping
//!              rustrtc futures really returned `Pending` (counted by a poll wrapper).
//!   keys: concurrent_forbidden_ok:calls=a+b,state=..,results=..   (no order allows the Ok results)
//!         concurrent_state_mismatch:calls=..,state=..,results=..,got=..
//!         concurrent_err_left_description:call=..,with=..,state=..,err=..
//!         concurrent_err_changed_state:calls=..,state=..

use crate::common::*;
use rustrtc::{
    Attribute, MediaKind, PeerConnection, RtcConfiguration, RtcError, SdpType, SessionDescription,
    SignalingState, TransceiverDirection, TransportMode,
};
use serde_json::{Value, json};
use std::collections::BTreeMap;
use std::future::Future;
use std::pin::Pin;
use std::sync::Arc;
use std::sync::atomic::{AtomicU32, Ordering};
use std::task::{Context, Poll};
use std::time::Duration;

// ------------------------------------------------------------------ the oracle FSM

#[derive(Clone, Copy, PartialEq, Eq, Debug)]
enum St {
    Stable,
    HaveLocalOffer,
    HaveRemoteOffer,
    Closed,
}

impl St {
    fn name(self) -> &'static str {
        match self {
            St::Stable => "stable",
            St::HaveLocalOffer => "have-local-offer",
            St::HaveRemoteOffer => "have-remote-offer",
            St::Closed => "closed",
        }
    }
    fn of(s: SignalingState) -> St {
        match s {
            SignalingState::Stable => St::Stable,
            SignalingState::HaveLocalOffer => St::HaveLocalOffer,
            SignalingState::HaveRemoteOffer => St::HaveRemoteOffer,
            SignalingState::Closed => St::Closed,
        }
    }
}

#[derive(Clone, Copy, PartialEq, Eq, Debug)]
enum Call {
    CreateOffer,
    CreateAnswer,
    SetLocal(SdpType),
    SetRemote(SdpType),
    Close,
}

impl Call {
    fn name(self) -> String {
        match self {
            Call::CreateOffer => "create_offer".into(),
            Call::CreateAnswer => "create_answer".into(),
            Call::SetLocal(t) => format!("set_local({})", t.as_str()),
            Call::SetRemote(t) => format!("set_remote({})", t.as_str()),
            Call::Close => "close".into(),
        }
    }
}

/// JSEP offer/answer machine (RFC 8829 §3.2 + W3C create* preconditions), with the two
/// documented deviations of this API: pranswer keeps the state, rollback is always refused.
/// `Some(next)` = allowed (state after a *successful* call), `None` = forbidden.
fn fsm(st: St, call: Call) -> Option<St> {
    use SdpType::*;
    use St::*;
    match (call, st) {
        (Call::Close, _) => Some(Closed),
        (_, Closed) => None,
        (Call::CreateOffer, Stable | HaveLocalOffer) => Some(st),
        (Call::CreateOffer, _) => None,
        (Call::CreateAnswer, HaveRemoteOffer) => Some(st),
        (Call::CreateAnswer, _) => None,
        (Call::SetLocal(Rollback) | Call::SetRemote(Rollback), _) => None,
        (Call::SetLocal(Offer), Stable | HaveLocalOffer) => Some(HaveLocalOffer),
        (Call::SetLocal(Answer), HaveRemoteOffer) => Some(Stable),
        (Call::SetLocal(Pranswer), HaveRemoteOffer) => Some(HaveRemoteOffer),
        (Call::SetRemote(Offer), Stable | HaveRemoteOffer) => Some(HaveRemoteOffer),
        (Call::SetRemote(Answer), HaveLocalOffer) => Some(Stable),
        (Call::SetRemote(Pranswer), HaveLocalOffer) => Some(HaveLocalOffer),
        (Call::SetLocal(_) | Call::SetRemote(_), _) => None,
    }
}

const ALPHABET: [Call; 11] = [
    Call::CreateOffer,
    Call::CreateAnswer,
    Call::SetLocal(SdpType::Offer),
    Call::SetLocal(SdpType::Answer),
    Call::SetLocal(SdpType::Pranswer),
    Call::SetLocal(SdpType::Rollback),
    Call::SetRemote(SdpType::Offer),
    Call::SetRemote(SdpType::Answer),
    Call::SetRemote(SdpType::Pranswer),
    Call::SetRemote(SdpType::Rollback),
    Call::Close,
];

// ------------------------------------------------------------------ snapshot

#[derive(Clone, PartialEq, Debug)]
struct TSnap {
    id: u64,
    kind: String,
    mid: Option<String>,
    dir: String,
    pm: BTreeMap<u8, (String, u32, u8)>,
    ext: BTreeMap<u8, String>,
    // aux (not verdict relevant)
    sender_pt: Option<u8>,
    recv_ssrc: Option<u32>,
}

#[derive(Clone, PartialEq, Debug)]
struct Snap {
    state: SignalingState,
    local: Option<SessionDescription>,
    remote: Option<SessionDescription>,
    trs: Vec<TSnap>,
}

fn dir_name(d: TransceiverDirection) -> &'static str {
    match d {
        TransceiverDirection::SendRecv => "sendrecv",
        TransceiverDirection::SendOnly => "sendonly",
        TransceiverDirection::RecvOnly => "recvonly",
        TransceiverDirection::Inactive => "inactive",
    }
}

fn snapshot(pc: &PeerConnection) -> Snap {
    let trs = pc
        .get_transceivers()
        .iter()
        .map(|t| TSnap {
            id: t.id(),
            kind: format!("{:?}", t.kind()).to_lowercase(),
            mid: t.mid(),
            dir: dir_name(t.direction()).to_string(),
            pm: t
                .get_payload_map()
                .into_iter()
                .map(|(k, v)| (k, (v.name, v.clock_rate, v.channels)))
                .collect(),
            ext: t.get_extmap().into_iter().collect(),
            sender_pt: t.sender().map(|s| s.params().payload_type),
            recv_ssrc: t.receiver().map(|r| r.ssrc()),
        })
        .collect();
    Snap {
        state: pc.signaling_state(),
        local: pc.local_description(),
        remote: pc.remote_description(),
        trs,
    }
}

/// What the background gatherer may legitimately touch in the stored local description.
fn strip_gather(d: &SessionDescription, mode: &TransportMode) -> SessionDescription {
    let mut d = d.clone();
    for m in &mut d.media_sections {
        m.attributes
            .retain(|a| a.key != "candidate" && a.key != "end-of-candidates");
        if *mode != TransportMode::WebRtc {
            m.port = 0;
            m.connection = None;
        }
    }
    d
}

fn tsnap_json(t: &TSnap) -> Value {
    json!({"id": t.id, "kind": t.kind, "mid": t.mid, "dir": t.dir,
           "payload_map": t.pm.iter().map(|(k,v)| format!("{}={}/{}/{}", k, v.0, v.1, v.2)).collect::<Vec<_>>(),
           "extmap": t.ext.iter().map(|(k,v)| format!("{}={}", k, v)).collect::<Vec<_>>()})
}

fn desc_brief(d: &Option<SessionDescription>) -> Value {
    match d {
        None => Value::Null,
        Some(d) => json!({
            "type": d.sdp_type.as_str(),
            "hash": format!("{:016x}", fnv64(d.to_sdp_string().as_bytes())),
            "sections": d.media_sections.iter().map(|m| format!("{:?}:{}:{:?}:{}", m.kind, m.mid, m.direction, m.formats.join(","))).collect::<Vec<_>>(),
        }),
    }
}

/// Every verdict-relevant difference between two snapshots: (field, witness), one entry per field.
/// `benign` is set when the only local-description difference is gatherer-owned.
fn snap_diff(a: &Snap, b: &Snap, mode: &TransportMode, benign: &mut bool) -> Vec<(String, Value)> {
    let mut out: Vec<(String, Value)> = vec![];
    if a.state != b.state {
        out.push((
            "signaling_state".into(),
            json!({"before": St::of(a.state).name(), "after": St::of(b.state).name()}),
        ));
    }
    if a.local != b.local {
        let na = a.local.as_ref().map(|d| strip_gather(d, mode));
        let nb = b.local.as_ref().map(|d| strip_gather(d, mode));
        if na != nb {
            out.push((
                "local_description".into(),
                json!({"before": desc_brief(&a.local), "after": desc_brief(&b.local)}),
            ));
        } else {
            *benign = true;
        }
    }
    if a.remote != b.remote {
        out.push((
            "remote_description".into(),
            json!({"before": desc_brief(&a.remote), "after": desc_brief(&b.remote)}),
        ));
    }
    if a.trs.len() != b.trs.len() {
        out.push((
            "transceiver.count".into(),
            json!({"before": a.trs.len(), "after": b.trs.len()}),
        ));
    }
    for (x, y) in a.trs.iter().zip(b.trs.iter()) {
        let mut fs: Vec<&str> = vec![];
        if x.id != y.id {
            fs.push("transceiver.identity");
        } else {
            if x.mid != y.mid {
                fs.push("transceiver.mid");
            }
            if x.dir != y.dir {
                fs.push("transceiver.direction");
            }
            if x.pm != y.pm {
                fs.push("transceiver.payload_map");
            }
            if x.ext != y.ext {
                fs.push("transceiver.extmap");
            }
        }
        for f in fs {
            if !out.iter().any(|(k, _)| k == f) {
                out.push((f.into(), json!({"before": tsnap_json(x), "after": tsnap_json(y)})));
            }
        }
    }
    out
}

fn aux_diff(a: &Snap, b: &Snap) -> Vec<&'static str> {
    let mut v = vec![];
    for (x, y) in a.trs.iter().zip(b.trs.iter()) {
        if x.sender_pt != y.sender_pt {
            v.push("sender.params");
        }
        if x.recv_ssrc != y.recv_ssrc {
            v.push("receiver.ssrc");
        }
    }
    v
}

// ------------------------------------------------------------------ description edits

fn sdp_type_of(s: &str) -> SdpType {
    match s {
        "offer" => SdpType::Offer,
        "answer" => SdpType::Answer,
        "pranswer" => SdpType::Pranswer,
        _ => SdpType::Rollback,
    }
}

const EDITS: [&str; 20] = [
    "none",
    "dir",
    "codecs_drop",
    "codecs_remap",
    "codecs_add",
    "extmap",
    "mids_shift",
    "mids_text",
    "fingerprint",
    "no_fingerprint",
    "bad_alg",
    "garbage_fp",
    "no_media",
    "add_section",
    "drop_section",
    "addr",
    "ssrc",
    "no_ice",
    "no_mid",
    "big_mid",
];

fn for_all_attrs(d: &mut SessionDescription, mut f: impl FnMut(&mut Vec<Attribute>)) {
    f(&mut d.session.attributes);
    for m in &mut d.media_sections {
        f(&mut m.attributes);
    }
}

fn remap_pt_in_value(v: &str, from: &str, to: &str) -> String {
    // "<pt> rest" → "<to> rest"; also apt=<pt>
    let mut out = match v.split_once(' ') {
        Some((p, rest)) if p == from => format!("{to} {rest}"),
        None if v == from => to.to_string(),
        _ => v.to_string(),
    };
    let needle = format!("apt={from}");
    if out.contains(&needle) {
        out = out.replace(&needle, &format!("apt={to}"));
    }
    out
}

fn apply_edit(d: &mut SessionDescription, edit: &str) {
    use rustrtc::Direction as D;
    match edit {
        "dir" => {
            for m in &mut d.media_sections {
                m.direction = match m.direction {
                    D::SendRecv => D::SendOnly,
                    D::SendOnly => D::RecvOnly,
                    D::RecvOnly => D::Inactive,
                    D::Inactive => D::SendRecv,
                };
            }
        }
        "codecs_drop" => {
            for m in &mut d.media_sections {
                if m.kind != MediaKind::Audio && m.kind != MediaKind::Video {
                    continue;
                }
                if m.formats.len() > 1 {
                    let pt = m.formats.remove(0);
                    m.attributes.retain(|a| {
                        !(matches!(a.key.as_str(), "rtpmap" | "fmtp" | "rtcp-fb")
                            && a.value
                                .as_deref()
                                .map(|v| v.split(' ').next() == Some(pt.as_str()))
                                .unwrap_or(false))
                    });
                }
            }
        }
        "codecs_remap" => {
            for m in &mut d.media_sections {
                if m.kind != MediaKind::Audio && m.kind != MediaKind::Video {
                    continue;
                }
                let old: Vec<String> = m.formats.clone();
                for (i, pt) in old.iter().enumerate() {
                    let Ok(n) = pt.parse::<u8>() else { continue };
                    if !(96..=125).contains(&n) {
                        continue;
                    }
                    // shift by 2 through a temporary name to avoid collisions
                    let to = format!("{}", 126u8.saturating_sub(i as u8 % 20));
                    if old.contains(&to) {
                        continue;
                    }
                    m.formats[i] = to.clone();
                    for a in &mut m.attributes {
                        if matches!(a.key.as_str(), "rtpmap" | "fmtp" | "rtcp-fb") {
                            if let Some(v) = &a.value {
                                a.value = Some(remap_pt_in_value(v, pt, &to));
                            }
                        }
                    }
                }
            }
        }
        "codecs_add" => {
            for m in &mut d.media_sections {
                if m.kind == MediaKind::Audio {
                    m.formats.push("119".into());
                    m.attributes
                        .push(Attribute::new("rtpmap", Some("119 L16/16000/1".into())));
                } else if m.kind == MediaKind::Video {
                    m.formats.push("119".into());
                    m.attributes
                        .push(Attribute::new("rtpmap", Some("119 AV1/90000".into())));
                }
            }
        }
        "extmap" => {
            for m in &mut d.media_sections {
                if m.kind != MediaKind::Audio && m.kind != MediaKind::Video {
                    continue;
                }
                if let Some(i) = m.attributes.iter().position(|a| a.key == "extmap") {
                    m.attributes.remove(i);
                }
                m.attributes.push(Attribute::new(
                    "extmap",
                    Some("13 urn:example:verif:ext".into()),
                ));
            }
        }
        "mids_shift" | "mids_text" | "no_mid" | "big_mid" => {
            let mut map: Vec<(String, String)> = vec![];
            for (i, m) in d.media_sections.iter_mut().enumerate() {
                let new = match edit {
                    "mids_shift" => match m.mid.parse::<u32>() {
                        Ok(n) => format!("{}", n + 3),
                        Err(_) => format!("{}", i + 3),
                    },
                    "mids_text" => format!("m{}", m.mid),
                    "big_mid" => format!("{}", 65000 + i), // 65535 is a known C07 panic, not C09's business
                    _ => String::new(),
                };
                map.push((m.mid.clone(), new.clone()));
                m.mid = new.clone();
                // the printer derives a=mid from the field; keep explicit attributes in step
                for a in &mut m.attributes {
                    if a.key == "mid" {
                        a.value = if new.is_empty() { None } else { Some(new.clone()) };
                    }
                }
                if new.is_empty() {
                    m.attributes.retain(|a| a.key != "mid");
                }
            }
            for a in &mut d.session.attributes {
                if a.key == "group" {
                    if edit == "no_mid" {
                        a.value = Some("BUNDLE".into());
                    } else if let Some(v) = &a.value {
                        let parts: Vec<String> = v
                            .split(' ')
                            .map(|p| {
                                map.iter()
                                    .find(|(o, _)| o == p)
                                    .map(|(_, n)| n.clone())
                                    .unwrap_or_else(|| p.to_string())
                            })
                            .collect();
                        a.value = Some(parts.join(" "));
                    }
                }
            }
            if edit == "no_mid" {
                d.session.attributes.retain(|a| a.key != "group");
            }
        }
        "fingerprint" => for_all_attrs(d, |attrs| {
            for a in attrs.iter_mut() {
                if a.key == "fingerprint" {
                    if let Some(v) = &a.value {
                        let mut s = v.clone();
                        let last = s.pop().unwrap_or('0');
                        s.push(if last == '0' { '1' } else { '0' });
                        a.value = Some(s);
                    }
                }
            }
        }),
        "no_fingerprint" => for_all_attrs(d, |attrs| attrs.retain(|a| a.key != "fingerprint")),
        "bad_alg" => for_all_attrs(d, |attrs| {
            for a in attrs.iter_mut() {
                if a.key == "fingerprint" {
                    if let Some(v) = &a.value {
                        let rest = v.split_once(' ').map(|x| x.1).unwrap_or("");
                        a.value = Some(format!("sha-1 {}", rest));
                    }
                }
            }
        }),
        "garbage_fp" => for_all_attrs(d, |attrs| {
            for a in attrs.iter_mut() {
                if a.key == "fingerprint" {
                    a.value = Some("sha-256".into());
                }
            }
        }),
        "no_media" => d.media_sections.clear(),
        "add_section" => {
            if let Some(m) = d
                .media_sections
                .iter()
                .find(|m| m.kind == MediaKind::Audio || m.kind == MediaKind::Video)
                .cloned()
            {
                let mut m = m;
                m.mid = "9".into();
                for a in &mut m.attributes {
                    if a.key == "mid" {
                        a.value = Some("9".into());
                    }
                }
                d.media_sections.push(m);
                for a in &mut d.session.attributes {
                    if a.key == "group" {
                        if let Some(v) = &a.value {
                            a.value = Some(format!("{v} 9"));
                        }
                    }
                }
            }
        }
        "drop_section" => {
            if d.media_sections.len() > 1 {
                d.media_sections.pop();
            }
        }
        "addr" => {
            d.session.connection = Some("IN IP4 127.0.0.1".into());
            for (i, m) in d.media_sections.iter_mut().enumerate() {
                m.connection = None;
                m.port = 41000 + i as u16 * 2;
            }
        }
        "ssrc" => {
            for (i, m) in d.media_sections.iter_mut().enumerate() {
                m.attributes.retain(|a| a.key != "ssrc" && a.key != "ssrc-group");
                m.attributes.push(Attribute::new(
                    "ssrc",
                    Some(format!("{} cname:verif", 777_000 + i)),
                ));
            }
        }
        // (concurrent programs only, see CONC_EDITS) no connection address at all: in RTP/SRTP mode
        // the description is applied without starting the direct transport
        "no_conn" => {
            d.session.connection = None;
            for m in &mut d.media_sections {
                m.connection = None;
            }
        }
        "no_ice" => for_all_attrs(d, |attrs| {
            attrs.retain(|a| a.key != "ice-ufrag" && a.key != "ice-pwd")
        }),
        _ => {}
    }
}

// ------------------------------------------------------------------ the world of one scenario

const CALL_WATCHDOG: Duration = Duration::from_secs(20);
const STALL: Duration = Duration::from_secs(40);

fn mode_of(s: &str) -> TransportMode {
    match s {
        "srtp" => TransportMode::Srtp,
        "rtp" => TransportMode::Rtp,
        _ => TransportMode::WebRtc,
    }
}

fn kind_of(s: &str) -> Option<MediaKind> {
    match s {
        "audio" => Some(MediaKind::Audio),
        "video" => Some(MediaKind::Video),
        _ => None,
    }
}

fn tdir_of(s: &str) -> TransceiverDirection {
    match s {
        "sendonly" => TransceiverDirection::SendOnly,
        "recvonly" => TransceiverDirection::RecvOnly,
        "inactive" => TransceiverDirection::Inactive,
        _ => TransceiverDirection::SendRecv,
    }
}

fn new_pc(mode: &TransportMode, media: &Value) -> PeerConnection {
    new_pc_ports(mode, media, None)
}

/// `only_port`: restrict the connection's RTP port range to exactly this (even) port on 127.0.0.1.
/// The harness keeps that port bound, so every socket bind inside rustrtc fails ("port range
/// exhausted") – the way to reach the failure branches that come *after* the state change.
fn new_pc_ports(mode: &TransportMode, media: &Value, only_port: Option<u16>) -> PeerConnection {
    let mut cfg = RtcConfiguration::default();
    cfg.transport_mode = mode.clone();
    if let Some(p) = only_port {
        cfg.bind_ip = Some("127.0.0.1".into());
        cfg.rtp_start_port = Some(p);
        cfg.rtp_end_port = Some(p);
    }
    let pc = PeerConnection::new(cfg);
    if let Some(arr) = media.as_array() {
        for m in arr {
            let k = m["kind"].as_str().unwrap_or("audio");
            if k == "dc" {
                let _ = pc.create_data_channel("verif", None);
            } else if let Some(kind) = kind_of(k) {
                pc.add_transceiver(kind, tdir_of(m["dir"].as_str().unwrap_or("sendrecv")));
            }
        }
    }
    pc
}

struct World {
    mode: TransportMode,
    pc: PeerConnection,
    peer: Option<PeerConnection>,
    peer_media: Value,
    last_created: Option<SessionDescription>,
    last_remote_sent: Option<SessionDescription>,
    trash: Vec<PeerConnection>,
    src_used: Vec<String>,
}

/// rustrtc has a lock-order inversion between `create_offer` (local → remote description lock) and
/// the SRTP-mode background `setup_sdes` (remote → local) that runs right after a remote
/// description was applied.  It blocks two threads for good and is outside this property, so the
/// harness gives the background task a moment before it asks such a connection for an offer
/// (the stall detector in `run` stays as the backstop).
async fn create_offer_guarded(pc: &PeerConnection) -> Result<SessionDescription, RtcError> {
    if pc.config().transport_mode == TransportMode::Srtp && pc.remote_description().is_some() {
        tokio::time::sleep(Duration::from_millis(4)).await;
    }
    pc.create_offer().await
}

async fn wd<T>(f: impl std::future::Future<Output = T>) -> Option<T> {
    tokio::time::timeout(CALL_WATCHDOG, f).await.ok()
}

impl World {
    fn peer(&mut self) -> PeerConnection {
        if self.peer.is_none() {
            self.peer = Some(new_pc(&self.mode, &self.peer_media));
        }
        self.peer.clone().unwrap()
    }

    /// A well-formed offer from a throw-away connection.
    async fn helper_offer(&mut self) -> Option<SessionDescription> {
        let h = new_pc(&self.mode, &self.peer_media);
        let r = wd(h.create_offer()).await;
        self.trash.push(h);
        r?.ok()
    }

    /// A well-formed answer from a throw-away connection (to our pending offer if there is one).
    async fn helper_answer(&mut self) -> Option<SessionDescription> {
        // first choice: an answer to the offer the pc really has pending; if that offer is one a
        // well-behaved endpoint refuses (it may be an edited / malformed one), answer a helper offer
        let mut candidates = vec![];
        if let Some(d) = self.pc.local_description() {
            if d.sdp_type == SdpType::Offer {
                candidates.push(d);
            }
        }
        if let Some(o) = self.helper_offer().await {
            candidates.push(o);
        }
        for offer in candidates {
            let h = new_pc(&self.mode, &self.peer_media);
            let r1 = wd(h.set_remote_description(offer)).await;
            let out = match r1 {
                Some(Ok(())) => wd(h.create_answer()).await.and_then(|r| r.ok()),
                _ => None,
            };
            self.trash.push(h);
            if out.is_some() {
                return out;
            }
        }
        None
    }

    /// Description for set_remote(ty) from the persistent partner (falls back to helpers).
    async fn partner_desc(&mut self, ty: SdpType) -> Option<SessionDescription> {
        let peer = self.peer();
        let want_offer = matches!(ty, SdpType::Offer | SdpType::Rollback);
        if want_offer {
            match peer.signaling_state() {
                SignalingState::Stable => {
                    if let Some(Ok(o)) = wd(create_offer_guarded(&peer)).await {
                        let _ = peer.set_local_description(o.clone());
                        self.src_used.push("partner:new_offer".into());
                        return Some(o);
                    }
                }
                SignalingState::HaveLocalOffer => {
                    if let Some(o) = peer.local_description() {
                        self.src_used.push("partner:pending_offer".into());
                        return Some(o);
                    }
                }
                _ => {}
            }
            self.src_used.push("partner:helper_offer".into());
            self.helper_offer().await
        } else {
            if peer.signaling_state() == SignalingState::HaveRemoteOffer {
                if let Some(Ok(a)) = wd(peer.create_answer()).await {
                    if ty == SdpType::Answer {
                        let _ = peer.set_local_description(a.clone());
                    }
                    self.src_used.push("partner:new_answer".into());
                    return Some(a);
                }
            }
            if let Some(d) = peer.local_description() {
                if d.sdp_type != SdpType::Offer {
                    self.src_used.push("partner:last_answer".into());
                    return Some(d);
                }
            }
            self.src_used.push("partner:helper_answer".into());
            self.helper_answer().await
        }
    }

    async fn own_desc(&mut self, ty: SdpType) -> Option<SessionDescription> {
        if let Some(d) = &self.last_created {
            self.src_used.push("own:last_created".into());
            return Some(d.clone());
        }
        if let Some(d) = self.pc.local_description() {
            self.src_used.push("own:stored_local".into());
            return Some(d);
        }
        self.src_used.push("own:helper".into());
        if matches!(ty, SdpType::Offer | SdpType::Rollback) {
            self.helper_offer().await
        } else {
            self.helper_answer().await
        }
    }

    async fn desc_for(&mut self, local: bool, ty: SdpType, src: &str, edit: &str) -> Option<SessionDescription> {
        let base = match src {
            "own" => self.own_desc(ty).await,
            "partner" => self.partner_desc(ty).await,
            "same" => match (local, self.last_remote_sent.clone()) {
                (false, Some(d)) => {
                    self.src_used.push("same:last_remote".into());
                    Some(d)
                }
                _ => {
                    if local {
                        self.own_desc(ty).await
                    } else {
                        self.partner_desc(ty).await
                    }
                }
            },
            _ => {
                self.src_used.push("helper".into());
                if matches!(ty, SdpType::Offer | SdpType::Rollback) {
                    self.helper_offer().await
                } else {
                    self.helper_answer().await
                }
            }
        };
        let mut d = base?;
        d.sdp_type = ty; // "wrong type" bodies arise here (e.g. own offer body typed answer)
        apply_edit(&mut d, edit);
        Some(d)
    }

    async fn shutdown(self) {
        self.pc.close();
        if let Some(p) = &self.peer {
            p.close();
        }
        for h in &self.trash {
            h.close();
        }
    }
}

// ------------------------------------------------------------------ running one scenario

struct Outcome {
    verdict: Verdict,
    extra_violations: Vec<(String, String, Value)>,
    nontrivial: bool,
    counts: BTreeMap<String, u64>,
    seen: Vec<(String, String)>,
    trace: Vec<Value>,
}

fn err_class(e: &RtcError) -> &'static str {
    match e {
        RtcError::InvalidConfiguration(_) => "InvalidConfiguration",
        RtcError::InvalidState(_) => "InvalidState",
        RtcError::NotImplemented(_) => "NotImplemented",
        RtcError::Protocol(_) => "Protocol",
        RtcError::Transport(_) => "Transport",
        RtcError::Internal(_) => "Internal",
    }
}

// ------------------------------------------------------------------ overlapping calls

/// Counts how often the wrapped *rustrtc* future returned `Pending` (the measure of "this call
/// really suspended while another call could run").
struct CountPending<F> {
    inner: Pin<Box<F>>,
    pending: Arc<AtomicU32>,
}

impl<F: Future> Future for CountPending<F> {
    type Output = F::Output;
    fn poll(mut self: Pin<&mut Self>, cx: &mut Context<'_>) -> Poll<F::Output> {
        let r = self.inner.as_mut().poll(cx);
        if r.is_pending() {
            self.pending.fetch_add(1, Ordering::Relaxed);
        }
        r
    }
}

type CallFut = Pin<Box<dyn Future<Output = Result<(), RtcError>> + Send>>;

/// One API call as a future that has not been polled yet.  The synchronous calls
/// (set_local_description, close) run inside the first poll.
fn call_future(pc: &PeerConnection, call: Call, desc: Option<SessionDescription>, pending: Arc<AtomicU32>) -> CallFut {
    let pc = pc.clone();
    match call {
        Call::CreateOffer => Box::pin(async move {
            // same lock-order guard as `create_offer_guarded`; its sleep is not counted
            if pc.config().transport_mode == TransportMode::Srtp && pc.remote_description().is_some() {
                tokio::time::sleep(Duration::from_millis(4)).await;
            }
            let f = CountPending { inner: Box::pin(pc.create_offer()), pending };
            f.await.map(|_| ())
        }),
        Call::CreateAnswer => Box::pin(async move {
            let f = CountPending { inner: Box::pin(pc.create_answer()), pending };
            f.await.map(|_| ())
        }),
        Call::SetLocal(_) => Box::pin(async move {
            match desc {
                Some(d) => pc.set_local_description(d),
                None => Err(RtcError::Internal("harness: no description".into())),
            }
        }),
        Call::SetRemote(_) => Box::pin(async move {
            match desc {
                Some(d) => {
                    let f = CountPending { inner: Box::pin(pc.set_remote_description(d)), pending };
                    f.await
                }
                None => Err(RtcError::Internal("harness: no description".into())),
            }
        }),
        Call::Close => Box::pin(async move {
            pc.close();
            Ok(())
        }),
    }
}

async fn poll_once(f: &mut CallFut) -> Option<Result<(), RtcError>> {
    std::future::poll_fn(|cx| {
        Poll::Ready(match f.as_mut().poll(cx) {
            Poll::Ready(r) => Some(r),
            Poll::Pending => None,
        })
    })
    .await
}

/// Drive every future that has no result yet, all joined on the current task.
async fn drive_rest(futs: &mut [CallFut], results: &mut [Option<Result<(), RtcError>>]) -> bool {
    let todo: Vec<(usize, &mut CallFut)> = futs
        .iter_mut()
        .enumerate()
        .filter(|(i, _)| results[*i].is_none())
        .collect();
    if todo.is_empty() {
        return true;
    }
    let joined = futures::future::join_all(todo.into_iter().map(|(i, f)| async move { (i, f.await) }));
    match tokio::time::timeout(CALL_WATCHDOG, joined).await {
        Ok(v) => {
            for (i, r) in v {
                results[i] = Some(r);
            }
            true
        }
        Err(_) => false,
    }
}

/// How long the last call of a `poll_first` step may run *alone* before the parked calls are
/// driven as well (a parked call may hold something the running one waits for).
const SOLO_WATCHDOG: Duration = Duration::from_secs(3);

/// Runs the overlapping calls under the given schedule.  `None` = watchdog (inconclusive).
/// `degraded` is set when the deterministic schedule had to fall back to joint driving.
async fn run_schedule(
    schedule: &str,
    mut futs: Vec<CallFut>,
    degraded: &mut bool,
) -> Option<Vec<Result<(), RtcError>>> {
    let n = futs.len();
    let mut results: Vec<Option<Result<(), RtcError>>> = (0..n).map(|_| None).collect();
    match schedule {
        "spawn" => {
            let handles: Vec<_> = futs.drain(..).map(tokio::spawn).collect();
            for (i, h) in handles.into_iter().enumerate() {
                match tokio::time::timeout(CALL_WATCHDOG, h).await {
                    Ok(Ok(r)) => results[i] = Some(r),
                    _ => return None,
                }
            }
        }
        "join" => {
            if !drive_rest(&mut futs, &mut results).await {
                return None;
            }
        }
        _ => {
            // poll_first: park every call but the last after exactly one poll …
            for i in 0..n.saturating_sub(1) {
                results[i] = poll_once(&mut futs[i]).await;
            }
            // … run the last one to completion on its own …
            if n > 0 {
                match tokio::time::timeout(SOLO_WATCHDOG, &mut futs[n - 1]).await {
                    Ok(r) => results[n - 1] = Some(r),
                    Err(_) => *degraded = true,
                }
            }
            // … then drive the parked ones to completion.
            if !drive_rest(&mut futs, &mut results).await {
                return None;
            }
        }
    }
    results.into_iter().collect()
}

/// Which slot a call's description goes to: Some(true) = local, Some(false) = remote.
fn slot_of(call: Call) -> Option<bool> {
    match call {
        Call::SetLocal(_) => Some(true),
        Call::SetRemote(_) => Some(false),
        _ => None,
    }
}

fn slot_holds(stored: &Option<SessionDescription>, d: &SessionDescription, local: bool, mode: &TransportMode) -> bool {
    match stored {
        None => false,
        Some(s) if local => strip_gather(s, mode) == strip_gather(d, mode),
        Some(s) => s == d,
    }
}

fn permutations(n: usize) -> Vec<Vec<usize>> {
    fn rec(cur: &mut Vec<usize>, n: usize, out: &mut Vec<Vec<usize>>) {
        if cur.len() == n {
            out.push(cur.clone());
            return;
        }
        for i in 0..n {
            if !cur.contains(&i) {
                cur.push(i);
                rec(cur, n, out);
                cur.pop();
            }
        }
    }
    let mut out = vec![];
    rec(&mut vec![], n, &mut out);
    out
}

struct ConcCall {
    call: Call,
    desc: Option<SessionDescription>,
    result: Result<(), RtcError>,
    pending: u32,
}

/// `Err(Internal)` is the open known finding "transport set-up fails after the commit point":
/// such a call may or may not have taken effect; the sequential programs report it under its own
/// keys, the concurrency oracle does not report it a second time under new ones.
fn is_internal(r: &Result<(), RtcError>) -> bool {
    matches!(r, Err(RtcError::Internal(_)))
}

/// Linearizability of one concurrent step against `fsm`.  Returns the violations and, for the
/// trace, every sequential order that is consistent with the observed results (with the final
/// state it prescribes).
fn judge_concurrent(
    st: St,
    calls: &[ConcCall],
    before: &Snap,
    after: &Snap,
    mode: &TransportMode,
    aux: &mut Vec<String>,
) -> (Vec<(String, String, Value)>, Vec<Value>) {
    let n = calls.len();
    let got = St::of(after.state);
    let mut sorted: Vec<usize> = (0..n).collect();
    sorted.sort_by_key(|&i| calls[i].call.name());
    let names = sorted.iter().map(|&i| calls[i].call.name()).collect::<Vec<_>>().join("+");
    let results = sorted
        .iter()
        .map(|&i| if calls[i].result.is_ok() { "ok" } else { "err" })
        .collect::<Vec<_>>()
        .join("+");
    let mut violations = vec![];

    // every sequential order × every admissible reading of the results
    let mut consistent: Vec<(Vec<usize>, Vec<bool>, St)> = vec![];
    for order in permutations(n) {
        let wild: Vec<usize> = (0..n).filter(|&i| is_internal(&calls[i].result)).collect();
        for mask in 0..(1u32 << wild.len()) {
            let applied: Vec<bool> = (0..n)
                .map(|i| match wild.iter().position(|&w| w == i) {
                    Some(b) => mask & (1 << b) != 0,
                    None => calls[i].result.is_ok(),
                })
                .collect();
            let mut s = st;
            let mut ok = true;
            for &i in &order {
                if applied[i] {
                    match fsm(s, calls[i].call) {
                        Some(next) => s = next,
                        None => {
                            ok = false;
                            break;
                        }
                    }
                }
                // a call that returned Err moves nothing (and is always acceptable: the statement
                // never says that allowed calls succeed)
            }
            if ok {
                consistent.push((order.clone(), applied, s));
            }
        }
    }
    let orders_json: Vec<Value> = consistent
        .iter()
        .map(|(o, _, s)| json!({"order": o.iter().map(|&i| calls[i].call.name()).collect::<Vec<_>>(), "final": s.name()}))
        .collect();

    if consistent.is_empty() {
        violations.push((
            format!("concurrent_forbidden_ok:calls={names},state={},results={results}", st.name()),
            format!(
                "overlapping calls {names} issued in state {} returned {results}: no sequential order of them is allowed by the JSEP machine (some call that the machine forbids in every order returned Ok)",
                st.name()
            ),
            json!({"state_after": got.name()}),
        ));
    } else if !consistent.iter().any(|(_, _, s)| *s == got) {
        let want: Vec<&str> = {
            let mut w: Vec<&str> = consistent.iter().map(|(_, _, s)| s.name()).collect();
            w.sort();
            w.dedup();
            w
        };
        violations.push((
            format!("concurrent_state_mismatch:calls={names},state={},results={results},got={}", st.name(), got.name()),
            format!(
                "overlapping calls {names} issued in state {} returned {results}; every sequential order consistent with these results ends in {:?} but signaling_state() is {}",
                st.name(),
                want,
                got.name()
            ),
            json!({"consistent_orders": orders_json}),
        ));
    }

    // Err-atomicity, description slots: a refused call must not leave its description stored.
    for i in 0..n {
        let c = &calls[i];
        let (Err(e), Some(local), Some(d)) = (&c.result, slot_of(c.call), &c.desc) else { continue };
        if is_internal(&c.result) {
            continue;
        }
        let (slot_after, slot_before) = if local { (&after.local, &before.local) } else { (&after.remote, &before.remote) };
        if !slot_holds(slot_after, d, local, mode) || slot_holds(slot_before, d, local, mode) {
            continue;
        }
        let explained = (0..n).any(|j| {
            j != i
                && slot_of(calls[j].call) == Some(local)
                && (calls[j].result.is_ok() || is_internal(&calls[j].result))
                && calls[j].desc.as_ref().map(|dj| slot_holds(&Some(dj.clone()), d, local, mode)).unwrap_or(false)
        });
        if explained {
            continue;
        }
        let with = (0..n).filter(|&j| j != i).map(|j| calls[j].call.name()).collect::<Vec<_>>().join("+");
        violations.push((
            format!("concurrent_err_left_description:call={},with={with},state={},err={}", c.call.name(), st.name(), err_class(e)),
            format!(
                "{} overlapping with {with} in state {} returned Err({e}) but its description is now the stored {} description",
                c.call.name(),
                st.name(),
                if local { "local" } else { "remote" }
            ),
            json!({"argument": desc_brief(&c.desc), "stored_before": desc_brief(slot_before), "stored_after": desc_brief(slot_after)}),
        ));
    }

    // Err-atomicity, everything: if every call was refused, every order prescribes "no change".
    if n > 0 && calls.iter().all(|c| c.result.is_err() && !is_internal(&c.result)) {
        let mut benign = false;
        let diffs = snap_diff(before, after, mode, &mut benign);
        if !diffs.is_empty() {
            let fields: Vec<String> = diffs.iter().map(|d| d.0.clone()).collect();
            violations.push((
                format!("concurrent_err_changed_state:calls={names},state={}", st.name()),
                format!(
                    "overlapping calls {names} in state {} all returned Err but these differ before/after: {}",
                    st.name(),
                    fields.join(", ")
                ),
                json!({"changed_fields": fields,
                       "diff": diffs.iter().map(|(k, v)| json!({"field": k, "change": v})).collect::<Vec<_>>()}),
            ));
        }
    }

    // NOT a verdict (the statement speaks about stored descriptions only for refused calls):
    // is the stored pair what the "last applied description" of some consistent order would be?
    if violations.is_empty() {
        let slot_ok = |local: bool, order: &[usize], applied: &[bool]| -> bool {
            let last = order.iter().rev().find(|&&i| applied[i] && slot_of(calls[i].call) == Some(local) && calls[i].desc.is_some());
            let (slot_after, slot_before) = if local { (&after.local, &before.local) } else { (&after.remote, &before.remote) };
            match last {
                Some(&i) => slot_holds(slot_after, calls[i].desc.as_ref().unwrap(), local, mode),
                None => match (slot_after, slot_before) {
                    (None, None) => true,
                    (Some(a), Some(_)) => slot_holds(slot_before, a, local, mode),
                    _ => false,
                },
            }
        };
        let any = consistent
            .iter()
            .filter(|(_, _, s)| *s == got)
            .any(|(o, a, _)| slot_ok(true, o, a) && slot_ok(false, o, a));
        if !any {
            aux.push(format!("{names}@{} results={results}", st.name()));
        }
    }
    (violations, orders_json)
}

fn call_of(op: &Value) -> Option<Call> {
    let ty = sdp_type_of(op["type"].as_str().unwrap_or(""));
    match op["op"].as_str()? {
        "create_offer" => Some(Call::CreateOffer),
        "create_answer" => Some(Call::CreateAnswer),
        "set_local" => Some(Call::SetLocal(ty)),
        "set_remote" => Some(Call::SetRemote(ty)),
        "close" => Some(Call::Close),
        _ => None,
    }
}

async fn run_scenario(sc: Value) -> Outcome {
    let mode = mode_of(sc["mode"].as_str().unwrap_or("webrtc"));
    let mut out = Outcome {
        verdict: Verdict::Held,
        extra_violations: vec![],
        nontrivial: false,
        counts: BTreeMap::new(),
        seen: vec![],
        trace: vec![],
    };
    let bump = |c: &mut BTreeMap<String, u64>, k: &str| *c.entry(k.to_string()).or_insert(0) += 1;
    let mut violations: Vec<(String, String, Value)> = vec![];

    // optional environment fault: the only port this connection may use is held by the harness
    let mut held_socket = None;
    let mut only_port = None;
    if sc["ports"] == "exhausted" {
        for _ in 0..64 {
            if let Ok(s) = std::net::UdpSocket::bind("127.0.0.1:0") {
                if let Ok(a) = s.local_addr() {
                    if a.port() % 2 == 0 {
                        only_port = Some(a.port());
                        held_socket = Some(s);
                        break;
                    }
                }
            }
        }
        if only_port.is_none() {
            out.verdict = Verdict::Inconclusive("harness could not reserve an even UDP port".into());
            return out;
        }
    }
    let pc = new_pc_ports(&mode, &sc["media"], only_port);
    let sig_rx = pc.subscribe_signaling_state();
    let mut w = World {
        mode: mode.clone(),
        pc: pc.clone(),
        peer: None,
        peer_media: sc["peer_media"].clone(),
        last_created: None,
        last_remote_sent: None,
        trash: vec![],
        src_used: vec![],
    };
    let mut st = St::of(pc.signaling_state());
    if st != St::Stable {
        violations.push((
            "initial_state_not_stable".into(),
            "a new connection does not start in stable".into(),
            json!({"got": st.name()}),
        ));
    }
    let empty = vec![];
    let ops = sc["ops"].as_array().unwrap_or(&empty).clone();
    let mut ok_transitions = 0u64;
    let mut err_checked_with_state = 0u64;
    let mut conc_overlapped = false;
    let mut inconclusive: Option<String> = None;

    'ops: for (idx, op) in ops.iter().enumerate() {
        let name = op["op"].as_str().unwrap_or("");
        // ---- pseudo operations (set-up, never judged)
        match name {
            "add_transceiver" => {
                if let Some(k) = kind_of(op["kind"].as_str().unwrap_or("")) {
                    pc.add_transceiver(k, tdir_of(op["dir"].as_str().unwrap_or("sendrecv")));
                }
                continue;
            }
            "gather" => {
                let _ = tokio::time::timeout(Duration::from_secs(3), pc.wait_for_gathering_complete()).await;
                let peer = w.peer();
                let _ = tokio::time::timeout(Duration::from_secs(3), peer.wait_for_gathering_complete()).await;
                continue;
            }
            // environment events (never judged): the transport ends underneath the connection
            // before the application calls anything.  JSEP signalling is not affected by that; if
            // rustrtc tears the whole connection down by itself the model follows it to Closed.
            "ice_stop" | "peer_close" => {
                if name == "ice_stop" {
                    pc.ice_transport().stop();
                } else {
                    w.peer().close();
                }
                let t0 = std::time::Instant::now();
                let limit = Duration::from_secs(if name == "ice_stop" { 3 } else { 8 });
                while pc.disconnect_reason().is_none() && t0.elapsed() < limit {
                    tokio::time::sleep(Duration::from_millis(20)).await;
                }
                let reason = pc.disconnect_reason().is_some();
                bump(&mut out.counts, if reason { "env_event_reason_recorded" } else { "env_event_no_reason" });
                bump(&mut out.counts, &format!("env_event:{name}"));
                if St::of(pc.signaling_state()) == St::Closed {
                    st = St::Closed;
                }
                out.trace.push(json!({"i": idx, "op": name, "reason_recorded": reason, "signaling": St::of(pc.signaling_state()).name()}));
                continue;
            }
            "wait_connected" => {
                let r = tokio::time::timeout(Duration::from_secs(6), pc.wait_for_connected()).await;
                let connected = matches!(r, Ok(Ok(())));
                bump(&mut out.counts, if connected { "prefix_connected" } else { "prefix_not_connected" });
                out.trace.push(json!({"i": idx, "op": "wait_connected", "connected": connected}));
                continue;
            }
            _ => {}
        }
        if name == "concurrent" {
            // ---- one step of overlapping calls, judged by linearizability (fn judge_concurrent)
            let schedule = op["schedule"].as_str().unwrap_or("poll_first");
            let mut cc: Vec<(Call, Option<SessionDescription>)> = vec![];
            for c in op["calls"].as_array().unwrap_or(&empty) {
                let Some(call) = call_of(c) else { continue };
                let src = c["src"].as_str().unwrap_or(match call {
                    Call::SetLocal(_) => "own",
                    _ => "partner",
                });
                let edit = c["edit"].as_str().unwrap_or("none");
                let desc = match call {
                    Call::SetLocal(t) => w.desc_for(true, t, src, edit).await,
                    Call::SetRemote(t) => w.desc_for(false, t, src, edit).await,
                    _ => None,
                };
                if slot_of(call).is_some() && desc.is_none() {
                    inconclusive = Some(format!("harness could not produce a description for op {idx} ({})", call.name()));
                    break 'ops;
                }
                if let Call::SetRemote(_) = call {
                    w.last_remote_sent = desc.clone();
                }
                cc.push((call, desc));
            }
            if cc.len() < 2 {
                continue;
            }
            let before = snapshot(&pc);
            if St::of(before.state) != st {
                violations.push((
                    format!("state_moved_between_calls:from={},to={}", st.name(), St::of(before.state).name()),
                    "signaling state changed while no monitored call was running".into(),
                    json!({"op_index": idx}),
                ));
                st = St::of(before.state);
            }
            let counters: Vec<Arc<AtomicU32>> = cc.iter().map(|_| Arc::new(AtomicU32::new(0))).collect();
            let futs: Vec<CallFut> = cc
                .iter()
                .zip(counters.iter())
                .map(|((call, desc), n)| call_future(&pc, *call, desc.clone(), n.clone()))
                .collect();
            let mut degraded = false;
            let Some(results) = run_schedule(schedule, futs, &mut degraded).await else {
                inconclusive = Some(format!("watchdog: overlapping calls of op {idx} did not all return"));
                break 'ops;
            };
            let after = snapshot(&pc);
            let got = St::of(after.state);
            let watched = St::of(*sig_rx.borrow());
            if watched != got {
                violations.push((
                    "watch_disagrees:call=concurrent".into(),
                    "subscribe_signaling_state() and signaling_state() report different states".into(),
                    json!({"op_index": idx, "watch": watched.name(), "getter": got.name()}),
                ));
            }
            let calls: Vec<ConcCall> = cc
                .into_iter()
                .zip(results)
                .zip(counters.iter())
                .map(|(((call, desc), result), n)| ConcCall { call, desc, result, pending: n.load(Ordering::Relaxed) })
                .collect();
            let mut aux = vec![];
            let (vs, orders) = judge_concurrent(st, &calls, &before, &after, &mode, &mut aux);
            let suspended = calls.iter().filter(|c| c.pending > 0).count();
            bump(&mut out.counts, "concurrent_steps");
            bump(&mut out.counts, &format!("concurrent_schedule:{schedule}"));
            if degraded {
                bump(&mut out.counts, "concurrent_poll_first_fell_back_to_join");
            }
            if suspended > 0 {
                conc_overlapped = true;
                bump(&mut out.counts, "concurrent_steps_with_a_suspended_call");
                bump(&mut out.counts, &format!("concurrent_overlapped:{}", sc["mode"].as_str().unwrap_or("?")));
            } else {
                bump(&mut out.counts, "concurrent_steps_trivial_no_pending");
            }
            for c in &calls {
                *out.counts.entry("concurrent_pending_polls_total".to_string()).or_insert(0) += c.pending as u64;
                if c.pending > 0 {
                    out.seen.push((
                        "suspending_call".into(),
                        format!("{} {}@{}", sc["mode"].as_str().unwrap_or("?"), c.call.name(), st.name()),
                    ));
                }
                bump(&mut out.counts, &format!("calls:{}", c.call.name()));
                bump(&mut out.counts, if c.result.is_ok() { "calls_ok" } else { "calls_err" });
            }
            {
                let mut sorted: Vec<&ConcCall> = calls.iter().collect();
                sorted.sort_by_key(|c| c.call.name());
                out.seen.push((
                    "concurrent_outcome".into(),
                    format!(
                        "{}@{}={}->{}",
                        sorted.iter().map(|c| c.call.name()).collect::<Vec<_>>().join("+"),
                        st.name(),
                        sorted.iter().map(|c| if c.result.is_ok() { "ok" } else { "err" }).collect::<Vec<_>>().join("+"),
                        got.name()
                    ),
                ));
            }
            for a in aux {
                bump(&mut out.counts, "aux_concurrent_stored_description_not_last_applied");
                out.seen.push(("aux_stored_description_not_last_applied".into(), a));
            }
            out.trace.push(json!({"i": idx, "concurrent": calls.iter().map(|c| json!({
                    "call": c.call.name(),
                    "result": match &c.result { Ok(()) => "ok".to_string(), Err(e) => format!("err: {e}") },
                    "pending_polls": c.pending,
                    "argument": desc_brief(&c.desc)})).collect::<Vec<_>>(),
                "schedule": schedule, "fsm_state": st.name(), "state_after": got.name(),
                "stored_local": desc_brief(&after.local), "stored_remote": desc_brief(&after.remote),
                "consistent_orders": orders}));
            for (k, wh, mut wi) in vs {
                wi["op_index"] = json!(idx);
                wi["schedule"] = json!(schedule);
                violations.push((k, wh, wi));
            }
            st = got; // later calls are judged against reality
            continue;
        }
        let Some(call) = call_of(op) else { continue };
        let src = op["src"].as_str().unwrap_or(match call {
            Call::SetLocal(_) => "own",
            _ => "partner",
        });
        let edit = op["edit"].as_str().unwrap_or("none");

        // materialise the argument first (may drive the partner; never touches the pc)
        let desc = match call {
            Call::SetLocal(t) => w.desc_for(true, t, src, edit).await,
            Call::SetRemote(t) => w.desc_for(false, t, src, edit).await,
            _ => None,
        };
        if matches!(call, Call::SetLocal(_) | Call::SetRemote(_)) && desc.is_none() {
            inconclusive = Some(format!("harness could not produce a description for op {idx} ({})", call.name()));
            break 'ops;
        }

        let before = snapshot(&pc);
        if St::of(before.state) != st {
            // somebody else moved the state between calls (only close() does that in rustrtc)
            violations.push((
                format!("state_moved_between_calls:from={},to={}", st.name(), St::of(before.state).name()),
                "signaling state changed while no monitored call was running".into(),
                json!({"op_index": idx}),
            ));
            st = St::of(before.state);
        }
        let verdict_fsm = fsm(st, call);
        let result: Result<(), RtcError> = match call {
            Call::CreateOffer => match wd(create_offer_guarded(&pc)).await {
                None => {
                    inconclusive = Some(format!("watchdog: {} did not return", call.name()));
                    break 'ops;
                }
                Some(Ok(d)) => {
                    w.last_created = Some(d);
                    Ok(())
                }
                Some(Err(e)) => Err(e),
            },
            Call::CreateAnswer => match wd(pc.create_answer()).await {
                None => {
                    inconclusive = Some(format!("watchdog: {} did not return", call.name()));
                    break 'ops;
                }
                Some(Ok(d)) => {
                    w.last_created = Some(d);
                    Ok(())
                }
                Some(Err(e)) => Err(e),
            },
            Call::SetLocal(_) => pc.set_local_description(desc.clone().unwrap()),
            Call::SetRemote(_) => {
                w.last_remote_sent = desc.clone();
                match wd(pc.set_remote_description(desc.clone().unwrap())).await {
                    None => {
                        inconclusive = Some(format!("watchdog: {} did not return", call.name()));
                        break 'ops;
                    }
                    Some(r) => r,
                }
            }
            Call::Close => {
                pc.close();
                Ok(())
            }
        };
        let after = snapshot(&pc);
        let got = St::of(after.state);
        // observe_at lists both accessors: they must tell the same story
        let watched = St::of(*sig_rx.borrow());
        if watched != got {
            violations.push((
                format!("watch_disagrees:call={}", call.name()),
                "subscribe_signaling_state() and signaling_state() report different states".into(),
                json!({"op_index": idx, "watch": watched.name(), "getter": got.name()}),
            ));
        }
        let allowed = if verdict_fsm.is_some() { "allowed" } else { "forbidden" };
        bump(&mut out.counts, &format!("calls:{}", call.name()));
        out.seen.push((
            "call_state_result".into(),
            format!("{}@{}={}", call.name(), st.name(), if result.is_ok() { "ok" } else { "err" }),
        ));
        let mut tr = json!({"i": idx, "call": call.name(), "src": src, "edit": edit, "fsm_state": st.name(),
            "jsep": allowed, "result": match &result { Ok(()) => "ok".to_string(), Err(e) => format!("err: {e}") },
            "state_after": got.name()});

        match &result {
            Ok(()) => {
                bump(&mut out.counts, "calls_ok");
                match verdict_fsm {
                    None => {
                        // clause 2: forbidden calls return an error
                        violations.push((
                            format!("forbidden_call_ok:call={},state={}", call.name(), st.name()),
                            format!("{} in state {} is forbidden by the JSEP machine but returned Ok", call.name(), st.name()),
                            json!({"op_index": idx, "state_after": got.name()}),
                        ));
                        st = got; // resynchronise so that later calls are judged against reality
                    }
                    Some(next) => {
                        if got != next {
                            // clause 1
                            violations.push((
                                format!("state_mismatch:call={},from={},want={},got={}", call.name(), st.name(), next.name(), got.name()),
                                format!("after successful {} from {} the machine prescribes {} but signaling_state() is {}", call.name(), st.name(), next.name(), got.name()),
                                json!({"op_index": idx}),
                            ));
                            st = got;
                        } else {
                            if next != st {
                                ok_transitions += 1;
                            }
                            st = next;
                        }
                    }
                }
                // keep the partner in step with what the pc really applied
                if let (Call::SetLocal(t), Some(d)) = (call, &desc) {
                    if t != SdpType::Rollback {
                        let peer = w.peer();
                        let _ = wd(peer.set_remote_description(d.clone())).await;
                    }
                }
            }
            Err(e) => {
                bump(&mut out.counts, "calls_err");
                bump(&mut out.counts, &format!("err_class:{}", err_class(e)));
                out.seen.push(("err_message".into(), format!("{}: {}", call.name(), e).chars().take(110).collect()));
                // clause 3: nothing may have changed
                let mut benign = false;
                let diffs = snap_diff(&before, &after, &mode, &mut benign);
                if !diffs.is_empty() {
                    let fields: Vec<String> = diffs.iter().map(|d| d.0.clone()).collect();
                    tr["changed"] = json!(fields);
                    for f in &fields {
                        out.seen.push((
                            "err_changed_field".into(),
                            format!("{}@{} err={}: {}", call.name(), st.name(), err_class(e), f),
                        ));
                    }
                    // key = the failing call site (call, state, JSEP legality, error class); the
                    // damaged fields are the consequence and go into the witness, so the key set
                    // of one defect does not depend on which parameters a program happened to edit
                    violations.push((
                        format!(
                            "err_changed_state:call={},state={},jsep={},err={}",
                            call.name(),
                            st.name(),
                            allowed,
                            err_class(e)
                        ),
                        format!(
                            "{} in state {} returned Err({}) but these differ before/after the call: {}",
                            call.name(),
                            st.name(),
                            e,
                            fields.join(", ")
                        ),
                        json!({"op_index": idx, "error": e.to_string(), "changed_fields": fields,
                               "diff": diffs.iter().map(|(k, v)| json!({"field": k, "change": v})).collect::<Vec<_>>(),
                               "argument": desc_brief(&desc)}),
                    ));
                    st = got;
                }
                if benign {
                    bump(&mut out.counts, "benign_gather_update");
                }
                for a in aux_diff(&before, &after) {
                    bump(&mut out.counts, &format!("aux_changed_on_err:{a}"));
                }
                if !before.trs.is_empty() {
                    bump(&mut out.counts, "err_calls_snapshot_with_transceivers");
                    if before.local.is_some() || before.remote.is_some() || st != St::Stable {
                        err_checked_with_state += 1;
                    }
                }
            }
        }
        out.trace.push(tr);
    }

    for s in &w.src_used {
        out.seen.push(("desc_source".into(), s.clone()));
    }
    out.seen.push(("final_state".into(), st.name().to_string()));
    out.nontrivial = if ops.iter().any(|o| o["op"] == "concurrent") {
        conc_overlapped
    } else {
        ok_transitions >= 1 && err_checked_with_state >= 1
    };
    *out.counts.entry("ok_state_transitions_total".to_string()).or_insert(0) += ok_transitions;
    w.shutdown().await;
    drop(held_socket);

    for v in violations.iter_mut() {
        v.2["trace"] = json!(out.trace);
    }
    if !violations.is_empty() {
        let (k, wh, wi) = violations.remove(0);
        out.verdict = Verdict::violated(k, wh, wi);
        out.extra_violations = violations;
    } else if let Some(why) = inconclusive {
        out.verdict = Verdict::Inconclusive(why);
    }
    out
}

// ------------------------------------------------------------------ program generation

fn op_json(c: Call, src: Option<&str>, edit: &str) -> Value {
    match c {
        Call::CreateOffer => json!({"op": "create_offer"}),
        Call::CreateAnswer => json!({"op": "create_answer"}),
        Call::Close => json!({"op": "close"}),
        Call::SetLocal(t) => json!({"op": "set_local", "type": t.as_str(), "src": src.unwrap_or("own"), "edit": edit}),
        Call::SetRemote(t) => json!({"op": "set_remote", "type": t.as_str(), "src": src.unwrap_or("partner"), "edit": edit}),
    }
}

fn prefix_ops(prefix: &str) -> Vec<Value> {
    let so = |t| op_json(Call::SetLocal(t), None, "none");
    let sr = |t| op_json(Call::SetRemote(t), None, "none");
    match prefix {
        "negotiated_offerer" => vec![
            op_json(Call::CreateOffer, None, "none"),
            so(SdpType::Offer),
            sr(SdpType::Answer),
        ],
        "negotiated_answerer" => vec![
            sr(SdpType::Offer),
            op_json(Call::CreateAnswer, None, "none"),
            so(SdpType::Answer),
        ],
        // states reached WITHOUT the pc having gathered (its first transport set-up is still ahead)
        "hlo_helper" => vec![op_json(Call::SetLocal(SdpType::Offer), Some("helper"), "none")],
        // … and the ordinary ways into the two offer states
        "hlo_own" => vec![op_json(Call::CreateOffer, None, "none"), so(SdpType::Offer)],
        "hro" => vec![sr(SdpType::Offer)],
        "hro_nogather" => vec![op_json(Call::SetRemote(SdpType::Offer), Some("partner"), "no_conn")],
        "connected_offerer" => vec![
            json!({"op": "gather"}),
            op_json(Call::CreateOffer, None, "none"),
            so(SdpType::Offer),
            sr(SdpType::Answer),
            json!({"op": "wait_connected"}),
        ],
        "connected_answerer" => vec![
            json!({"op": "gather"}),
            sr(SdpType::Offer),
            op_json(Call::CreateAnswer, None, "none"),
            so(SdpType::Answer),
            json!({"op": "wait_connected"}),
        ],
        _ => vec![],
    }
}

fn media_json(spec: &str) -> Value {
    // "a", "v", "av", "aa", "ad", "d", "A" (audio recvonly) …
    let mut v = vec![];
    for ch in spec.chars() {
        v.push(match ch {
            'a' => json!({"kind": "audio", "dir": "sendrecv"}),
            'A' => json!({"kind": "audio", "dir": "recvonly"}),
            'v' => json!({"kind": "video", "dir": "sendrecv"}),
            'V' => json!({"kind": "video", "dir": "sendonly"}),
            'd' => json!({"kind": "dc"}),
            _ => continue,
        });
    }
    Value::Array(v)
}

const MODES: [&str; 3] = ["webrtc", "srtp", "rtp"];

/// All sequences of length 1..=max_len over the 11-symbol alphabet with "valid" descriptions
/// (set_local ← what the pc created itself, set_remote ← what the partner produced).
fn enumerate(mode: &str, prefix: &str, max_len: usize, out: &mut Vec<Value>) {
    fn rec(mode: &str, prefix: &str, cur: &mut Vec<usize>, max_len: usize, out: &mut Vec<Value>) {
        if !cur.is_empty() {
            let mut ops = prefix_ops(prefix);
            ops.extend(cur.iter().map(|&i| op_json(ALPHABET[i], None, "none")));
            out.push(json!({"class": "enum", "mode": mode, "prefix": prefix,
                "media": media_json("a"), "peer_media": media_json("a"), "ops": ops}));
        }
        if cur.len() == max_len {
            return;
        }
        for i in 0..ALPHABET.len() {
            // after close every call is refused in the same way; still enumerated (cheap)
            cur.push(i);
            rec(mode, prefix, cur, max_len, out);
            cur.pop();
        }
    }
    rec(mode, prefix, &mut vec![], max_len, out);
}

fn random_program(rng: &mut Rng, max_len: usize) -> Value {
    let mode = *rng.pick(&MODES);
    let medias: &[&str] = if mode == "webrtc" {
        &["a", "v", "av", "aa", "ad", "d", "Av", "aV", "avd"]
    } else {
        &["a", "v", "av", "aa", "Av", "aV"]
    };
    let media = *rng.pick(medias);
    let peer_media = if rng.chance(7, 10) { media } else { *rng.pick(medias) };
    let prefix = match rng.below(20) {
        0..=7 => "fresh",
        8..=12 => "negotiated_offerer",
        13..=17 => "negotiated_answerer",
        18 => "connected_offerer",
        _ => "connected_answerer",
    };
    let mut ops = prefix_ops(prefix);
    let mut model = St::Stable; // every prefix ends in stable
    let len = rng.range(1, max_len as u64) as usize;
    for _ in 0..len {
        if rng.chance(1, 25) {
            ops.push(json!({"op": "add_transceiver", "kind": if rng.bool() {"audio"} else {"video"},
                "dir": *rng.pick(&["sendrecv", "sendonly", "recvonly", "inactive"])}));
            continue;
        }
        // 60 %: a call the machine allows in the (guessed) current state, so negotiations progress
        let call = if rng.chance(6, 10) {
            let allowed: Vec<Call> = ALPHABET
                .iter()
                .copied()
                .filter(|c| *c != Call::Close && fsm(model, *c).is_some())
                .collect();
            if allowed.is_empty() { *rng.pick(&ALPHABET) } else { *rng.pick(&allowed) }
        } else {
            let c = *rng.pick(&ALPHABET);
            // close ends all variety: keep it rarer than 1/11
            if c == Call::Close && rng.chance(2, 3) { *rng.pick(&ALPHABET) } else { c }
        };
        let (src, edit) = match call {
            Call::SetLocal(_) => {
                let src = match rng.below(10) {
                    0..=6 => "own",
                    7 => "partner",
                    8 => "helper",
                    _ => "same",
                };
                (Some(src), if rng.bool() { "none" } else { *rng.pick(&EDITS) })
            }
            Call::SetRemote(_) => {
                let src = match rng.below(10) {
                    0..=5 => "partner",
                    6 => "own",
                    7 => "helper",
                    _ => "same",
                };
                (Some(src), if rng.bool() { "none" } else { *rng.pick(&EDITS) })
            }
            _ => (None, "none"),
        };
        if let Some(n) = fsm(model, call) {
            model = n; // optimistic guess
        }
        ops.push(op_json(call, src, edit));
    }
    let mut sc = json!({"class": "random", "mode": mode, "prefix": prefix,
        "media": media_json(media), "peer_media": media_json(peer_media), "ops": ops});
    if prefix == "fresh" && rng.chance(1, 12) {
        sc["ports"] = json!("exhausted");
    }
    sc
}

// ---- concurrent programs

/// The calls that are `async fn` in rustrtc (the only ones that can park with another call running).
const ASYNC_CALLS: [Call; 5] = [
    Call::CreateOffer,
    Call::CreateAnswer,
    Call::SetRemote(SdpType::Offer),
    Call::SetRemote(SdpType::Answer),
    Call::SetRemote(SdpType::Pranswer),
];

const CONC_PREFIXES: [&str; 7] =
    ["fresh", "hlo_helper", "hro_nogather", "hlo_own", "hro", "negotiated_offerer", "negotiated_answerer"];

fn conc_op(schedule: &str, calls: Vec<Value>) -> Value {
    json!({"op": "concurrent", "schedule": schedule, "calls": calls})
}

/// Default description source of a call inside a concurrent step that follows `prefix`:
/// the pc must get descriptions it has not produced by gathering itself where the prefix avoided
/// gathering, otherwise the usual valid ones.
fn conc_call_json(c: Call, prefix: &str) -> Value {
    match c {
        Call::SetLocal(_) if prefix == "fresh" || prefix == "hlo_helper" => op_json(c, Some("helper"), "none"),
        _ => op_json(c, None, "none"),
    }
}

/// rustrtc's lock-order inversion between `create_offer` (local → remote description lock) and the
/// SRTP-mode background `setup_sdes` (remote → local; runs as soon as the direct transport is up
/// and both descriptions are stored) blocks two threads for good and is outside this property
/// (see `create_offer_guarded`).  A `join`ed step in which create_offer runs while a set_* call
/// completes the transport set-up walks right into it, so in SRTP mode such pairs are only run
/// under `poll_first` with two calls: there the parked call cannot finish its set-up while the
/// other call runs.
fn srtp_deadlock_risk(mode: &str, calls: &[Call]) -> bool {
    mode == "srtp" && calls.contains(&Call::CreateOffer) && calls.iter().any(|c| slot_of(*c).is_some())
}

/// Every ordered pair (async call, any call) under `poll_first` and every ordered pair of async
/// calls under `join`, after every prefix, in one mode, with valid descriptions.
fn enumerate_concurrent(mode: &str, out: &mut Vec<Value>) {
    for prefix in CONC_PREFIXES {
        for a in ASYNC_CALLS {
            for b in ALPHABET {
                let mut ops = prefix_ops(prefix);
                ops.push(conc_op("poll_first", vec![conc_call_json(a, prefix), conc_call_json(b, prefix)]));
                out.push(json!({"class": "conc_enum", "mode": mode, "prefix": prefix,
                    "media": media_json("a"), "peer_media": media_json("a"), "ops": ops}));
            }
            for b in ASYNC_CALLS {
                if srtp_deadlock_risk(mode, &[a, b]) {
                    continue; // both orders of the pair are in the poll_first part above
                }
                let mut ops = prefix_ops(prefix);
                ops.push(conc_op("join", vec![conc_call_json(a, prefix), conc_call_json(b, prefix)]));
                out.push(json!({"class": "conc_enum", "mode": mode, "prefix": prefix,
                    "media": media_json("a"), "peer_media": media_json("a"), "ops": ops}));
            }
        }
    }
}

fn random_call(rng: &mut Rng, model: St, bias_allowed: u64) -> (Call, Option<&'static str>, &'static str) {
    let call = if rng.chance(bias_allowed, 10) {
        let allowed: Vec<Call> = ALPHABET
            .iter()
            .copied()
            .filter(|c| *c != Call::Close && fsm(model, *c).is_some())
            .collect();
        if allowed.is_empty() { *rng.pick(&ALPHABET) } else { *rng.pick(&allowed) }
    } else {
        let c = *rng.pick(&ALPHABET);
        if c == Call::Close && rng.chance(2, 3) { *rng.pick(&ALPHABET) } else { c }
    };
    let edit = if rng.chance(3, 4) {
        "none"
    } else if rng.chance(1, 8) {
        "no_conn"
    } else {
        *rng.pick(&EDITS)
    };
    match call {
        Call::SetLocal(_) => {
            let src = match rng.below(10) {
                0..=4 => "own",
                5 => "partner",
                6..=8 => "helper",
                _ => "same",
            };
            (call, Some(src), edit)
        }
        Call::SetRemote(_) => {
            let src = match rng.below(10) {
                0..=5 => "partner",
                6 => "own",
                7 => "helper",
                _ => "same",
            };
            (call, Some(src), edit)
        }
        _ => (call, None, "none"),
    }
}

/// A random sequential prefix (one of the fixed prefixes plus 0..=3 random calls) followed by one
/// concurrent step of `2..=max_calls` calls, the first of which is usually an async one.
fn random_concurrent(rng: &mut Rng, max_calls: usize, schedules: &[&str]) -> Value {
    // measured: only SRTP-mode calls on a connection that has not gathered yet really suspend
    // (start_direct / build_description wait for the first local candidate); the other modes are
    // kept for the day that changes, the bulk goes where calls overlap
    let mode = if rng.chance(6, 10) { "srtp" } else { *rng.pick(&MODES) };
    let medias: &[&str] = if mode == "webrtc" {
        &["a", "v", "av", "aa", "ad", "Av", "avd"]
    } else {
        &["a", "v", "av", "aa", "Av", "aV"]
    };
    let media = *rng.pick(medias);
    let peer_media = if rng.chance(8, 10) { media } else { *rng.pick(medias) };
    let prefix = match rng.below(20) {
        0..=6 => "fresh",
        7..=12 => "hlo_helper",
        13..=14 => "hro_nogather",
        _ => *rng.pick(&CONC_PREFIXES),
    };
    let mut ops = prefix_ops(prefix);
    let mut model = match prefix {
        "hlo_helper" | "hlo_own" => St::HaveLocalOffer,
        "hro" | "hro_nogather" => St::HaveRemoteOffer,
        _ => St::Stable,
    };
    let extra = if rng.bool() { 0 } else { rng.below(4) };
    for _ in 0..extra {
        let (call, src, edit) = random_call(rng, model, 8);
        if let Some(n) = fsm(model, call) {
            model = n;
        }
        ops.push(op_json(call, src, edit));
    }
    let n = rng.range(2, max_calls as u64) as usize;
    let mut calls = vec![];
    let mut picked: Vec<Call> = vec![];
    for i in 0..n {
        let (mut call, mut src, mut edit) = random_call(rng, model, 6);
        if i + 1 < n && rng.chance(8, 10) && !ASYNC_CALLS.contains(&call) {
            // a call that can park goes first
            let allowed: Vec<Call> = ASYNC_CALLS.iter().copied().filter(|c| fsm(model, *c).is_some()).collect();
            call = if allowed.is_empty() || rng.chance(1, 4) { *rng.pick(&ASYNC_CALLS) } else { *rng.pick(&allowed) };
            src = match call {
                Call::SetRemote(_) => Some(*rng.pick(&["partner", "partner", "helper", "same"])),
                _ => None,
            };
            edit = "none";
        }
        if mode == "srtp" && n > 2 && call == Call::CreateOffer {
            call = Call::CreateAnswer; // see srtp_deadlock_risk
            src = None;
            edit = "none";
        }
        picked.push(call);
        calls.push(op_json(call, src, edit));
    }
    let mut schedule = *rng.pick(schedules);
    if srtp_deadlock_risk(mode, &picked) {
        schedule = "poll_first";
    }
    ops.push(conc_op(schedule, calls));
    json!({"class": "conc_random", "mode": mode, "prefix": prefix,
        "media": media_json(media), "peer_media": media_json(peer_media), "ops": ops})
}

/// Hand-directed programs for the mechanisms the code reading pointed at (each also reachable by
/// the random generator; these make the quick tier independent of luck).
fn directed() -> Vec<Value> {
    let mut v = vec![];
    let lo = |t, src: &str, e: &str| op_json(Call::SetLocal(t), Some(src), e);
    let ro = |t, src: &str, e: &str| op_json(Call::SetRemote(t), Some(src), e);
    let co = || op_json(Call::CreateOffer, None, "none");
    let ca = || op_json(Call::CreateAnswer, None, "none");
    let cl = || op_json(Call::Close, None, "none");
    for mode in MODES {
        for edit in EDITS {
            for prefix in ["fresh", "negotiated_offerer", "negotiated_answerer"] {
                for media in ["a", "av", "aa"] {
                    // refused local offers (wrong state) carrying changed parameters
                    v.push(json!({"class": "directed", "mode": mode, "prefix": prefix, "media": media_json(media), "peer_media": media_json(media),
                        "ops": [co(), lo(SdpType::Offer, "own", "none"), lo(SdpType::Offer, "own", edit), ro(SdpType::Offer, "partner", edit)]}));
                    v.push(json!({"class": "directed", "mode": mode, "prefix": prefix, "media": media_json(media), "peer_media": media_json("a"),
                        "ops": [ro(SdpType::Offer, "partner", "none"), lo(SdpType::Offer, "helper", edit), ro(SdpType::Answer, "partner", edit), ro(SdpType::Offer, "partner", edit)]}));
                    // legal calls with changed / malformed arguments (late failures)
                    v.push(json!({"class": "directed", "mode": mode, "prefix": prefix, "media": media_json(media), "peer_media": media_json(media),
                        "ops": [ro(SdpType::Offer, "partner", edit), ca(), lo(SdpType::Answer, "own", edit), ro(SdpType::Offer, "partner", edit)]}));
                    v.push(json!({"class": "directed", "mode": mode, "prefix": prefix, "media": media_json(media), "peer_media": media_json(media),
                        "ops": [co(), lo(SdpType::Offer, "own", "none"), ro(SdpType::Pranswer, "partner", edit), ro(SdpType::Answer, "partner", edit), ro(SdpType::Answer, "same", "none")]}));
                    // closed connection
                    v.push(json!({"class": "directed", "mode": mode, "prefix": prefix, "media": media_json(media), "peer_media": media_json(media),
                        "ops": [op_json(Call::Close, None, "none"), lo(SdpType::Offer, "helper", edit), ro(SdpType::Offer, "partner", edit), lo(SdpType::Answer, "helper", edit), ro(SdpType::Answer, "helper", edit)]}));
                }
            }
        }
        // established transport, then a remote description with another fingerprint / parameters
        for edit in ["fingerprint", "none", "codecs_drop", "dir", "addr"] {
            for prefix in ["connected_offerer", "connected_answerer"] {
                v.push(json!({"class": "directed", "mode": mode, "prefix": prefix, "media": media_json("ad"), "peer_media": media_json("ad"),
                    "ops": [ro(SdpType::Offer, "partner", edit), ro(SdpType::Offer, "helper", "none"), co(), lo(SdpType::Offer, "own", "none"), ro(SdpType::Answer, "helper", edit)]}));
            }
        }
    }
    for mode in MODES {
        // shortest programs for failures that come after the transport exists
        for prefix in ["connected_offerer", "connected_answerer"] {
            for edit in ["none", "fingerprint"] {
                v.push(json!({"class": "directed", "mode": mode, "prefix": prefix, "media": media_json("a"), "peer_media": media_json("a"),
                    "ops": [ro(SdpType::Offer, "helper", edit)]}));
                v.push(json!({"class": "directed", "mode": mode, "prefix": prefix, "media": media_json("a"), "peer_media": media_json("a"),
                    "ops": [co(), lo(SdpType::Offer, "own", "none"), ro(SdpType::Answer, "helper", edit)]}));
                v.push(json!({"class": "directed", "mode": mode, "prefix": prefix, "media": media_json("a"), "peer_media": media_json("a"),
                    "ops": [co(), lo(SdpType::Offer, "own", "none"), ro(SdpType::Pranswer, "helper", edit)]}));
            }
        }
        // the transport ended (local ICE stop / peer gone) before the application closes: close()
        // still forces Closed, Closed is terminal
        for prefix in ["fresh", "negotiated_offerer", "connected_offerer", "connected_answerer"] {
            for ev in ["ice_stop", "peer_close"] {
                if ev == "peer_close" && !prefix.starts_with("connected") {
                    continue;
                }
                for tail in [vec![cl()], vec![cl(), co()], vec![cl(), lo(SdpType::Offer, "helper", "none")], vec![cl(), ro(SdpType::Offer, "helper", "none")], vec![co(), cl(), cl()]] {
                    let mut ops = vec![json!({"op": ev})];
                    ops.extend(tail);
                    v.push(json!({"class": "directed", "mode": mode, "prefix": prefix, "media": media_json("ad"), "peer_media": media_json("ad"), "ops": ops}));
                }
            }
        }
        // environment fault: no UDP port can be bound by the connection under test
        for media in ["a", "av"] {
            for prog in [
                vec![co()],
                vec![ro(SdpType::Offer, "partner", "none")],
                vec![ro(SdpType::Offer, "partner", "none"), ca()],
                vec![lo(SdpType::Offer, "helper", "none"), ro(SdpType::Answer, "helper", "none")],
                vec![lo(SdpType::Offer, "helper", "none"), ro(SdpType::Pranswer, "helper", "none")],
            ] {
                v.push(json!({"class": "directed", "mode": mode, "prefix": "fresh", "ports": "exhausted",
                    "media": media_json(media), "peer_media": media_json(media), "ops": prog}));
            }
        }
    }
    for s in &mut v {
        // the prefix is part of the program
        let mut ops = prefix_ops(s["prefix"].as_str().unwrap_or("fresh"));
        ops.extend(s["ops"].as_array().cloned().unwrap_or_default());
        s["ops"] = Value::Array(ops);
        if s["mode"] != "webrtc" {
            // no data channels outside WebRTC mode
            if s["media"] == media_json("ad") {
                s["media"] = media_json("a");
                s["peer_media"] = media_json("a");
            }
        }
    }
    v
}

// ------------------------------------------------------------------ driver

fn normalised(sc: &Value) -> Value {
    json!({"mode": sc["mode"], "prefix": sc["prefix"], "ports": sc["ports"], "media": sc["media"], "peer_media": sc["peer_media"], "ops": sc["ops"]})
}

/// Counters / observations of one outcome go into the report at once; the verdict is returned so
/// that violating programs can be reported shortest-first (minimal witness per key).
fn absorb_counts(report: &mut Report, sc: &Value, o: &Outcome) {
    for (k, n) in &o.counts {
        report.count(k, *n);
    }
    for (s, i) in &o.seen {
        report.seen(s, i.clone());
    }
    report.count(&format!("class:{}", sc["class"].as_str().unwrap_or("?")), 1);
    report.count(&format!("mode:{}", sc["mode"].as_str().unwrap_or("?")), 1);
    report.count(&format!("prefix:{}", sc["prefix"].as_str().unwrap_or("?")), 1);
    if o.nontrivial && report.samples.len() < report.max_samples && sc["class"] != "enum" {
        report.sample(json!({"scenario": sc, "trace": o.trace}));
    }
}

fn absorb_verdict(report: &mut Report, sc: &Value, o: Outcome) {
    let mode = sc["mode"].as_str().unwrap_or("?");
    if let Verdict::Violated { key, .. } = &o.verdict {
        report.seen("violation_key_by_mode", format!("{key} | {mode}"));
    }
    for (k, wh, wi) in o.extra_violations {
        report.seen("violation_key_by_mode", format!("{k} | {mode}"));
        report.violation(sc, &k, &wh, wi);
    }
    let h = if o.nontrivial {
        Some(hash_value(&normalised(sc)))
    } else {
        None
    };
    report.record(sc, h, o.verdict);
}

fn absorb(report: &mut Report, sc: &Value, o: Outcome) {
    absorb_counts(report, sc, &o);
    absorb_verdict(report, sc, o);
}

pub fn run(args: &Args) -> i32 {
    let mut report = Report::new(
        args,
        "exploration",
        "a sequential program is non-trivial when at least one call returned Ok and moved the JSEP state AND at least one call \
         returned Err while the connection had transceivers and either a stored description or a non-stable state \
         (so the before/after snapshot comparison had something to lose); a concurrent program (one step of overlapping \
         calls) is non-trivial only when at least one of the overlapping rustrtc futures returned Poll::Pending at least \
         once (counted by a poll wrapper), i.e. another call really ran while it was suspended",
    );
    report.assume("descriptions are produced by rustrtc itself (own / partner / helper connections) and then edited; the SDP text parser is not part of this property");
    report.assume("the background ICE gatherer may rewrite candidate lines / port / c= of the stored local description at any time; such differences are not attributed to a failed call");
    report.assume("mid value 65535 is avoided (known decoder panic, property C07)");
    report.assume("overlapping calls are judged by linearizability: the results and the final state must match SOME sequential order of the calls; states reported while calls are in flight are not judged; a call returning Err(Internal) (open known finding: transport set-up fails after the commit point) may or may not have taken effect");
    report.max_samples = 4;

    let threads = std::thread::available_parallelism().map(|n| n.get()).unwrap_or(8).min(16);
    let rt = build_runtime(threads);

    // ---------------- replay
    if let Some(path) = &args.replay {
        let Some(sc) = load_replay(path) else {
            eprintln!("cannot load replay {}", path.display());
            return 2;
        };
        let mut last = None;
        for _ in 0..5 {
            let o = rt.block_on(run_scenario(sc.clone()));
            let v = o.verdict.is_violated();
            last = Some(o);
            if v {
                break;
            }
        }
        if let Some(o) = last {
            println!("{}", serde_json::to_string_pretty(&json!(o.trace)).unwrap_or_default());
            absorb(&mut report, &sc, o);
        }
        return report.finish(1, 0);
    }

    // ---------------- scenario list
    let mut scenarios: Vec<Value> = vec![];
    let (enum_len_main, enum_len_other, enum_len_neg, n_random, rand_len) = match args.tier {
        Tier::Quick => (4usize, 3usize, 3usize, 2000usize, 14usize),
        Tier::Thorough => (5, 5, 4, 20000, 30),
    };
    let (n_conc_random, conc_max_calls, conc_schedules): (usize, usize, &[&str]) = match args.tier {
        Tier::Quick => (1500, 2, &["poll_first", "poll_first", "join"]),
        Tier::Thorough => (20000, 3, &["poll_first", "poll_first", "join"]),
    };
    let n_conc_random = args.opt("--conc-random").and_then(|s| s.parse().ok()).unwrap_or(n_conc_random);
    let conc_max_calls = args.opt("--conc-calls").and_then(|s| s.parse().ok()).unwrap_or(conc_max_calls).clamp(2, 3);
    // `--conc-spawn`: one tokio task per call, i.e. real thread parallelism.  NOT part of a tier:
    // on the unchanged crate it (rarely, ~1 in 3000 steps) shows that the state check and the
    // publication of the new state are two separate operations on a watch channel, so two calls
    // on two threads can both pass the check (e.g. two set_remote(answer) both Ok from
    // have-local-offer) – a thread-level race that no await point is involved in and that cannot
    // be reproduced deterministically.  The tiers overlap calls at await points only.
    let conc_schedules: &[&str] = if args.has_flag("--conc-spawn") {
        &["poll_first", "join", "spawn", "spawn"]
    } else {
        conc_schedules
    };
    let enum_len_main = args.opt("--enum-len").and_then(|s| s.parse().ok()).unwrap_or(enum_len_main);
    let n_random = args.opt("--random").and_then(|s| s.parse().ok()).unwrap_or(n_random);
    enumerate("webrtc", "fresh", enum_len_main, &mut scenarios);
    enumerate("srtp", "fresh", enum_len_other, &mut scenarios);
    enumerate("rtp", "fresh", enum_len_other, &mut scenarios);
    for mode in MODES {
        enumerate(mode, "negotiated_offerer", enum_len_neg, &mut scenarios);
        enumerate(mode, "negotiated_answerer", enum_len_neg, &mut scenarios);
    }
    let n_enum = scenarios.len();
    scenarios.extend(directed());
    let n_directed = scenarios.len() - n_enum;
    let base = Rng::new(args.seed);
    for i in 0..n_random {
        let mut r = base.fork(i as u64 + 1);
        scenarios.push(random_program(&mut r, rand_len));
    }
    let n_before_conc = scenarios.len();
    for mode in MODES {
        enumerate_concurrent(mode, &mut scenarios);
    }
    let n_conc_enum = scenarios.len() - n_before_conc;
    for i in 0..n_conc_random {
        let mut r = base.fork(1_000_000 + i as u64);
        scenarios.push(random_concurrent(&mut r, conc_max_calls, conc_schedules));
    }
    report.extra.insert(
        "plan".into(),
        json!({"enumerated": n_enum, "directed": n_directed, "random": n_random,
               "concurrent_enumerated": n_conc_enum, "concurrent_random": n_conc_random,
               "concurrent_calls_per_step_max": conc_max_calls, "concurrent_schedules": conc_schedules,
               "enum_bound": {"webrtc_fresh": enum_len_main, "srtp_fresh": enum_len_other, "rtp_fresh": enum_len_other, "negotiated_prefixes": enum_len_neg},
               "alphabet": ALPHABET.iter().map(|c| c.name()).collect::<Vec<_>>()}),
    );

    // ---------------- run in parallel
    let conc = threads * 3;
    let total = scenarios.len();
    let mut enum_done = 0usize;
    let mut violators: Vec<(Value, Outcome)> = vec![];
    let mut stalled = false;
    let mut received = 0usize;
    // programs that were started and have not returned (what is left here after a stall is stuck)
    let in_flight: std::sync::Mutex<BTreeMap<usize, Value>> = std::sync::Mutex::new(BTreeMap::new());
    {
        let report = &mut report;
        let enum_done = &mut enum_done;
        let violators = &mut violators;
        let stalled = &mut stalled;
        let received = &mut received;
        rt.block_on(async {
            use futures::stream::StreamExt;
            let in_flight = &in_flight;
            let mut st = futures::stream::iter(scenarios.into_iter().enumerate().map(|(no, sc)| async move {
                let sc2 = sc.clone();
                in_flight.lock().unwrap().insert(no, sc.clone());
                let h = tokio::spawn(run_scenario(sc2));
                let r = h.await;
                in_flight.lock().unwrap().remove(&no);
                match r {
                    Ok(o) => (sc, Ok(o)),
                    Err(e) => (sc, Err(format!("scenario task failed: {e}"))),
                }
            }))
            .buffer_unordered(conc);
            loop {
                // No result for STALL seconds although every single call inside a scenario is
                // watchdog-bounded: a worker thread is blocked inside rustrtc (e.g. the lock-order
                // inversion between create_offer (local→remote description locks) and the SRTP
                // background setup_sdes (remote→local)).  Not a C09 verdict: the unfinished
                // programs are counted inconclusive and the run ends with what it has.
                let next = tokio::time::timeout(STALL, st.next()).await;
                let (sc, r) = match next {
                    Ok(Some(x)) => x,
                    Ok(None) => break,
                    Err(_) => {
                        *stalled = true;
                        break;
                    }
                };
                *received += 1;
                match r {
                    Ok(mut o) => {
                        if sc["class"] == "enum" && !matches!(o.verdict, Verdict::Inconclusive(_)) {
                            *enum_done += 1;
                        }
                        absorb_counts(report, &sc, &o);
                        if o.verdict.is_violated() || !o.extra_violations.is_empty() {
                            o.trace.clear(); // the witness carries its own copy
                            o.seen.clear();
                            o.counts.clear();
                            violators.push((sc, o));
                        } else {
                            absorb_verdict(report, &sc, o);
                        }
                    }
                    Err(why) => {
                        // a panic inside rustrtc while running the program: not a C09 verdict
                        let loc = take_panics()
                            .last()
                            .map(|p| norm_location(&p.location))
                            .unwrap_or_default();
                        report.count("scenario_panicked", 1);
                        report.record(&sc, None, Verdict::Inconclusive(format!("{why} at {loc}")));
                    }
                }
            }
        });
    }
    if stalled {
        let missing = total - received;
        report.count("programs_unfinished_after_stall", missing as u64);
        report.note(format!(
            "run stalled: {missing} program(s) never returned (a thread blocked inside rustrtc); counted inconclusive"
        ));
        let stuck: Vec<Value> = in_flight.lock().unwrap().values().cloned().collect();
        for sc in stuck.iter().take(4) {
            report.note(format!("program that never returned: {sc}"));
        }
        for i in 0..missing {
            report.record(
                stuck.get(i).unwrap_or(&json!({"stalled": true})),
                None,
                Verdict::Inconclusive("program never returned: thread blocked inside rustrtc (suspected lock-order deadlock)".into()),
            );
        }
    }
    // shortest programs first: the replay file kept per violation key is then a minimal witness
    violators.sort_by_key(|(sc, _)| sc["ops"].as_array().map(|a| a.len()).unwrap_or(0));
    for (sc, o) in violators {
        absorb_verdict(&mut report, &sc, o);
    }
    report.exhaustive = Some(enum_done == n_enum);
    report.note(format!(
        "{total} programs: {n_enum} enumerated (all sequences up to the bound, valid descriptions), {n_directed} directed, {n_random} random, \
         {n_conc_enum} concurrent enumerated (pairs) + {n_conc_random} concurrent random"
    ));
    let conc_total = report.counters.get("concurrent_steps").copied().unwrap_or(0);
    let conc_overlapped = report.counters.get("concurrent_steps_with_a_suspended_call").copied().unwrap_or(0);
    report.note(format!(
        "concurrent steps run: {conc_total}; in {conc_overlapped} of them at least one rustrtc future returned Pending (the others are sequential in effect)"
    ));
    let conc_planned = n_conc_enum + n_conc_random;
    if stalled {
        std::mem::forget(rt); // dropping would join the blocked worker threads
    } else {
        rt.shutdown_timeout(Duration::from_secs(5));
    }
    let code = report.finish((total as u64) * 9 / 10, 50);
    if code == 0 && conc_planned >= 200 && conc_overlapped < 50 {
        eprintln!(
            "BROKEN-RUN property=C09 only {conc_overlapped} of {conc_total} concurrent steps had a call that really suspended (min 50)"
        );
        return 2;
    }
    code
}
