//! One module per engine; `run(args) -> exit code`.
pub mod sctp_rig;
pub mod latch_enum;
pub mod codec_diff;
pub mod srtp_gate;
pub mod srtp_diff;
pub mod dtls_rec;
pub mod dtls_rig;
pub mod demux_bridge;
pub mod stun_diff;
pub mod ice_attack;
pub mod jsep_fsm;
pub mod sdp_neg;
