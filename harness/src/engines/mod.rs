//! One module per engine; `run(args) -> exit code`.
pub mod sctp_rig;
pub mod latch_enum;
pub mod codec_diff;
pub mod srtp_gate;
