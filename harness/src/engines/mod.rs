//! One module per engine; `run(args) -> exit code`.
