//! C16 – STUN/TURN messages, candidate lines and pair priorities (engine `stun_diff`).
//!
//! Reference oracle: webrtc-rs `stun 0.17` (decoder, typed getters, `MessageIntegrity::check`,
//! `FINGERPRINT.check`, XOR address types) and `turn 0.17` (attribute types, ChannelData, and its
//! server on loopback behind a recording forwarder).
//!
//! Parts (DESIGN.md "### C16"):
//!  (a) rustrtc builds (`StunMessage::encode`)  -> the reference decodes: same method/class/tid, same
//!      attribute list (type, order, value as read by the reference's typed getters), valid
//!      MESSAGE-INTEGRITY under the given key (short term / long term MD5), valid FINGERPRINT.
//!  (b) the reference builds -> `StunMessage::decode`: same method, class, tid and every value that
//!      `StunDecoded` exposes.
//!  (c) live TURN: rustrtc's TURN client (driven through `IceTransport`, public API) talks to the
//!      `turn` crate's server through a forwarder that records and validates every unit the client
//!      emits (Allocate / Refresh / CreatePermission / ChannelBind / Send / ChannelData).
//!      The forwarder is also a *faulting front-end*: at scripted points of the client's life (the
//!      unauthenticated Allocate, the authenticated Allocate, the Refresh / CreatePermission /
//!      ChannelBind of the refresh cycle, any subset, in a row) it makes the server answer 401 / 438
//!      with a fresh nonce (by replacing the request with one that carries an unknown nonce) and can
//!      rewrite the REALM of that error response (rebuilt with the reference `stun` crate). RFC 5389
//!      §10.2.3: the client retries with the REALM and NONCE of the error response, and the long-term
//!      key is MD5(user ":" realm ":" pass) over *that* realm. `turn 0.17`'s server derives its key
//!      from the REALM attribute of the request and keeps its nonces server-wide, so it stays the
//!      independent judge of the retried request. Oracle on the client's messages only: USERNAME is
//!      the configured one; REALM is the one announced together with the NONCE the request carries;
//!      the first request of a method after a 401/438 for that method carries that (or a later)
//!      nonce; MESSAGE-INTEGRITY verifies (reference `MessageIntegrity::check`) under the long-term
//!      key of the realm the request itself advertises.
//!  (d) candidate lines: `from_sdp(to_sdp(c)).to_sdp() == to_sdp(c)`.
//!  (e) pair priorities: controlling(g,d) == controlled(d,g), identical ordering on both sides.
//!
//! The oracle never demands byte equality with the reference encoder (padding content and RFFU bits
//! are free in the RFCs); it demands that the reference *reads back* what was put in.

use crate::common::*;
use serde_json::{Value, json};
use std::collections::{BTreeMap, HashMap, HashSet};
use std::net::{IpAddr, Ipv4Addr, Ipv6Addr, SocketAddr};
use std::sync::Arc;
use std::time::Duration;

use rustrtc::transports::ice::stun::{StunAttribute, StunClass, StunMessage, StunMethod};
use rustrtc::{IceCandidate, IceCandidatePair, IceCandidateType, IceRole, TcpType};

use stun::attributes::*;
use stun::error_code::{ErrorCode, ErrorCodeAttribute};
use stun::fingerprint::FINGERPRINT;
use stun::integrity::MessageIntegrity;
use stun::message::{Getter, Message, MessageClass, MessageType, Method, Setter};
use stun::textattrs::TextAttribute;
use stun::xoraddr::XorMappedAddress;

const RULE: &str = "a: the reference decoder parsed a rustrtc-built message and compared >=1 attribute / integrity / fingerprint; \
b: rustrtc decoded a reference-built message of a supported method; c: the recording forwarder validated >=1 authenticated \
TURN request emitted by rustrtc's TURN client; d: a candidate line was printed, parsed and re-printed; e: a (g,d) priority pair \
(or pair of pairs) was evaluated by both roles";

// ------------------------------------------------------------------------------------------------
// small helpers
// ------------------------------------------------------------------------------------------------

fn method_names() -> [(&'static str, StunMethod, u16); 7] {
    [
        ("Binding", StunMethod::Binding, 0x001),
        ("Allocate", StunMethod::Allocate, 0x003),
        ("Refresh", StunMethod::Refresh, 0x004),
        ("Send", StunMethod::Send, 0x006),
        ("Data", StunMethod::Data, 0x007),
        ("CreatePermission", StunMethod::CreatePermission, 0x008),
        ("ChannelBind", StunMethod::ChannelBind, 0x009),
    ]
}
fn class_names() -> [(&'static str, StunClass, u8); 4] {
    [
        ("Request", StunClass::Request, 0),
        ("Indication", StunClass::Indication, 1),
        ("SuccessResponse", StunClass::SuccessResponse, 2),
        ("ErrorResponse", StunClass::ErrorResponse, 3),
    ]
}
fn method_from_name(n: &str) -> Option<(StunMethod, u16)> {
    method_names().iter().find(|m| m.0 == n).map(|m| (m.1, m.2))
}
fn class_from_name(n: &str) -> Option<(StunClass, u8)> {
    class_names().iter().find(|m| m.0 == n).map(|m| (m.1, m.2))
}
fn method_num(m: StunMethod) -> u16 {
    method_names().iter().find(|x| x.1 == m).map(|x| x.2).unwrap_or(0xfff)
}
fn class_num(c: StunClass) -> u8 {
    class_names().iter().find(|x| x.1 == c).map(|x| x.2).unwrap_or(0xff)
}

fn ref_method_num(m: Method) -> u16 {
    // Method's field is private; MessageType::value() with class 0 de-interleaves trivially for
    // methods < 0x80 ... use the Display-free route: encode and decode the type bits ourselves.
    let v = MessageType::new(m, MessageClass::default()).value();
    (v & 0x000f) | ((v & 0x00e0) >> 1) | ((v & 0x3e00) >> 2)
}
fn ref_class_num(t: &MessageType) -> u8 {
    let v = t.value();
    (((v >> 4) & 1) | ((v >> 7) & 2)) as u8
}
fn ref_method_from_num(n: u16) -> Method {
    // build through read_value so that we never depend on the private field
    let raw = (n & 0x000f) | ((n & 0x0070) << 1) | ((n & 0x0f80) << 2);
    let mut t = MessageType::default();
    t.read_value(raw);
    t.method
}
fn ref_class_from_num(n: u8) -> MessageClass {
    let raw: u16 = (((n & 1) as u16) << 4) | (((n & 2) as u16) << 7);
    let mut t = MessageType::default();
    t.read_value(raw);
    t.class
}

fn tx_from_hex(s: &str) -> [u8; 12] {
    let v = unhex(s);
    let mut t = [0u8; 12];
    for (i, b) in v.iter().take(12).enumerate() {
        t[i] = *b;
    }
    t
}

fn gen_tx(rng: &mut Rng) -> [u8; 12] {
    let mut t = [0u8; 12];
    match rng.below(10) {
        0 => {}
        1 => t = [0xff; 12],
        // a transaction id that equals the magic cookie pattern (XOR of v6 addresses becomes symmetric)
        2 => t = [0x21, 0x12, 0xa4, 0x42, 0x21, 0x12, 0xa4, 0x42, 0x21, 0x12, 0xa4, 0x42],
        _ => {
            let b = rng.bytes(12);
            t.copy_from_slice(&b);
        }
    }
    t
}

/// string whose UTF-8 length is exactly `len` bytes
fn gen_string_len(rng: &mut Rng, len: usize) -> String {
    let multi = rng.chance(1, 5);
    let mut s = String::with_capacity(len);
    while s.len() < len {
        let left = len - s.len();
        let c = if multi && left >= 4 && rng.chance(1, 4) {
            *rng.pick(&['\u{1F600}', '\u{10348}'])
        } else if multi && left >= 3 && rng.chance(1, 4) {
            *rng.pick(&['\u{20AC}', '\u{4E2D}'])
        } else if multi && left >= 2 && rng.chance(1, 4) {
            *rng.pick(&['\u{E9}', '\u{DF}'])
        } else {
            // printable ASCII incl. space, ':' and '"'
            (0x20u8 + rng.below(95) as u8) as char
        };
        s.push(c);
    }
    s
}

fn gen_strlen(rng: &mut Rng) -> usize {
    const B: [usize; 24] = [
        0, 1, 2, 3, 4, 5, 6, 7, 8, 9, 127, 128, 129, 255, 256, 257, 511, 512, 513, 514, 760, 761, 762, 763,
    ];
    match rng.below(10) {
        0..=2 => rng.usize_below(17),
        3..=5 => *rng.pick(&B),
        _ => rng.usize_below(764),
    }
}

fn gen_addr(rng: &mut Rng) -> SocketAddr {
    let port = match rng.below(6) {
        0 => 0,
        1 => 65535,
        2 => 0x2112, // XORs to 0
        _ => rng.u16(),
    };
    if rng.bool() {
        let ip = match rng.below(8) {
            0 => Ipv4Addr::new(0, 0, 0, 0),
            1 => Ipv4Addr::new(255, 255, 255, 255),
            2 => Ipv4Addr::new(0x21, 0x12, 0xa4, 0x42),
            3 => Ipv4Addr::new(127, 0, 0, 1),
            _ => Ipv4Addr::from(rng.u32()),
        };
        SocketAddr::new(IpAddr::V4(ip), port)
    } else {
        let ip = match rng.below(8) {
            0 => Ipv6Addr::UNSPECIFIED,
            1 => Ipv6Addr::LOCALHOST,
            2 => Ipv6Addr::from([0xffu8; 16]),
            3 => Ipv4Addr::from(rng.u32()).to_ipv6_mapped(),
            4 => Ipv6Addr::new(0xfe80, 0, 0, 0, rng.u16(), rng.u16(), rng.u16(), rng.u16()),
            _ => {
                let b = rng.bytes(16);
                let mut a = [0u8; 16];
                a.copy_from_slice(&b);
                Ipv6Addr::from(a)
            }
        };
        SocketAddr::new(IpAddr::V6(ip), port)
    }
}

fn gen_u32(rng: &mut Rng) -> u32 {
    match rng.below(6) {
        0 => 0,
        1 => u32::MAX,
        2 => 600,
        3 => 1 << 31,
        _ => rng.u32(),
    }
}

fn parse_addr(v: &Value) -> Option<SocketAddr> {
    v.as_str()?.parse().ok()
}

// ------------------------------------------------------------------------------------------------
// part (a): rustrtc encodes, the reference decodes
// ------------------------------------------------------------------------------------------------

const A_ATTRS: [&str; 14] = [
    "Username",
    "Realm",
    "Nonce",
    "Software",
    "RequestedTransport",
    "Lifetime",
    "Priority",
    "IceControlling",
    "IceControlled",
    "UseCandidate",
    "XorPeerAddress",
    "XorMappedAddress",
    "ChannelNumber",
    "Data",
];

fn gen_a_attr(rng: &mut Rng, name: &str) -> Value {
    match name {
        "Username" | "Realm" | "Nonce" | "Software" => {
            let l = gen_strlen(rng);
            json!({"t": name, "s": gen_string_len(rng, l)})
        }
        "RequestedTransport" => json!({"t": name, "n": *rng.pick(&[17u64, 6, 0, 255])}),
        "Lifetime" | "Priority" => json!({"t": name, "n": gen_u32(rng)}),
        "IceControlling" | "IceControlled" => {
            let v = match rng.below(4) {
                0 => 0,
                1 => u64::MAX,
                _ => rng.next_u64(),
            };
            // u64 does not survive a JSON f64 in every reader: keep it as hex text
            json!({"t": name, "x": format!("{:016x}", v)})
        }
        "UseCandidate" => json!({"t": name}),
        "XorPeerAddress" | "XorMappedAddress" => json!({"t": name, "a": gen_addr(rng).to_string()}),
        "ChannelNumber" => {
            let v = match rng.below(5) {
                0 => 0x4000,
                1 => 0x7fff,
                2 => 0x4fff,
                _ => 0x4000 + rng.below(0x4000) as u16,
            };
            json!({"t": name, "n": v})
        }
        _ => {
            let l = match rng.below(10) {
                0..=2 => rng.usize_below(9),
                3 => *rng.pick(&[1397usize, 1398, 1399, 1400]),
                4 => *rng.pick(&[509usize, 510, 511, 512, 513]),
                _ => rng.usize_below(1401),
            };
            json!({"t": "Data", "h": hex(&rng.bytes(l))})
        }
    }
}

fn gen_key(rng: &mut Rng) -> Value {
    match rng.below(5) {
        0 => json!({"k": "none"}),
        1 | 2 => {
            let l = *rng.pick(&[0usize, 1, 22, 24, 32, 63, 64, 65, 128, 200]);
            json!({"k": "short", "pw": gen_string_len(rng, l)})
        }
        _ => {
            let (lu, lr, lp) = (gen_strlen(rng).min(513), gen_strlen(rng), rng.usize_below(130));
            json!({"k": "long", "u": gen_string_len(rng, lu), "r": gen_string_len(rng, lr), "p": gen_string_len(rng, lp)})
        }
    }
}

fn key_bytes(k: &Value) -> Option<Vec<u8>> {
    // Keys are derived by the *reference* (short term: the password; long term: MD5(user:realm:pass)).
    match k["k"].as_str()? {
        "short" => Some(MessageIntegrity::new_short_term_integrity(k["pw"].as_str()?.to_string()).0),
        "long" => Some(
            MessageIntegrity::new_long_term_integrity(
                k["u"].as_str()?.to_string(),
                k["r"].as_str()?.to_string(),
                k["p"].as_str()?.to_string(),
            )
            .0,
        ),
        _ => None,
    }
}

fn gen_a(rng: &mut Rng, idx: u64) -> Value {
    let ms = method_names();
    let cs = class_names();
    // the first 28 scenarios per run enumerate method x class; later ones sample
    let (m, c) = if idx < 28 {
        (ms[(idx / 4) as usize].0, cs[(idx % 4) as usize].0)
    } else {
        (rng.pick(&ms).0, rng.pick(&cs).0)
    };
    let n = match rng.below(8) {
        0 => 0,
        1 | 2 => 1,
        _ => 1 + rng.usize_below(8),
    };
    let mut attrs = vec![];
    for _ in 0..n {
        let name = *rng.pick(&A_ATTRS);
        attrs.push(gen_a_attr(rng, name));
    }
    json!({"part": "a", "method": m, "class": c, "tx": hex(&gen_tx(rng)), "attrs": attrs,
           "key": gen_key(rng), "fp": rng.chance(3, 4)})
}

fn a_attr_to_rustrtc(a: &Value) -> Option<StunAttribute> {
    let t = a["t"].as_str()?;
    Some(match t {
        "Username" => StunAttribute::Username(a["s"].as_str()?.to_string()),
        "Realm" => StunAttribute::Realm(a["s"].as_str()?.to_string()),
        "Nonce" => StunAttribute::Nonce(a["s"].as_str()?.to_string()),
        "Software" => StunAttribute::Software(a["s"].as_str()?.to_string()),
        "RequestedTransport" => StunAttribute::RequestedTransport(a["n"].as_u64()? as u8),
        "Lifetime" => StunAttribute::Lifetime(a["n"].as_u64()? as u32),
        "Priority" => StunAttribute::Priority(a["n"].as_u64()? as u32),
        "IceControlling" => StunAttribute::IceControlling(u64::from_str_radix(a["x"].as_str()?, 16).ok()?),
        "IceControlled" => StunAttribute::IceControlled(u64::from_str_radix(a["x"].as_str()?, 16).ok()?),
        "UseCandidate" => StunAttribute::UseCandidate,
        "XorPeerAddress" => StunAttribute::XorPeerAddress(parse_addr(&a["a"])?),
        "XorMappedAddress" => StunAttribute::XorMappedAddress(parse_addr(&a["a"])?),
        "ChannelNumber" => StunAttribute::ChannelNumber(a["n"].as_u64()? as u16),
        "Data" => StunAttribute::Data(unhex(a["h"].as_str()?)),
        _ => return None,
    })
}

fn a_attr_type(t: &str) -> u16 {
    match t {
        "Username" => 0x0006,
        "Realm" => 0x0014,
        "Nonce" => 0x0015,
        "Software" => 0x8022,
        "RequestedTransport" => 0x0019,
        "Lifetime" => 0x000d,
        "Priority" => 0x0024,
        "IceControlling" => 0x802a,
        "IceControlled" => 0x8029,
        "UseCandidate" => 0x0025,
        "XorPeerAddress" => 0x0012,
        "XorMappedAddress" => 0x0020,
        "ChannelNumber" => 0x000c,
        "Data" => 0x0013,
        _ => 0,
    }
}

/// Read one raw attribute through the reference's *typed getter* (by placing it alone in a scratch
/// message with the same transaction id) and compare with the input value. Returns Err(reason).
fn ref_attr_equals(tx: [u8; 12], raw: &RawAttribute, a: &Value) -> Result<(), String> {
    let mut tmp = Message::new();
    tmp.transaction_id = stun::agent::TransactionId(tx);
    tmp.write_header();
    tmp.add(raw.typ, &raw.value);
    let t = a["t"].as_str().unwrap_or("");
    match t {
        "Username" | "Realm" | "Nonce" | "Software" => {
            let got = TextAttribute::get_from_as(&tmp, raw.typ).map_err(|e| format!("reference getter: {e}"))?;
            let want = a["s"].as_str().unwrap_or("");
            if got.text != want {
                return Err(format!("text differs: got {} bytes, want {} bytes", got.text.len(), want.len()));
            }
        }
        "RequestedTransport" => {
            let mut g = turn::proto::reqtrans::RequestedTransport::default();
            g.get_from(&tmp).map_err(|e| format!("reference getter: {e}"))?;
            if g.protocol.0 as u64 != a["n"].as_u64().unwrap_or(999) {
                return Err(format!("protocol {} != {}", g.protocol.0, a["n"]));
            }
        }
        "Lifetime" => {
            let mut g = turn::proto::lifetime::Lifetime::default();
            g.get_from(&tmp).map_err(|e| format!("reference getter: {e}"))?;
            if g.0.as_secs() != a["n"].as_u64().unwrap_or(u64::MAX) {
                return Err(format!("lifetime {} != {}", g.0.as_secs(), a["n"]));
            }
        }
        "ChannelNumber" => {
            let mut g = turn::proto::channum::ChannelNumber::default();
            g.get_from(&tmp).map_err(|e| format!("reference getter: {e}"))?;
            if g.0 as u64 != a["n"].as_u64().unwrap_or(u64::MAX) {
                return Err(format!("channel {} != {}", g.0, a["n"]));
            }
        }
        "Data" => {
            let mut g = turn::proto::data::Data::default();
            g.get_from(&tmp).map_err(|e| format!("reference getter: {e}"))?;
            if g.0 != unhex(a["h"].as_str().unwrap_or("")) {
                return Err(format!("data differs (got {} bytes)", g.0.len()));
            }
        }
        "XorPeerAddress" | "XorMappedAddress" => {
            let mut g = XorMappedAddress::default();
            g.get_from_as(&tmp, raw.typ).map_err(|e| format!("reference getter: {e}"))?;
            let want = parse_addr(&a["a"]).ok_or("bad scenario addr")?;
            if g.ip != want.ip() || g.port != want.port() {
                return Err(format!("address {}:{} != {}", g.ip, g.port, want));
            }
        }
        // ICE attributes: webrtc-ice's types are not in the offline cache; the wire format is a plain
        // big-endian integer (RFC 8445 §16.1), compared on the raw value the reference extracted.
        "Priority" => {
            let want = (a["n"].as_u64().unwrap_or(0) as u32).to_be_bytes();
            if raw.value != want {
                return Err(format!("priority raw {} != {}", hex(&raw.value), hex(&want)));
            }
        }
        "IceControlling" | "IceControlled" => {
            let want = u64::from_str_radix(a["x"].as_str().unwrap_or("0"), 16).unwrap_or(0).to_be_bytes();
            if raw.value != want {
                return Err(format!("tie-breaker raw {} != {}", hex(&raw.value), hex(&want)));
            }
        }
        "UseCandidate" => {
            if !raw.value.is_empty() {
                return Err(format!("USE-CANDIDATE with {} value bytes", raw.value.len()));
            }
        }
        _ => return Err("unknown scenario attribute".into()),
    }
    Ok(())
}

struct AOut {
    verdict: Verdict,
    nontrivial: bool,
    bytes_identical_to_ref: Option<bool>,
    len: usize,
}

fn fam(a: &Value) -> &'static str {
    match parse_addr(&a["a"]) {
        Some(SocketAddr::V4(_)) => "v4",
        Some(SocketAddr::V6(_)) => "v6",
        None => "-",
    }
}

fn run_a(sc: &Value) -> AOut {
    let fail = |v: Verdict| AOut { verdict: v, nontrivial: false, bytes_identical_to_ref: None, len: 0 };
    let (Some((method, mnum)), Some((class, cnum))) = (
        method_from_name(sc["method"].as_str().unwrap_or("")),
        class_from_name(sc["class"].as_str().unwrap_or("")),
    ) else {
        return fail(Verdict::Inconclusive("bad scenario: method/class".into()));
    };
    let tx = tx_from_hex(sc["tx"].as_str().unwrap_or(""));
    let empty = vec![];
    let attrs_j = sc["attrs"].as_array().unwrap_or(&empty);
    let mut attributes = vec![];
    for a in attrs_j {
        match a_attr_to_rustrtc(a) {
            Some(x) => attributes.push(x),
            None => return fail(Verdict::Inconclusive("bad scenario: attribute".into())),
        }
    }
    let key = key_bytes(&sc["key"]);
    let kkind = sc["key"]["k"].as_str().unwrap_or("none").to_string();
    let fp = sc["fp"].as_bool().unwrap_or(false);
    let msg = StunMessage { class, method, transaction_id: tx, attributes };

    // ---- the monitored call
    let enc = std::panic::catch_unwind(std::panic::AssertUnwindSafe(|| msg.encode(key.as_deref(), fp)));
    let bytes = match enc {
        Err(_) => {
            let p = take_panics();
            let loc = p.last().map(|r| norm_location(&r.location)).unwrap_or_default();
            return fail(Verdict::violated(
                format!("encode.panic={loc}"),
                "StunMessage::encode panicked",
                json!({"panic": p.last().map(|r| r.message.clone())}),
            ));
        }
        // an encoder that refuses is fine (statement: messages the stack *builds*)
        Ok(Err(_)) => {
            return AOut { verdict: Verdict::Held, nontrivial: false, bytes_identical_to_ref: None, len: 0 };
        }
        Ok(Ok(b)) => b,
    };
    let wit = |extra: Value| json!({"bytes": hex_cap(&bytes, 256), "len": bytes.len(), "detail": extra});
    let viol = |key: String, what: &str, extra: Value| AOut {
        verdict: Verdict::violated(key, what, wit(extra)),
        nontrivial: true,
        bytes_identical_to_ref: None,
        len: bytes.len(),
    };

    // ---- framing demanded by RFC 5389 §6: 20 byte header, length = rest, multiple of 4
    if bytes.len() < 20 || bytes.len() % 4 != 0 {
        return viol(format!("encode.total_len_mod4={}", bytes.len() % 4), "encoded length is not a multiple of 4", json!({}));
    }
    let hl = u16::from_be_bytes([bytes[2], bytes[3]]) as usize;
    if hl + 20 != bytes.len() {
        return viol("encode.header_length".into(), "header length field != bytes after the header", json!({"field": hl}));
    }
    // ---- reference decode
    let mut m = Message::new();
    if let Err(e) = m.write(&bytes) {
        return viol("encode.ref_decode_error".into(), "reference decoder rejects the message", json!({"err": e.to_string()}));
    }
    if ref_method_num(m.typ.method) != mnum || ref_class_num(&m.typ) != cnum {
        return viol(
            format!("encode.type.method={}.class={}", sc["method"].as_str().unwrap_or(""), sc["class"].as_str().unwrap_or("")),
            "reference reads a different method/class",
            json!({"ref_type": format!("{}", m.typ)}),
        );
    }
    if m.transaction_id.0 != tx {
        return viol("encode.transaction_id".into(), "reference reads a different transaction id", json!({}));
    }
    let want_n = attrs_j.len() + key.is_some() as usize + fp as usize;
    let got: Vec<RawAttribute> = m.attributes.0.clone();
    if got.len() != want_n {
        return viol(
            "encode.attr_count".into(),
            "reference sees a different number of attributes",
            json!({"got": got.len(), "want": want_n, "types": got.iter().map(|a| a.typ.value()).collect::<Vec<_>>()}),
        );
    }
    for (i, a) in attrs_j.iter().enumerate() {
        let t = a["t"].as_str().unwrap_or("");
        if got[i].typ.value() != a_attr_type(t) {
            return viol(format!("encode.attr_order.attr={t}"), "attribute type/order differs", json!({"index": i, "got": got[i].typ.value()}));
        }
        if let Err(why) = ref_attr_equals(tx, &got[i], a) {
            let vlen = got[i].value.len();
            let k = match t {
                "XorPeerAddress" | "XorMappedAddress" => format!("encode.attr_value.attr={t}.family={}", fam(a)),
                _ => format!("encode.attr_value.attr={t}.lenmod4={}", vlen % 4),
            };
            return viol(k, "the reference reads a different attribute value than was put in", json!({"index": i, "why": why, "attr": a}));
        }
    }
    let mut idx = attrs_j.len();
    if let Some(k) = &key {
        if got[idx].typ != ATTR_MESSAGE_INTEGRITY || got[idx].value.len() != 20 {
            return viol("encode.integrity_placement".into(), "MESSAGE-INTEGRITY is not the attribute after the caller's attributes", json!({}));
        }
        // NB: a DATA/other attribute of the caller cannot shadow it: types are distinct.
        if let Err(e) = MessageIntegrity(k.clone()).check(&mut m) {
            return viol(format!("encode.integrity_invalid.key={kkind}.fp={fp}"), "reference MessageIntegrity::check fails under the given key", json!({"err": e.to_string()}));
        }
        idx += 1;
    }
    if fp {
        if got[idx].typ != ATTR_FINGERPRINT || idx + 1 != got.len() {
            return viol("encode.fingerprint_placement".into(), "FINGERPRINT is not the last attribute", json!({}));
        }
        if let Err(e) = FINGERPRINT.check(&m) {
            return viol(format!("encode.fingerprint_invalid.mi={}", key.is_some()), "reference FINGERPRINT check fails", json!({"err": e.to_string()}));
        }
    }

    // observation only: is the encoding byte-identical to what the reference's raw `add` would write?
    let mut r = Message::new();
    r.typ = m.typ;
    r.transaction_id = m.transaction_id;
    r.write_header();
    for a in got.iter().take(attrs_j.len()) {
        r.add(a.typ, &a.value);
    }
    let mut same = true;
    if let Some(k) = &key {
        same &= MessageIntegrity(k.clone()).add_to(&mut r).is_ok();
    }
    if fp {
        same &= FINGERPRINT.add_to(&mut r).is_ok();
    }
    same &= r.raw == bytes;

    AOut { verdict: Verdict::Held, nontrivial: want_n > 0, bytes_identical_to_ref: Some(same), len: bytes.len() }
}


// ------------------------------------------------------------------------------------------------
// part (b): the reference encodes, rustrtc decodes
// ------------------------------------------------------------------------------------------------

const B_KNOWN: [&str; 12] = [
    "XorMapped", "XorRelayed", "XorPeer", "ErrorCode", "Realm", "Nonce", "Data", "Lifetime", "UseCandidate", "Software",
    "Username", "Unknown",
];

fn gen_b(rng: &mut Rng, idx: u64) -> Value {
    // methods: the seven rustrtc knows plus three it does not (CONNECT family)
    const METHODS: [u16; 10] = [1, 3, 4, 6, 7, 8, 9, 0xa, 0xb, 0xc];
    let (m, c) = if idx < 40 { (METHODS[(idx / 4) as usize], (idx % 4) as u8) } else { (*rng.pick(&METHODS), rng.below(4) as u8) };
    let dup = idx >= 40 && rng.chance(1, 12);
    let mut names: Vec<&str> = B_KNOWN.to_vec();
    rng.shuffle(&mut names);
    let n = rng.usize_below(names.len() + 1);
    let mut attrs = vec![];
    fn one(rng: &mut Rng, name: &str) -> Value {
        match name {
            "XorMapped" | "XorRelayed" | "XorPeer" => json!({"t": name, "a": gen_addr(rng).to_string()}),
            "ErrorCode" => {
                let code = match rng.below(4) {
                    0 => *rng.pick(&[300u64, 400, 401, 403, 420, 437, 438, 441, 442, 486, 487, 500, 508, 699]),
                    _ => 300 + rng.below(400),
                };
                let l = rng.usize_below(40);
                json!({"t": name, "code": code, "reason": gen_string_len(rng, l)})
            }
            "Realm" | "Nonce" | "Software" | "Username" => {
                let l = gen_strlen(rng).min(if name == "Username" { 513 } else { 763 });
                json!({"t": name, "s": gen_string_len(rng, l)})
            }
            "Data" => {
                let l = match rng.below(4) {
                    0 => rng.usize_below(9),
                    _ => rng.usize_below(1401),
                };
                json!({"t": name, "h": hex(&rng.bytes(l))})
            }
            "Lifetime" => json!({"t": name, "n": gen_u32(rng)}),
            "UseCandidate" => json!({"t": name}),
            _ => {
                // a type neither side assigns a meaning to in StunDecoded (comprehension-optional range
                // and a few TURN ones rustrtc ignores), any value length incl. unpadded ones
                let typ = *rng.pick(&[0x8023u64, 0x802b, 0x802c, 0xc001, 0x0018, 0x001a, 0x0022, 0x0017, 0x0001, 0x0024, 0x8029]);
                let l = rng.usize_below(23);
                json!({"t": "Unknown", "typ": typ, "h": hex(&rng.bytes(l))})
            }
        }
    }
    for name in names.iter().take(n) {
        attrs.push(one(rng, name));
        if *name == "Unknown" && rng.bool() {
            attrs.push(one(rng, "Unknown"));
        }
    }
    if dup && !attrs.is_empty() {
        // duplicate one address/text attribute with a different value (RFC 5389 §15: a receiver MAY
        // ignore all but the first; which one StunDecoded reports is observed, not judged)
        let name = *rng.pick(&["XorMapped", "XorRelayed", "XorPeer", "Realm", "Nonce", "Lifetime"]);
        attrs.push(one(rng, name));
        attrs.push(one(rng, name));
    }
    let mi = match rng.below(3) {
        0 => json!({"k": "none"}),
        _ => gen_key(rng),
    };
    // RFC 5389 §15: padding bits "may be any value" – when nothing authenticates the bytes, refill them
    let fp = rng.bool();
    let padfill = mi["k"] == "none" && !fp && rng.chance(1, 3);
    json!({"part": "b", "method": m, "class": c, "tx": hex(&gen_tx(rng)), "attrs": attrs, "mi": mi, "fp": fp, "dup": dup, "padfill": padfill})
}

fn build_ref(sc: &Value) -> Result<Message, String> {
    let mut m = Message::new();
    m.typ = MessageType::new(
        ref_method_from_num(sc["method"].as_u64().unwrap_or(1) as u16),
        ref_class_from_num(sc["class"].as_u64().unwrap_or(0) as u8),
    );
    m.transaction_id = stun::agent::TransactionId(tx_from_hex(sc["tx"].as_str().unwrap_or("")));
    m.write_header();
    let e = |e: stun::Error| e.to_string();
    for a in sc["attrs"].as_array().unwrap_or(&vec![]) {
        match a["t"].as_str().unwrap_or("") {
            t @ ("XorMapped" | "XorRelayed" | "XorPeer") => {
                let addr = parse_addr(&a["a"]).ok_or("addr")?;
                let x = XorMappedAddress { ip: addr.ip(), port: addr.port() };
                let typ = match t {
                    "XorMapped" => ATTR_XORMAPPED_ADDRESS,
                    "XorRelayed" => ATTR_XOR_RELAYED_ADDRESS,
                    _ => ATTR_XOR_PEER_ADDRESS,
                };
                x.add_to_as(&mut m, typ).map_err(e)?;
            }
            "ErrorCode" => ErrorCodeAttribute {
                code: ErrorCode(a["code"].as_u64().unwrap_or(400) as u16),
                reason: a["reason"].as_str().unwrap_or("").as_bytes().to_vec(),
            }
            .add_to(&mut m)
            .map_err(e)?,
            t @ ("Realm" | "Nonce" | "Software" | "Username") => {
                let typ = match t {
                    "Realm" => ATTR_REALM,
                    "Nonce" => ATTR_NONCE,
                    "Software" => ATTR_SOFTWARE,
                    _ => ATTR_USERNAME,
                };
                TextAttribute::new(typ, a["s"].as_str().unwrap_or("").to_string()).add_to(&mut m).map_err(e)?;
            }
            "Data" => turn::proto::data::Data(unhex(a["h"].as_str().unwrap_or(""))).add_to(&mut m).map_err(e)?,
            "Lifetime" => turn::proto::lifetime::Lifetime(Duration::from_secs(a["n"].as_u64().unwrap_or(0))).add_to(&mut m).map_err(e)?,
            "UseCandidate" => m.add(ATTR_USE_CANDIDATE, &[]),
            _ => m.add(AttrType(a["typ"].as_u64().unwrap_or(0xc001) as u16), &unhex(a["h"].as_str().unwrap_or(""))),
        }
    }
    if let Some(k) = key_bytes(&sc["mi"]) {
        MessageIntegrity(k).add_to(&mut m).map_err(e)?;
    }
    if sc["fp"].as_bool().unwrap_or(false) {
        FINGERPRINT.add_to(&mut m).map_err(e)?;
    }
    if sc["padfill"].as_bool().unwrap_or(false) {
        let mut off = 20;
        for a in &m.attributes.0 {
            let l = a.length as usize;
            let padded = (l + 3) & !3;
            for i in l..padded {
                if let Some(b) = m.raw.get_mut(off + 4 + i) {
                    *b = 0xa5;
                }
            }
            off += 4 + padded;
        }
    }
    Ok(m)
}

struct BOut {
    verdict: Verdict,
    nontrivial: bool,
    dup_policy: Option<&'static str>,
    unsupported_err: bool,
}

fn run_b(sc: &Value) -> BOut {
    let out = |v: Verdict, nt: bool| BOut { verdict: v, nontrivial: nt, dup_policy: None, unsupported_err: false };
    let m = match build_ref(sc) {
        Ok(m) => m,
        Err(e) => return out(Verdict::Inconclusive(format!("reference refused to build: {e}")), false),
    };
    let bytes = m.raw.clone();
    let mnum = sc["method"].as_u64().unwrap_or(0) as u16;
    let cnum = sc["class"].as_u64().unwrap_or(0) as u8;
    let supported = method_names().iter().any(|x| x.2 == mnum);
    let dup = sc["dup"].as_bool().unwrap_or(false);

    let dec = std::panic::catch_unwind(|| StunMessage::decode(&bytes));
    let d = match dec {
        Err(_) => {
            let p = take_panics();
            let loc = p.last().map(|r| norm_location(&r.location)).unwrap_or_default();
            return out(Verdict::violated(format!("decode.panic={loc}"), "StunMessage::decode panicked on a reference-built message", json!({"bytes": hex_cap(&bytes, 256)})), true);
        }
        Ok(Err(e)) => {
            if !supported {
                // a method outside rustrtc's enum: refusing is fine
                return BOut { verdict: Verdict::Held, nontrivial: false, dup_policy: None, unsupported_err: true };
            }
            return out(
                Verdict::violated(
                    format!("decode.err.method={mnum:#x}.class={cnum}"),
                    "rustrtc refuses a well-formed reference-built message of a method it supports",
                    json!({"err": e.to_string(), "bytes": hex_cap(&bytes, 256)}),
                ),
                true,
            );
        }
        Ok(Ok(d)) => d,
    };
    let wit = |f: &str, got: String, want: String| json!({"field": f, "got": got, "want": want, "bytes": hex_cap(&bytes, 320)});
    if method_num(d.method) != mnum {
        return out(Verdict::violated(format!("decode.method.ref={mnum:#x}"), "method differs", wit("method", format!("{:?}", d.method), format!("{mnum:#x}"))), true);
    }
    if class_num(d.class) != cnum {
        return out(Verdict::violated(format!("decode.class.ref={cnum}"), "class differs", wit("class", format!("{:?}", d.class), cnum.to_string())), true);
    }
    if d.transaction_id != m.transaction_id.0 {
        return out(Verdict::violated("decode.transaction_id", "transaction id differs", wit("tid", hex(&d.transaction_id), hex(&m.transaction_id.0))), true);
    }
    // the reference keyed a MESSAGE-INTEGRITY (with or without a FINGERPRINT behind it): rustrtc's own
    // verifier must accept it under that key on these very bytes, and refuse another key
    if let Some(k) = key_bytes(&sc["mi"]) {
        let fp = sc["fp"].as_bool().unwrap_or(false);
        let ok = std::panic::catch_unwind(|| d.check_integrity(&bytes, &k)).unwrap_or(false);
        if !ok {
            return out(
                Verdict::violated(
                    format!("decode.check_integrity.rejects_reference_mi.fingerprint_follows={fp}"),
                    "StunDecoded::check_integrity refuses a MESSAGE-INTEGRITY the reference computed under the same key",
                    json!({"bytes": hex_cap(&bytes, 320), "fingerprint_follows": fp}),
                ),
                true,
            );
        }
        let mut other = k.clone();
        other.push(0x55);
        if std::panic::catch_unwind(|| d.check_integrity(&bytes, &other)).unwrap_or(true) {
            return out(
                Verdict::violated(
                    "decode.check_integrity.accepts_other_key".to_string(),
                    "StunDecoded::check_integrity accepts a MESSAGE-INTEGRITY under a different key",
                    json!({"bytes": hex_cap(&bytes, 320)}),
                ),
                true,
            );
        }
    }
    // expected values: first and last occurrence per attribute kind
    let mut first: BTreeMap<&str, &Value> = BTreeMap::new();
    let mut last: BTreeMap<&str, &Value> = BTreeMap::new();
    let empty = vec![];
    for a in sc["attrs"].as_array().unwrap_or(&empty) {
        let t = a["t"].as_str().unwrap_or("");
        first.entry(t).or_insert(a);
        last.insert(t, a);
    }
    let mut policy: Option<&'static str> = None;
    // generic comparison: `got` rendered as a string against the rendering of first / last
    let mut cmp = |field: &str, kind: &str, got: Option<String>, render: &dyn Fn(&Value) -> String| -> Result<(), Verdict> {
        let wf = first.get(kind).map(|a| render(a));
        let wl = last.get(kind).map(|a| render(a));
        if got == wf {
            if wf != wl {
                policy = Some("first");
            }
            return Ok(());
        }
        if dup && got == wl {
            policy = Some("last");
            return Ok(());
        }
        let famk = match got.as_deref().and_then(|g| g.parse::<SocketAddr>().ok()).or_else(|| first.get(kind).and_then(|a| parse_addr(&a["a"]))) {
            Some(SocketAddr::V4(_)) => ".family=v4",
            Some(SocketAddr::V6(_)) => ".family=v6",
            None => "",
        };
        Err(Verdict::violated(
            format!("decode.field={field}{famk}"),
            "StunDecoded exposes a different value than the reference put in",
            json!({"field": field, "got": got, "want": wf, "bytes": hex_cap(&bytes, 320)}),
        ))
    };
    let addr = |a: &Value| a["a"].as_str().unwrap_or("").to_string();
    let text = |a: &Value| a["s"].as_str().unwrap_or("").to_string();
    let checks: Vec<Result<(), Verdict>> = vec![
        cmp("xor_mapped_address", "XorMapped", d.xor_mapped_address.map(|a| a.to_string()), &addr),
        cmp("xor_relayed_address", "XorRelayed", d.xor_relayed_address.map(|a| a.to_string()), &addr),
        cmp("xor_peer_address", "XorPeer", d.xor_peer_address.map(|a| a.to_string()), &addr),
        cmp("error_code", "ErrorCode", d.error_code.map(|c| c.to_string()), &|a| a["code"].as_u64().unwrap_or(0).to_string()),
        cmp("realm", "Realm", d.realm.clone(), &text),
        cmp("nonce", "Nonce", d.nonce.clone(), &text),
        cmp("data", "Data", d.data.as_ref().map(|x| hex(x)), &|a| a["h"].as_str().unwrap_or("").to_string()),
        cmp("lifetime", "Lifetime", d.lifetime.map(|x| x.to_string()), &|a| a["n"].as_u64().unwrap_or(0).to_string()),
        cmp("use_candidate", "UseCandidate", if d.use_candidate { Some("1".into()) } else { None }, &|_| "1".to_string()),
    ];
    for c in checks {
        if let Err(v) = c {
            return out(v, true);
        }
    }
    BOut { verdict: Verdict::Held, nontrivial: true, dup_policy: policy, unsupported_err: false }
}

// ------------------------------------------------------------------------------------------------
// part (d): candidate lines
// ------------------------------------------------------------------------------------------------

fn typ_from(s: &str) -> IceCandidateType {
    match s {
        "srflx" => IceCandidateType::ServerReflexive,
        "prflx" => IceCandidateType::PeerReflexive,
        "relay" => IceCandidateType::Relay,
        _ => IceCandidateType::Host,
    }
}
fn tcptype_from(s: &str) -> Option<TcpType> {
    match s {
        "active" => Some(TcpType::Active),
        "passive" => Some(TcpType::Passive),
        "so" => Some(TcpType::So),
        _ => None,
    }
}

fn typ_name(t: IceCandidateType) -> &'static str {
    match t {
        IceCandidateType::Host => "host",
        IceCandidateType::ServerReflexive => "srflx",
        IceCandidateType::PeerReflexive => "prflx",
        IceCandidateType::Relay => "relay",
    }
}
fn tcptype_name(t: TcpType) -> &'static str {
    match t {
        TcpType::Active => "active",
        TcpType::Passive => "passive",
        TcpType::So => "so",
    }
}

fn cand_from_json(sc: &Value) -> Option<IceCandidate> {
    Some(IceCandidate {
        foundation: sc["foundation"].as_str()?.to_string(),
        priority: sc["priority"].as_u64()? as u32,
        address: parse_addr(&sc["address"])?,
        typ: typ_from(sc["typ"].as_str()?),
        transport: sc["transport"].as_str()?.to_string(),
        tcp_type: tcptype_from(sc["tcptype"].as_str().unwrap_or("")),
        related_address: parse_addr(&sc["related"]),
        component: sc["component"].as_u64()? as u16,
    })
}

fn gen_cand_addr(rng: &mut Rng, v6: bool) -> SocketAddr {
    let port = *rng.pick(&[0u16, 1, 9, 1024, 50000, 65535]);
    if v6 {
        let ip = match rng.below(5) {
            0 => Ipv6Addr::LOCALHOST,
            1 => Ipv6Addr::new(0x2001, 0xdb8, 0, 0, 0, 0, 0, rng.u16()),
            2 => Ipv6Addr::new(0xfe80, 0, 0, 0, 1, 2, 3, 4),
            3 => Ipv4Addr::new(192, 0, 2, 1).to_ipv6_mapped(),
            _ => Ipv6Addr::from(rng.u32() as u128 * 0x1_0000_0001_0000_0001u128),
        };
        SocketAddr::new(IpAddr::V6(ip), port)
    } else {
        SocketAddr::new(IpAddr::V4(Ipv4Addr::from(rng.u32())), port)
    }
}

/// the enumerated grid: type x transport x tcptype x component x family x related(none/v4/v6)
fn cand_grid(rng: &mut Rng) -> Vec<Value> {
    let mut v = vec![];
    for typ in ["host", "srflx", "prflx", "relay"] {
        for (transport, tcptype) in [("udp", ""), ("tcp", ""), ("tcp", "active"), ("tcp", "passive"), ("tcp", "so")] {
            for component in [1u16, 2, 256, 65535] {
                for v6 in [false, true] {
                    for related in ["none", "v4", "v6"] {
                        let rel = match related {
                            "v4" => json!(gen_cand_addr(rng, false).to_string()),
                            "v6" => json!(gen_cand_addr(rng, true).to_string()),
                            _ => Value::Null,
                        };
                        v.push(json!({"part": "d", "typ": typ, "transport": transport, "tcptype": tcptype,
                            "component": component, "address": gen_cand_addr(rng, v6).to_string(), "related": rel,
                            "priority": *rng.pick(&[0u32, 1, 2130706431, 1694498815, 16777215, 2147483647, u32::MAX]),
                            "foundation": format!("{:x}", rng.next_u64()), "prefix": rng.chance(1, 4)}));
                    }
                }
            }
        }
    }
    v
}

fn gen_d(rng: &mut Rng) -> Value {
    let typ = *rng.pick(&["host", "srflx", "prflx", "relay"]);
    let (transport, tcptype) = *rng.pick(&[("udp", ""), ("UDP", ""), ("tcp", ""), ("tcp", "active"), ("tcp", "passive"), ("TCP", "so")]);
    let related = match rng.below(3) {
        0 => Value::Null,
        1 => json!(gen_cand_addr(rng, false).to_string()),
        _ => json!(gen_cand_addr(rng, true).to_string()),
    };
    let flen = 1 + rng.usize_below(32);
    let foundation: String = (0..flen).map(|_| *rng.pick(&['0', '1', '9', 'a', 'f', 'Z', 'q', '+', '/'])).collect();
    let v6 = rng.bool();
    json!({"part": "d", "typ": typ, "transport": transport, "tcptype": tcptype, "component": rng.range(0, 300) as u16,
        "address": gen_cand_addr(rng, v6).to_string(), "related": related, "priority": gen_u32(rng),
        "foundation": foundation, "prefix": rng.chance(1, 4)})
}

fn run_d(sc: &Value) -> (Verdict, bool) {
    let Some(c) = cand_from_json(sc) else {
        return (Verdict::Inconclusive("bad scenario: candidate".into()), false);
    };
    let r = std::panic::catch_unwind(|| {
        let line = c.to_sdp();
        let input = if sc["prefix"].as_bool().unwrap_or(false) { format!("candidate:{line}") } else { line.clone() };
        let back = IceCandidate::from_sdp(&input);
        (line, back.map(|b| b.to_sdp()))
    });
    let (line, back) = match r {
        Err(_) => {
            let p = take_panics();
            let loc = p.last().map(|r| norm_location(&r.location)).unwrap_or_default();
            return (Verdict::violated(format!("candidate.panic={loc}"), "to_sdp/from_sdp panicked", sc.clone()), true);
        }
        Ok(x) => x,
    };
    let shape = format!(
        "typ={}.transport={}.tcptype={}.related={}",
        sc["typ"].as_str().unwrap_or(""),
        sc["transport"].as_str().unwrap_or("").to_ascii_lowercase(),
        if sc["tcptype"].as_str().unwrap_or("").is_empty() { "none" } else { sc["tcptype"].as_str().unwrap_or("") },
        match parse_addr(&sc["related"]) {
            None => "none",
            Some(SocketAddr::V4(_)) => "v4",
            Some(SocketAddr::V6(_)) => "v6",
        }
    );
    match back {
        // from_sdp refusing a line that to_sdp itself printed: the line did not survive
        Err(e) => (
            Verdict::violated(
                format!("candidate.roundtrip.parse_error.{shape}"),
                "from_sdp rejects a line printed by to_sdp",
                json!({"line": line, "err": e.to_string()}),
            ),
            true,
        ),
        Ok(again) if again == line => (Verdict::Held, true),
        Ok(again) => {
            // name the first token that differs; raddr/rport loss gets its own stable key
            let a: Vec<&str> = line.split(' ').collect();
            let b: Vec<&str> = again.split(' ').collect();
            let key = if a.contains(&"raddr") && !b.contains(&"raddr") && a.iter().zip(b.iter()).all(|(x, y)| x == y) {
                "candidate.roundtrip.raddr_rport_dropped".to_string()
            } else {
                let i = a.iter().zip(b.iter()).position(|(x, y)| x != y).unwrap_or(a.len().min(b.len()));
                const F: [&str; 8] = ["foundation", "component", "transport", "priority", "address", "port", "typ-kw", "typ"];
                // extension tokens come as "<keyword> <value>" pairs from index 8: name the keyword
                let ext = || if i >= 9 && (i - 8) % 2 == 1 { a.get(i - 1).copied().unwrap_or("ext") } else { a.get(i).copied().unwrap_or("ext") };
                format!("candidate.roundtrip.token={}", F.get(i).copied().unwrap_or_else(ext))
            };
            (
                Verdict::violated(key, "candidate line does not survive from_sdp(to_sdp(c))", json!({"printed": line, "reprinted": again, "shape": shape})),
                true,
            )
        }
    }
}

/// Part d, foreign lines: a candidate line as a REMOTE peer may legally write it (RFC 8839 5.1 /
/// RFC 6544 4.5: the transport token is case-insensitive - "UDP" / "TCP" are the spellings the RFCs
/// themselves use -, extension pairs come in any order, unknown extensions are to be ignored) is
/// printed by the harness, parsed by rustrtc and must carry the tuple it was printed from; printing
/// and parsing it again must not change that tuple (line -> struct -> line -> struct).
fn run_d_foreign(sc: &Value) -> (Verdict, bool) {
    let Some(c) = cand_from_json(sc) else {
        return (Verdict::Inconclusive("bad scenario: candidate".into()), false);
    };
    let spelling = sc["spelling"].as_str().unwrap_or("udp");
    let mut line = format!(
        "{}{} {} {} {} {} {} typ {}",
        if sc["prefix"].as_bool().unwrap_or(false) { "candidate:" } else { "" },
        c.foundation, c.component, spelling, c.priority, c.address.ip(), c.address.port(), typ_name(c.typ)
    );
    let mut ext: Vec<String> = vec![];
    if let Some(t) = c.tcp_type {
        ext.push(format!("tcptype {}", tcptype_name(t)));
    }
    if let (Some(r), true) = (c.related_address, c.typ != IceCandidateType::Host) {
        ext.push(format!("raddr {} rport {}", r.ip(), r.port()));
    }
    for e in sc["extra_ext"].as_array().cloned().unwrap_or_default() {
        if let Some(e) = e.as_str() {
            ext.push(e.to_string());
        }
    }
    // the order of the extension pairs is given by the scenario (a rotation)
    if !ext.is_empty() {
        let k = sc["ext_rot"].as_u64().unwrap_or(0) as usize % ext.len();
        ext.rotate_left(k);
    }
    for e in &ext {
        line.push(' ');
        line.push_str(e);
    }
    let r = std::panic::catch_unwind(|| {
        let first = IceCandidate::from_sdp(&line);
        let second = first.as_ref().ok().map(|f| IceCandidate::from_sdp(&f.to_sdp()));
        (first, second)
    });
    let (first, second) = match r {
        Err(_) => {
            let p = take_panics();
            let loc = p.last().map(|r| norm_location(&r.location)).unwrap_or_default();
            return (Verdict::violated(format!("candidate.panic={loc}"), "from_sdp/to_sdp panicked on a legal foreign line", json!({"line": line})), true);
        }
        Ok(x) => x,
    };
    let differs = |got: &IceCandidate| -> Option<&'static str> {
        if got.foundation != c.foundation {
            Some("foundation")
        } else if got.component != c.component {
            Some("component")
        } else if !got.transport.eq_ignore_ascii_case(&c.transport) {
            Some("transport")
        } else if got.priority != c.priority {
            Some("priority")
        } else if got.address != c.address {
            Some("address")
        } else if got.typ != c.typ {
            Some("typ")
        } else if c.transport.eq_ignore_ascii_case("tcp") && got.tcp_type.map(tcptype_name) != c.tcp_type.map(tcptype_name) {
            Some("tcptype")
        } else if c.typ != IceCandidateType::Host && got.related_address != c.related_address {
            Some("related")
        } else {
            None
        }
    };
    let shape = format!("transport_spelling={spelling}.tcptype={}", c.tcp_type.map(tcptype_name).unwrap_or("none"));
    match first {
        Err(e) => (
            Verdict::violated(
                format!("candidate.foreign_line.parse_error.transport_spelling={spelling}"),
                "from_sdp rejects a legal candidate line of a remote peer",
                json!({"line": line, "err": e.to_string()}),
            ),
            true,
        ),
        Ok(f) => {
            if let Some(field) = differs(&f) {
                return (
                    Verdict::violated(
                        format!("candidate.foreign_line.field={field}"),
                        "a legal candidate line of a remote peer parses to another tuple than it was printed from",
                        json!({"line": line, "reprinted": f.to_sdp(), "shape": shape}),
                    ),
                    true,
                );
            }
            match second {
                Some(Ok(g)) => match differs(&g) {
                    None => (Verdict::Held, true),
                    Some(field) => (
                        Verdict::violated(
                            format!("candidate.foreign_line.second_trip.field={field}"),
                            "line -> struct -> line -> struct changes the candidate tuple",
                            json!({"line": line, "reprinted": f.to_sdp(), "shape": shape}),
                        ),
                        true,
                    ),
                },
                _ => (
                    Verdict::violated(
                        "candidate.foreign_line.second_trip.parse_error".to_string(),
                        "from_sdp rejects the line to_sdp printed for a parsed foreign candidate",
                        json!({"line": line, "reprinted": f.to_sdp()}),
                    ),
                    true,
                ),
            }
        }
    }
}

fn gen_d_foreign(rng: &mut Rng, i: u64) -> Value {
    let mut sc = gen_d(rng);
    let tcp = i % 2 == 0;
    let spelling = if tcp { *rng.pick(&["tcp", "TCP", "Tcp"]) } else { *rng.pick(&["udp", "UDP", "Udp"]) };
    sc["transport"] = json!(if tcp { "tcp" } else { "udp" });
    sc["tcptype"] = json!(if tcp { *rng.pick(&["active", "passive", "so", "passive"]) } else { "" });
    sc["spelling"] = json!(spelling);
    sc["part"] = json!("d_foreign");
    let pool = ["generation 0", "ufrag a1B2", "network-id 1", "network-cost 10", "x-ext 7"];
    let n = rng.below(4) as usize;
    let extra: Vec<&str> = (0..n).map(|_| *rng.pick(&pool)).collect();
    sc["extra_ext"] = json!(extra);
    sc["ext_rot"] = json!(rng.below(6));
    // foundations of foreign lines: the ice-char alphabet only
    let flen = 1 + rng.usize_below(32);
    let foundation: String = (0..flen).map(|_| *rng.pick(&['0', '1', '9', 'a', 'f', 'Z', 'q', '+', '/'])).collect();
    sc["foundation"] = json!(foundation);
    sc
}

// ------------------------------------------------------------------------------------------------
// part (e): pair priorities
// ------------------------------------------------------------------------------------------------

fn cand_prio(p: u32, port: u16) -> IceCandidate {
    let mut c = IceCandidate::host(SocketAddr::new(IpAddr::V4(Ipv4Addr::LOCALHOST), port), 1);
    c.priority = p;
    c
}

/// pair priority as each agent computes it: the controlling agent's local candidate has priority g
/// and sees the peer's candidate (priority d) as remote; the controlled agent holds the mirror image.
fn both_sides(g: u32, d: u32) -> Result<(u64, u64), String> {
    std::panic::catch_unwind(|| {
        let ctl = IceCandidatePair::new(cand_prio(g, 1), cand_prio(d, 2)).priority(IceRole::Controlling);
        let ctd = IceCandidatePair::new(cand_prio(d, 2), cand_prio(g, 1)).priority(IceRole::Controlled);
        (ctl, ctd)
    })
    .map_err(|_| {
        let p = take_panics();
        p.last().map(|r| format!("{} at {}", r.message, norm_location(&r.location))).unwrap_or_default()
    })
}

fn prio_boundaries() -> Vec<u32> {
    let mut v = vec![
        0u32, 1, 2, 255, 256, 0x00ff_ffff, 0x0100_0000, 0x7fff_fffe, 0x7fff_ffff, 0x8000_0000, 0x8000_0001, 0xffff_fffe, 0xffff_ffff,
    ];
    // the priorities rustrtc itself assigns (type preference x component), read from the real constructors
    for comp in [1u16, 2] {
        v.push(IceCandidate::host("127.0.0.1:1".parse().unwrap(), comp).priority);
        for t in ["active", "passive", "so"] {
            v.push(IceCandidate::tcp("127.0.0.1:1".parse().unwrap(), comp, t).priority);
        }
    }
    v.extend([(100u32 << 24) | (65535 << 8) | 255, (110u32 << 24) | (65535 << 8) | 255, (65535u32 << 8) | 255]);
    v.sort();
    v.dedup();
    v
}

/// 2^32*min + 2*max + tie exceeds u64 only at g = d = u32::MAX; any other panic gets its own key
fn prio_panic_key(g: u32, d: u32, panic: &str) -> String {
    if g == u32::MAX && d == u32::MAX && panic.contains("overflow") {
        "pair_priority.overflow.g=d=u32max".to_string()
    } else {
        format!("pair_priority.panic.{}", panic.rsplit(" at ").next().unwrap_or(""))
    }
}

fn run_e(sc: &Value) -> (Verdict, bool) {
    let g1 = sc["g1"].as_u64().unwrap_or(0) as u32;
    let d1 = sc["d1"].as_u64().unwrap_or(0) as u32;
    let a = match both_sides(g1, d1) {
        Ok(x) => x,
        Err(p) => {
            return (
                Verdict::violated(prio_panic_key(g1, d1, &p), "IceCandidatePair::priority panicked", json!({"g": g1, "d": d1, "panic": p})),
                true,
            );
        }
    };
    if a.0 != a.1 {
        return (
            Verdict::violated(
                format!("pair_priority.asymmetric.{}", if g1 > d1 { "g>d" } else if g1 < d1 { "g<d" } else { "g=d" }),
                "controlling(g,d) != controlled(d,g)",
                json!({"g": g1, "d": d1, "controlling": a.0, "controlled": a.1}),
            ),
            true,
        );
    }
    if sc.get("g2").is_some() {
        let g2 = sc["g2"].as_u64().unwrap_or(0) as u32;
        let d2 = sc["d2"].as_u64().unwrap_or(0) as u32;
        let b = match both_sides(g2, d2) {
            Ok(x) => x,
            Err(p) => return (Verdict::violated(prio_panic_key(g2, d2, &p), "IceCandidatePair::priority panicked", json!({"g": g2, "d": d2, "panic": p})), true),
        };
        if a.0.cmp(&b.0) != a.1.cmp(&b.1) {
            return (
                Verdict::violated(
                    "pair_priority.order_differs",
                    "two pairs are ordered differently by the two agents",
                    json!({"p1": [g1, d1], "p2": [g2, d2], "controlling": [a.0, b.0], "controlled": [a.1, b.1]}),
                ),
                true,
            );
        }
    }
    (Verdict::Held, true)
}

// ------------------------------------------------------------------------------------------------
// part (c): live TURN through a recording forwarder
// ------------------------------------------------------------------------------------------------


use parking_lot::Mutex as PMutex;
use rustrtc::config::{IceServer, IceTransportPolicy, RtcConfiguration};
use rustrtc::transports::PacketReceiver;
use rustrtc::transports::ice::{IceSocketWrapper, IceTransportBuilder};
use rustrtc::{IceGathererState, IceTransportState};
use tokio::io::{AsyncReadExt, AsyncWriteExt};
use tokio::net::{TcpListener, UdpSocket};
use turn::proto::chandata::ChannelData;

const COOKIE: [u8; 4] = [0x21, 0x12, 0xa4, 0x42];
const TAG: &[u8; 4] = b"C16P";

#[derive(Clone)]
struct Unit {
    c2s: bool,
    bytes: Vec<u8>,
    /// forwarder replaced this client unit by a stale-nonce request before handing it to the server
    faulted: bool,
}

/// where in the client's life the front-end provokes a 401/438
#[derive(Clone, Copy, PartialEq, Eq, Debug)]
enum At {
    /// the 401 that answers the first, unauthenticated Allocate (only its REALM can be rewritten)
    Alloc401,
    /// the authenticated Allocate
    Alloc438,
    /// a Refresh with LIFETIME > 0
    Refresh,
    /// a CreatePermission of the refresh cycle (after a Refresh with LIFETIME > 0 was seen; the
    /// CreatePermission / ChannelBind of a connectivity check are never challenged: rustrtc abandons
    /// such a check on any error, which is outside C16)
    Perm,
    /// a ChannelBind of the refresh cycle
    Bind,
}

impl At {
    fn name(self) -> &'static str {
        match self {
            At::Alloc401 => "alloc401",
            At::Alloc438 => "alloc438",
            At::Refresh => "refresh",
            At::Perm => "perm",
            At::Bind => "bind",
        }
    }
    fn from_name(s: &str) -> Option<At> {
        [At::Alloc401, At::Alloc438, At::Refresh, At::Perm, At::Bind].into_iter().find(|a| a.name() == s)
    }
}

struct Challenge {
    at: At,
    /// REALM to announce in the error response (None: leave the server's)
    realm: Option<String>,
    done: bool,
}

#[derive(Default)]
struct FaultPlan {
    points: Vec<Challenge>,
    /// a Refresh(LIFETIME>0) request has been seen: CreatePermission / ChannelBind now belong to the refresh cycle
    refresh_seen: bool,
    /// kinds whose latest request was challenged: the next request of that kind is the retry and passes
    cooling: Vec<At>,
    /// transaction id -> REALM to put into the error response to that transaction
    rewrite: HashMap<[u8; 12], String>,
    /// points that fired, "refresh:realm" / "refresh:nonce"
    fired: Vec<String>,
}

#[derive(Clone, Copy, PartialEq, Eq, Debug)]
enum TcpMode {
    /// RFC 5766 §2.1 / RFC 5389 §7.2.2: STUN messages and ChannelData back to back on the stream,
    /// ChannelData padded to 4
    Rfc,
    /// every unit preceded by a 16-bit length (RFC 4571 style) – not what a TURN server reads
    Len16Prefix,
}

struct Rec {
    units: PMutex<Vec<Unit>>,
    plan: PMutex<FaultPlan>,
    tcp_mode: PMutex<Option<TcpMode>>,
    stream_error: PMutex<Option<String>>,
}

impl Rec {
    fn push(&self, c2s: bool, bytes: &[u8], faulted: bool) {
        self.units.lock().push(Unit { c2s, bytes: bytes.to_vec(), faulted });
    }

    /// Challenge fault: the chosen authenticated request is replaced by a request of the same type
    /// and transaction id whose NONCE the server never issued -> the *server* answers 438 with a
    /// fresh nonce, which the client must pick up. If the point carries a realm, the REALM of that
    /// answer is rewritten on its way back (`rewrite_s2c`).
    fn fault(&self, unit: &[u8]) -> Option<Vec<u8>> {
        if unit.len() < 20 || unit[0] & 0xc0 != 0 {
            return None;
        }
        let mut m = Message::new();
        m.write(unit).ok()?;
        if ref_class_num(&m.typ) != 0 {
            return None;
        }
        let has_mi = m.contains(ATTR_MESSAGE_INTEGRITY);
        let mnum = ref_method_num(m.typ.method);
        let mut plan = self.plan.lock();
        let lifetime_positive = {
            let mut l = turn::proto::lifetime::Lifetime::default();
            l.get_from(&m).is_ok() && l.0.as_secs() > 0
        };
        let at = match (mnum, has_mi) {
            (3, false) => At::Alloc401,
            (3, true) => At::Alloc438,
            (4, true) if lifetime_positive => At::Refresh,
            (8, true) if plan.refresh_seen => At::Perm,
            (9, true) if plan.refresh_seen => At::Bind,
            _ => return None,
        };
        if at == At::Refresh {
            plan.refresh_seen = true;
        }
        if let Some(p) = plan.cooling.iter().position(|a| *a == at) {
            // the retry of a challenged request
            plan.cooling.remove(p);
            return None;
        }
        let idx = plan.points.iter().position(|c| c.at == at && !c.done)?;
        plan.points[idx].done = true;
        let realm = plan.points[idx].realm.clone();
        plan.fired.push(format!("{}:{}", at.name(), if realm.is_some() { "realm" } else { "nonce" }));
        if let Some(r) = realm {
            plan.rewrite.insert(m.transaction_id.0, r);
        }
        if at == At::Alloc401 {
            // the server answers 401 by itself; only the response is touched
            return None;
        }
        plan.cooling.push(at);
        let mut r = Message::new();
        r.typ = m.typ;
        r.transaction_id = m.transaction_id;
        r.write_header();
        TextAttribute::new(ATTR_NONCE, "c16-forwarder-stale-nonce".into()).add_to(&mut r).ok()?;
        MessageIntegrity(b"junk".to_vec()).add_to(&mut r).ok()?;
        Some(r.raw)
    }

    /// server -> client: the 401/438 that answers a challenged transaction gets the scripted REALM
    /// (same type, transaction id, error code and NONCE; rebuilt with the reference encoder)
    fn rewrite_s2c(&self, unit: &[u8]) -> Option<Vec<u8>> {
        if unit.len() < 20 || unit[0] & 0xc0 != 0 {
            return None;
        }
        let mut m = Message::new();
        m.write(unit).ok()?;
        if ref_class_num(&m.typ) != 3 {
            return None;
        }
        let mut ec = ErrorCodeAttribute::default();
        ec.get_from(&m).ok()?;
        if ec.code.0 != 401 && ec.code.0 != 438 {
            return None;
        }
        let nonce = TextAttribute::get_from_as(&m, ATTR_NONCE).ok()?;
        let realm = self.plan.lock().rewrite.remove(&m.transaction_id.0)?;
        let mut r = Message::new();
        r.typ = m.typ;
        r.transaction_id = m.transaction_id;
        r.write_header();
        ec.add_to(&mut r).ok()?;
        TextAttribute::new(ATTR_NONCE, nonce.text).add_to(&mut r).ok()?;
        TextAttribute::new(ATTR_REALM, realm).add_to(&mut r).ok()?;
        Some(r.raw)
    }
}

async fn udp_forwarder(rec: Arc<Rec>, server: SocketAddr) -> std::io::Result<(SocketAddr, tokio::task::JoinHandle<()>)> {
    let fc = Arc::new(UdpSocket::bind("127.0.0.1:0").await?);
    let addr = fc.local_addr()?;
    let h = tokio::spawn(async move {
        let mut map: HashMap<SocketAddr, Arc<UdpSocket>> = HashMap::new();
        let mut buf = vec![0u8; 65536];
        let mut backs = vec![];
        loop {
            let Ok((n, src)) = fc.recv_from(&mut buf).await else { break };
            let fs = match map.get(&src) {
                Some(s) => s.clone(),
                None => {
                    let Ok(s) = UdpSocket::bind("127.0.0.1:0").await else { break };
                    let s = Arc::new(s);
                    map.insert(src, s.clone());
                    let (fc2, s2, rec2) = (fc.clone(), s.clone(), rec.clone());
                    backs.push(AbortOnDrop(tokio::spawn(async move {
                        let mut b = vec![0u8; 65536];
                        while let Ok((n, _)) = s2.recv_from(&mut b).await {
                            let unit = rec2.rewrite_s2c(&b[..n]).unwrap_or_else(|| b[..n].to_vec());
                            rec2.push(false, &unit, false);
                            let _ = fc2.send_to(&unit, src).await;
                        }
                    })));
                    s
                }
            };
            let unit = &buf[..n];
            match rec.fault(unit) {
                Some(repl) => {
                    rec.push(true, unit, true);
                    let _ = fs.send_to(&repl, server).await;
                }
                None => {
                    rec.push(true, unit, false);
                    let _ = fs.send_to(unit, server).await;
                }
            }
        }
    });
    Ok((addr, h))
}

struct AbortOnDrop(tokio::task::JoinHandle<()>);
impl Drop for AbortOnDrop {
    fn drop(&mut self) {
        self.0.abort();
    }
}

/// next unit of the client's TCP stream, or None if more bytes are needed; Err = stream cannot be read
fn tcp_extract(buf: &mut Vec<u8>, mode: &mut Option<TcpMode>) -> Result<Option<Vec<u8>>, String> {
    if mode.is_none() {
        if buf.len() < 10 {
            return Ok(None);
        }
        *mode = if buf[4..8] == COOKIE {
            Some(TcpMode::Rfc)
        } else if buf[6..10] == COOKIE {
            Some(TcpMode::Len16Prefix)
        } else {
            return Err(format!("first bytes are neither a STUN message nor a length-prefixed one: {}", hex_cap(buf, 16)));
        };
    }
    match mode.unwrap_or(TcpMode::Rfc) {
        TcpMode::Rfc => {
            if buf.len() < 4 {
                return Ok(None);
            }
            let l = u16::from_be_bytes([buf[2], buf[3]]) as usize;
            let total = match buf[0] & 0xc0 {
                0x00 => 20 + l,
                0x40 => (4 + l + 3) & !3, // RFC 5766 §11.5: padded on stream transports
                _ => return Err(format!("stream desynchronised at {}", hex_cap(buf, 8))),
            };
            if buf.len() < total {
                return Ok(None);
            }
            Ok(Some(buf.drain(..total).collect()))
        }
        TcpMode::Len16Prefix => {
            if buf.len() < 2 {
                return Ok(None);
            }
            let l = u16::from_be_bytes([buf[0], buf[1]]) as usize;
            if buf.len() < 2 + l {
                return Ok(None);
            }
            let u: Vec<u8> = buf.drain(..2 + l).skip(2).collect();
            Ok(Some(u))
        }
    }
}

async fn tcp_forwarder(rec: Arc<Rec>, server: SocketAddr) -> std::io::Result<(SocketAddr, tokio::task::JoinHandle<()>)> {
    // EADDRINUSE on an ephemeral bind happens when the host is busy: retry before giving up
    let mut l = TcpListener::bind("127.0.0.1:0").await;
    for _ in 0..5 {
        if l.is_ok() {
            break;
        }
        tokio::time::sleep(Duration::from_millis(50)).await;
        l = TcpListener::bind("127.0.0.1:0").await;
    }
    let l = l?;
    let addr = l.local_addr()?;
    let h = tokio::spawn(async move {
        let mut conns = vec![];
        while let Ok((stream, _)) = l.accept().await {
            let _ = stream.set_nodelay(true);
            let (mut rd, mut wr) = stream.into_split();
            let Ok(fs) = UdpSocket::bind("127.0.0.1:0").await else { break };
            let fs = Arc::new(fs);
            let (rec_r, fs_r) = (rec.clone(), fs.clone());
            conns.push(AbortOnDrop(tokio::spawn(async move {
                let mut buf: Vec<u8> = vec![];
                let mut tmp = vec![0u8; 8192];
                loop {
                    let Ok(n) = rd.read(&mut tmp).await else { break };
                    if n == 0 {
                        break;
                    }
                    buf.extend_from_slice(&tmp[..n]);
                    loop {
                        let mut mode = *rec_r.tcp_mode.lock();
                        let r = tcp_extract(&mut buf, &mut mode);
                        *rec_r.tcp_mode.lock() = mode;
                        match r {
                            Ok(Some(unit)) => match rec_r.fault(&unit) {
                                Some(repl) => {
                                    rec_r.push(true, &unit, true);
                                    let _ = fs_r.send_to(&repl, server).await;
                                }
                                None => {
                                    rec_r.push(true, &unit, false);
                                    let _ = fs_r.send_to(&unit, server).await;
                                }
                            },
                            Ok(None) => break,
                            Err(e) => {
                                *rec_r.stream_error.lock() = Some(e);
                                return;
                            }
                        }
                    }
                }
            })));
            let rec_w = rec.clone();
            conns.push(AbortOnDrop(tokio::spawn(async move {
                let mut b = vec![0u8; 65536];
                while let Ok((n, _)) = fs.recv_from(&mut b).await {
                    let unit = rec_w.rewrite_s2c(&b[..n]).unwrap_or_else(|| b[..n].to_vec());
                    rec_w.push(false, &unit, false);
                    let mode = (*rec_w.tcp_mode.lock()).unwrap_or(TcpMode::Rfc);
                    let mut out = vec![];
                    match mode {
                        TcpMode::Rfc => {
                            out.extend_from_slice(&unit);
                            if !unit.is_empty() && unit[0] & 0xc0 == 0x40 {
                                while out.len() % 4 != 0 {
                                    out.push(0);
                                }
                            }
                        }
                        TcpMode::Len16Prefix => {
                            out.extend_from_slice(&(unit.len() as u16).to_be_bytes());
                            out.extend_from_slice(&unit);
                        }
                    }
                    if wr.write_all(&out).await.is_err() {
                        break;
                    }
                }
            })));
        }
    });
    Ok((addr, h))
}

struct Auth {
    user: String,
    pass: String,
}
impl turn::auth::AuthHandler for Auth {
    fn auth_handle(&self, username: &str, realm: &str, _src: SocketAddr) -> Result<Vec<u8>, turn::Error> {
        if username != self.user {
            return Err(turn::Error::ErrNoSuchUser);
        }
        Ok(turn::auth::generate_auth_key(username, realm, &self.pass))
    }
}

struct Collect(PMutex<Vec<Vec<u8>>>);
#[async_trait::async_trait]
impl PacketReceiver for Collect {
    async fn receive(&self, packet: bytes::Bytes, _addr: SocketAddr, _buf: &mut Vec<u8>) {
        let mut g = self.0.lock();
        if g.len() < 10_000 {
            g.push(packet.to_vec());
        }
    }
}

#[derive(Default)]
struct COut {
    /// (key, what, witness)
    violations: Vec<(String, String, Value)>,
    inconclusive: Option<String>,
    counts: BTreeMap<String, u64>,
    seen: Vec<(String, String)>,
    auth_requests: u64,
    sample: Option<Value>,
}

impl COut {
    fn viol(&mut self, key: impl Into<String>, what: &str, wit: Value) {
        let key = key.into();
        if !self.violations.iter().any(|v| v.0 == key) {
            self.violations.push((key, what.to_string(), wit));
        }
    }
    fn count(&mut self, k: impl Into<String>) {
        *self.counts.entry(k.into()).or_insert(0) += 1;
    }
}

struct Ctx {
    user: String,
    pass: String,
    realm: String,
    tcp: bool,
    known_peers: HashSet<SocketAddr>,
    /// seq -> (payload, peer)
    payloads: HashMap<u32, (Vec<u8>, SocketAddr)>,
    /// ICE credentials for the Binding requests rustrtc relays: (username "remote:local", remote password)
    ice_username: String,
    ice_remote_pwd: String,
}

fn mname(n: u16) -> &'static str {
    match n {
        1 => "Binding",
        3 => "Allocate",
        4 => "Refresh",
        6 => "Send",
        7 => "Data",
        8 => "CreatePermission",
        9 => "ChannelBind",
        _ => "other",
    }
}

/// Reference reading of FINGERPRINT / MESSAGE-INTEGRITY placement and validity (shared by TURN
/// requests and relayed ICE Binding requests). `what` names the message for keys.
///
/// `superseded`: long-term keys of realms the server announced *before* the one the request
/// advertises, (realm, key). A MESSAGE-INTEGRITY that fails under `key` but verifies under one of
/// them gets its own, narrower signature.
fn check_mi_fp(out: &mut COut, what: &str, m: &mut Message, key: &[u8], bytes: &[u8], superseded: &[(String, Vec<u8>)]) {
    let n = m.attributes.0.len();
    let pos_mi = m.attributes.0.iter().position(|a| a.typ == ATTR_MESSAGE_INTEGRITY);
    let pos_fp = m.attributes.0.iter().position(|a| a.typ == ATTR_FINGERPRINT);
    if let Some(p) = pos_fp {
        if p + 1 != n {
            out.viol(format!("turn.c2s.{what}.fingerprint_not_last"), "FINGERPRINT is not the last attribute", json!({"bytes": hex_cap(bytes, 200)}));
        } else if let Err(e) = FINGERPRINT.check(m) {
            out.viol(format!("turn.c2s.{what}.fingerprint_invalid"), "reference FINGERPRINT check fails", json!({"err": e.to_string(), "bytes": hex_cap(bytes, 200)}));
        } else {
            out.count("c.fingerprint_valid");
        }
    }
    if let Some(p) = pos_mi {
        let after = n - p - 1;
        if after > 1 || (after == 1 && pos_fp != Some(n - 1)) {
            out.viol(format!("turn.c2s.{what}.attr_after_integrity"), "an attribute other than FINGERPRINT follows MESSAGE-INTEGRITY", json!({"bytes": hex_cap(bytes, 200)}));
        }
        match MessageIntegrity(key.to_vec()).check(m) {
            Ok(()) => out.count("c.integrity_valid"),
            Err(e) => {
                let stale = superseded.iter().find(|(_, k)| MessageIntegrity(k.clone()).check(&mut m.clone()).is_ok());
                match stale {
                    Some((old_realm, _)) => out.viol(
                        format!("turn.c2s.{what}.integrity_keyed_with_superseded_realm"),
                        "MESSAGE-INTEGRITY does not verify under the long-term key of the REALM the request advertises, but under the key of another (superseded) realm the server had announced",
                        json!({"err": e.to_string(), "key_realm_that_verifies": old_realm, "bytes": hex_cap(bytes, 240)}),
                    ),
                    None => out.viol(
                        format!("turn.c2s.{what}.integrity_invalid"),
                        "reference MessageIntegrity::check fails under the configured credentials",
                        json!({"err": e.to_string(), "bytes": hex_cap(bytes, 240)}),
                    ),
                }
            }
        }
    }
}

/// payload carried by a Send indication / ChannelData towards `peer`
fn check_payload(out: &mut COut, ctx: &Ctx, seen_payloads: &mut HashSet<u32>, via: &str, peer: SocketAddr, data: &[u8]) {
    if data.len() >= 8 && &data[..4] == TAG {
        let seq = u32::from_be_bytes([data[4], data[5], data[6], data[7]]);
        match ctx.payloads.get(&seq) {
            Some((want, wpeer)) => {
                if want != data {
                    out.viol(format!("turn.c2s.{via}.payload_differs.lenmod4={}", want.len() % 4), "relayed payload differs from what the application handed to send_to", json!({"want_len": want.len(), "got_len": data.len()}));
                } else if *wpeer != peer {
                    out.viol(format!("turn.c2s.{via}.payload_wrong_peer"), "payload addressed to a different peer than requested", json!({"want": wpeer.to_string(), "got": peer.to_string()}));
                } else {
                    seen_payloads.insert(seq);
                    out.count(format!("c.payload_ok.{via}"));
                    out.seen.push(("c.payload_lenmod4".into(), format!("{via}/{}", data.len() % 4)));
                }
            }
            None => out.count("c.payload_unregistered"),
        }
    } else if data.len() >= 20 && data[0] & 0xc0 == 0 && data[4..8] == COOKIE {
        // a STUN message rustrtc's ICE agent relays: a live instance of part (a)
        let mut m = Message::new();
        if let Err(e) = m.write(data) {
            out.viol("turn.c2s.relayed_stun.ref_decode_error", "reference rejects a relayed ICE STUN message", json!({"err": e.to_string(), "bytes": hex_cap(data, 200)}));
            return;
        }
        let (mn, cl) = (ref_method_num(m.typ.method), ref_class_num(&m.typ));
        out.count(format!("c.relayed_stun.{}.class{}", mname(mn), cl));
        if mn == 1 && cl == 0 {
            match TextAttribute::get_from_as(&m, ATTR_USERNAME) {
                Ok(u) if u.text == ctx.ice_username => {}
                Ok(u) => out.viol("turn.c2s.relayed_binding.username", "ICE Binding request carries an unexpected USERNAME", json!({"got": u.text, "want": ctx.ice_username})),
                Err(e) => out.viol("turn.c2s.relayed_binding.username_missing", "ICE Binding request without readable USERNAME", json!({"err": e.to_string()})),
            }
            if !m.contains(ATTR_MESSAGE_INTEGRITY) || !m.contains(ATTR_FINGERPRINT) {
                out.viol("turn.c2s.relayed_binding.unprotected", "ICE Binding request without MESSAGE-INTEGRITY/FINGERPRINT (RFC 8445 §7.1)", json!({"bytes": hex_cap(data, 200)}));
            }
            check_mi_fp(out, "relayed_binding", &mut m, ctx.ice_remote_pwd.as_bytes(), data, &[]);
        }
    } else {
        out.count("c.payload_other");
    }
}

fn validate(units: &[Unit], ctx: &Ctx, tcp_mode: Option<TcpMode>, out: &mut COut) -> (Option<SocketAddr>, HashSet<u32>) {
    // long-term key, reference implementation: MD5(user ":" realm ":" pass)
    let lt_key = |realm: &str| MessageIntegrity::new_long_term_integrity(ctx.user.clone(), realm.to_string(), ctx.pass.clone()).0;
    let mut issued: Vec<String> = vec![];
    // nonce -> REALM announced in the same 401/438; realms in the order of their first announcement
    let mut announced: HashMap<String, String> = HashMap::new();
    let mut realms: Vec<String> = vec![];
    let mut last_req_realm: Option<String> = None;
    // after a 401/438 for a method, the next request of that method must carry the nonce of that
    // response or one issued later (index into `issued`)
    let mut must_use: HashMap<u16, usize> = HashMap::new();
    let mut pending_bind: HashMap<[u8; 12], (u16, SocketAddr)> = HashMap::new();
    let mut ch2peer: HashMap<u16, SocketAddr> = HashMap::new();
    let mut peer2ch: HashMap<SocketAddr, u16> = HashMap::new();
    let mut req_method: HashMap<[u8; 12], (u16, bool)> = HashMap::new();
    let mut relayed: Option<SocketAddr> = None;
    let mut seen_payloads = HashSet::new();
    let tname = if ctx.tcp { "tcp" } else { "udp" };

    for u in units {
        let b = &u.bytes;
        if b.is_empty() {
            out.count("c.empty_unit");
            continue;
        }
        if !u.c2s {
            // ---------------- server -> client: bookkeeping only
            if b[0] & 0xc0 == 0 {
                let mut m = Message::new();
                if m.write(b).is_err() {
                    continue;
                }
                let (mn, cl) = (ref_method_num(m.typ.method), ref_class_num(&m.typ));
                let mut code = 0u16;
                if cl == 3 {
                    let mut ec = ErrorCodeAttribute::default();
                    if ec.get_from(&m).is_ok() {
                        code = ec.code.0;
                    }
                    if code == 401 || code == 438 {
                        if let Ok(n) = TextAttribute::get_from_as(&m, ATTR_NONCE) {
                            must_use.insert(mn, issued.len());
                            issued.push(n.text.clone());
                            if let Ok(r) = TextAttribute::get_from_as(&m, ATTR_REALM) {
                                if realms.last().is_some_and(|l| *l != r.text) {
                                    out.count("c.s2c.realm_changed");
                                    out.seen.push(("c.realm_change_announced".into(), format!("{}/{code}/{tname}", mname(mn))));
                                }
                                if !realms.contains(&r.text) {
                                    realms.push(r.text.clone());
                                }
                                announced.insert(n.text, r.text);
                            }
                        }
                    }
                    out.count(format!("c.s2c.{}.error.{}", mname(mn), code));
                    let (_, was_auth_unfaulted) = req_method.get(&m.transaction_id.0).copied().unwrap_or((0, false));
                    // The independent server refuses an authenticated request that the forwarder passed on
                    // unchanged: 400 = unreadable/integrity failure, 401/438 = credentials not accepted.
                    if was_auth_unfaulted && matches!(code, 400 | 401 | 431 | 438) {
                        out.viol(
                            format!("turn.server_rejected.method={}.code={code}.transport={tname}", mname(mn)),
                            "the reference TURN server refuses an authenticated request of rustrtc's TURN client",
                            json!({"response": hex_cap(b, 200)}),
                        );
                    }
                } else {
                    out.count(format!("c.s2c.{}.class{}", mname(mn), cl));
                }
                if cl == 2 && mn == 3 {
                    let mut ra = turn::proto::relayaddr::RelayedAddress::default();
                    if ra.get_from(&m).is_ok() {
                        relayed = Some(SocketAddr::new(ra.ip, ra.port));
                    }
                }
                if cl == 2 && mn == 9 {
                    if let Some((ch, peer)) = pending_bind.remove(&m.transaction_id.0) {
                        ch2peer.insert(ch, peer);
                        peer2ch.insert(peer, ch);
                    }
                }
            } else {
                out.count("c.s2c.channeldata");
            }
            continue;
        }

        // ---------------- client -> server: judged
        out.count("c.c2s.units");
        match b[0] & 0xc0 {
            0x00 => {
                let mut m = Message::new();
                if let Err(e) = m.write(b) {
                    out.viol(format!("turn.c2s.ref_decode_error.transport={tname}"), "reference decoder rejects a message of the TURN client", json!({"err": e.to_string(), "bytes": hex_cap(b, 200)}));
                    continue;
                }
                if b.len() != 20 + m.length as usize || b.len() % 4 != 0 {
                    out.viol("turn.c2s.length", "STUN length field / datagram size mismatch", json!({"len": b.len(), "field": m.length}));
                }
                let (mn, cl) = (ref_method_num(m.typ.method), ref_class_num(&m.typ));
                let name = mname(mn);
                out.count(format!("c.c2s.{name}.class{cl}"));
                let legal = matches!((mn, cl), (3, 0) | (4, 0) | (8, 0) | (9, 0) | (6, 1) | (1, 0));
                if !legal {
                    out.viol(format!("turn.c2s.unexpected_type.method={mn:#x}.class={cl}"), "client emits a method/class a TURN client never sends", json!({"bytes": hex_cap(b, 120)}));
                    continue;
                }
                let has_mi = m.contains(ATTR_MESSAGE_INTEGRITY);
                req_method.insert(m.transaction_id.0, (mn, has_mi && !u.faulted));
                if has_mi {
                    out.auth_requests += 1;
                    out.seen.push(("c.authenticated".into(), format!("{name}/{tname}")));
                    // USERNAME / REALM / NONCE as read by the reference
                    match TextAttribute::get_from_as(&m, ATTR_USERNAME) {
                        Ok(t) if t.text == ctx.user => {}
                        Ok(t) => out.viol(format!("turn.c2s.{name}.username_differs"), "USERNAME differs from the configured one", json!({"got": t.text, "want": ctx.user})),
                        Err(e) => out.viol(format!("turn.c2s.{name}.username_unreadable"), "USERNAME missing/unreadable", json!({"err": e.to_string()})),
                    }
                    let req_realm = match TextAttribute::get_from_as(&m, ATTR_REALM) {
                        Ok(t) => Some(t.text),
                        Err(e) => {
                            out.viol(format!("turn.c2s.{name}.realm_unreadable"), "REALM missing/unreadable", json!({"err": e.to_string()}));
                            None
                        }
                    };
                    let req_nonce = match TextAttribute::get_from_as(&m, ATTR_NONCE) {
                        Ok(t) => Some(t.text),
                        Err(e) => {
                            out.viol(format!("turn.c2s.{name}.nonce_unreadable"), "NONCE missing/unreadable", json!({"err": e.to_string()}));
                            None
                        }
                    };
                    if let Some(n) = &req_nonce {
                        match issued.iter().rposition(|x| x == n) {
                            None => out.viol(format!("turn.c2s.{name}.nonce_never_issued"), "NONCE was never issued by the server", json!({"got": n})),
                            Some(pos) => {
                                // 401/438 dance: the next request of *that* method carries the nonce of the error (or a later one)
                                if let Some(need) = must_use.remove(&mn) {
                                    if pos < need {
                                        out.viol(format!("turn.c2s.{name}.retry_with_old_nonce"), "request after a 401/438 for the same method does not use the nonce of that response", json!({"got": n, "want": issued[need]}));
                                    } else {
                                        out.count("c.nonce_dance_followed");
                                    }
                                }
                                if pos + 1 == issued.len() {
                                    out.count("c.nonce_is_latest");
                                } else {
                                    out.count("c.nonce_is_older_but_issued");
                                }
                            }
                        }
                    }
                    if let Some(r) = &req_realm {
                        // REALM echoes the challenge the NONCE comes from (RFC 5389 §10.2.3)
                        match req_nonce.as_ref().and_then(|n| announced.get(n)) {
                            Some(ar) if ar == r => out.count("c.realm_matches_challenge"),
                            Some(ar) => out.viol(format!("turn.c2s.{name}.realm_differs"), "REALM differs from the one the server announced together with the NONCE the request carries", json!({"got": r, "want": ar})),
                            None if realms.contains(r) => {}
                            None => out.viol(format!("turn.c2s.{name}.realm_differs"), "REALM differs from every realm the server announced", json!({"got": r, "announced": realms})),
                        }
                        if last_req_realm.as_ref().is_some_and(|l| l != r) {
                            out.count("c.c2s.realm_change_followed");
                            out.seen.push(("c.realm_change_followed".into(), format!("{name}/{tname}")));
                        }
                        if realms.len() >= 2 {
                            out.count("c.c2s.authenticated_after_realm_change");
                        }
                        last_req_realm = Some(r.clone());
                    }
                    // the key the request claims: long-term key of the REALM it advertises
                    let claimed = req_realm.clone().or_else(|| realms.last().cloned()).unwrap_or_else(|| ctx.realm.clone());
                    let superseded: Vec<(String, Vec<u8>)> = realms.iter().filter(|x| **x != claimed).map(|x| (x.clone(), lt_key(x))).collect();
                    check_mi_fp(out, name, &mut m, &lt_key(&claimed), b, &superseded);
                } else if cl == 0 && mn != 3 && mn != 1 {
                    out.viol(format!("turn.c2s.{name}.unauthenticated"), "TURN request without MESSAGE-INTEGRITY (RFC 5766 §4)", json!({"bytes": hex_cap(b, 120)}));
                } else if m.contains(ATTR_FINGERPRINT) {
                    check_mi_fp(out, name, &mut m, &[], b, &[]);
                }
                let peer = {
                    let mut p = turn::proto::peeraddr::PeerAddress::default();
                    match p.get_from(&m) {
                        Ok(()) => Some(SocketAddr::new(p.ip, p.port)),
                        Err(_) => None,
                    }
                };
                match mn {
                    3 => {
                        let mut rt = turn::proto::reqtrans::RequestedTransport::default();
                        match rt.get_from(&m) {
                            Ok(()) if rt.protocol.0 == 17 => {
                                if m.get(ATTR_REQUESTED_TRANSPORT).map(|v| v[1..] != [0, 0, 0]).unwrap_or(false) {
                                    out.viol("turn.c2s.Allocate.requested_transport_rffu", "REQUESTED-TRANSPORT RFFU bits not zero (RFC 5766 §14.7 MUST)", json!({}));
                                }
                            }
                            Ok(()) => out.viol("turn.c2s.Allocate.requested_transport", "REQUESTED-TRANSPORT is not UDP(17)", json!({"got": rt.protocol.0})),
                            Err(e) => out.viol("turn.c2s.Allocate.requested_transport_missing", "Allocate without readable REQUESTED-TRANSPORT", json!({"err": e.to_string()})),
                        }
                    }
                    4 => {
                        let mut l = turn::proto::lifetime::Lifetime::default();
                        match l.get_from(&m) {
                            Ok(()) => out.seen.push(("c.refresh_lifetime".into(), l.0.as_secs().to_string())),
                            Err(e) => out.viol("turn.c2s.Refresh.lifetime_unreadable", "Refresh LIFETIME unreadable", json!({"err": e.to_string()})),
                        }
                    }
                    8 | 9 | 6 => {
                        let Some(peer) = peer else {
                            out.viol(format!("turn.c2s.{name}.peer_unreadable"), "XOR-PEER-ADDRESS missing/unreadable by the reference", json!({"bytes": hex_cap(b, 160)}));
                            continue;
                        };
                        out.seen.push(("c.peer_family".into(), format!("{name}/{}", if peer.is_ipv4() { "v4" } else { "v6" })));
                        if !ctx.known_peers.contains(&peer) {
                            out.viol(
                                format!("turn.c2s.{name}.peer_not_requested.family={}", if peer.is_ipv4() { "v4" } else { "v6" }),
                                "XOR-PEER-ADDRESS decodes to an address the application never named",
                                json!({"got": peer.to_string()}),
                            );
                        }
                        if mn == 9 {
                            let mut cn = turn::proto::channum::ChannelNumber::default();
                            match cn.get_from(&m) {
                                Ok(()) => {
                                    out.seen.push(("c.channel_numbers".into(), format!("{:#06x}", cn.0)));
                                    if !cn.valid() {
                                        out.viol(format!("turn.c2s.ChannelBind.channel_out_of_range={:#06x}", cn.0), "CHANNEL-NUMBER outside 0x4000..=0x7FFF", json!({}));
                                    }
                                    if let Some(p) = ch2peer.get(&cn.0) {
                                        if *p != peer {
                                            out.viol("turn.c2s.ChannelBind.channel_reused_for_other_peer", "channel already bound to a different peer (RFC 5766 §11.1)", json!({"channel": cn.0, "old": p.to_string(), "new": peer.to_string()}));
                                        }
                                    }
                                    if let Some(c) = peer2ch.get(&peer) {
                                        if *c != cn.0 {
                                            out.viol("turn.c2s.ChannelBind.peer_rebound_to_other_channel", "peer already bound to a different channel (RFC 5766 §11.1)", json!({"peer": peer.to_string(), "old": c, "new": cn.0}));
                                        }
                                    }
                                    pending_bind.insert(m.transaction_id.0, (cn.0, peer));
                                }
                                Err(e) => out.viol("turn.c2s.ChannelBind.channel_unreadable", "CHANNEL-NUMBER unreadable", json!({"err": e.to_string()})),
                            }
                        }
                        if mn == 6 {
                            let mut d = turn::proto::data::Data::default();
                            match d.get_from(&m) {
                                Ok(()) => check_payload(out, ctx, &mut seen_payloads, "send", peer, &d.0),
                                Err(e) => out.viol("turn.c2s.Send.data_unreadable", "Send indication without readable DATA", json!({"err": e.to_string()})),
                            }
                        }
                    }
                    _ => {}
                }
            }
            0x40 => {
                out.count("c.c2s.ChannelData");
                let mut cd = ChannelData { raw: b.clone(), ..Default::default() };
                if let Err(e) = cd.decode() {
                    out.viol(format!("turn.c2s.channeldata.ref_decode_error.transport={tname}"), "reference rejects ChannelData", json!({"err": e.to_string(), "bytes": hex_cap(b, 64)}));
                    continue;
                }
                let l = cd.data.len();
                let exact = b.len() == 4 + l;
                let padded = b.len() == (4 + l + 3) & !3;
                if ctx.tcp && tcp_mode == Some(TcpMode::Rfc) {
                    // extraction already consumed the padded size; nothing further to judge
                } else if !(exact || padded) {
                    out.viol("turn.c2s.channeldata.trailing_bytes", "ChannelData datagram is longer than header+length(+padding)", json!({"datagram": b.len(), "length": l}));
                }
                out.seen.push(("c.channeldata_lenmod4".into(), format!("{}/{}", l % 4, if exact { "exact" } else { "padded" })));
                match ch2peer.get(&cd.number.0) {
                    Some(peer) => check_payload(out, ctx, &mut seen_payloads, "channeldata", *peer, &cd.data),
                    None => out.viol("turn.c2s.channeldata.unbound_channel", "ChannelData on a channel whose ChannelBind was not (yet) answered with success", json!({"channel": cd.number.0})),
                }
            }
            _ => out.viol(format!("turn.c2s.unclassifiable.first_byte={:#04x}", b[0]), "unit is neither STUN nor ChannelData", json!({"bytes": hex_cap(b, 64)})),
        }
    }
    (relayed, seen_payloads)
}

fn gen_cred(rng: &mut Rng, max: usize) -> String {
    // printable ASCII without ':' (separator of the long-term key input) – SASLprep-neutral
    let l = 1 + rng.usize_below(max);
    (0..l)
        .map(|_| loop {
            let c = (0x21u8 + rng.below(94) as u8) as char;
            if c != ':' {
                break c;
            }
        })
        .collect()
}

/// a realm different from `not` (and from each other with overwhelming probability), lengths 1..=max
fn gen_other_realm(rng: &mut Rng, not: &str, max: usize) -> String {
    loop {
        let r = gen_cred(rng, max);
        if r != not {
            return r;
        }
    }
}

fn gen_c_scenarios(rng: &mut Rng, tier: Tier) -> Vec<Value> {
    let mut v = vec![];
    // scenarios that wait for the 25 s refresh timer (Refresh + CreatePermission + ChannelBind refresh) come
    // first so that they all start at once; the 401/438 front-end challenges them at every point where the
    // client re-authenticates, with the same and with a CHANGED realm, singly and in a row
    for i in 0..tier.pick(6, 24) {
        let realm = gen_cred(rng, 17);
        let mut ch = vec![];
        let at = |rng: &mut Rng, at: &str, change: bool| {
            let r = if change { Some(gen_other_realm(rng, &realm, if i % 2 == 0 { 13 } else { 41 })) } else { None };
            json!({"at": at, "realm": r})
        };
        match i % 6 {
            0 => ch.push(at(rng, "refresh", true)),
            1 => ch.push(at(rng, "perm", true)),
            2 => ch.push(at(rng, "bind", true)),
            3 => {
                // the whole life in a row: every challenge announces another realm
                for p in ["alloc401", "alloc438", "refresh", "perm", "bind"] {
                    ch.push(at(rng, p, true));
                }
            }
            4 => {
                // stale nonce, same realm, on the Refresh; changed realm on the ChannelBind
                ch.push(at(rng, "refresh", false));
                ch.push(at(rng, "bind", true));
            }
            _ => {}
        }
        if i >= 6 {
            // thorough: more mixtures
            for p in ["alloc401", "alloc438", "refresh", "perm", "bind"] {
                if rng.chance(1, 4) && !ch.iter().any(|c: &Value| c["at"] == p) {
                    let change = rng.chance(2, 3);
                    ch.push(at(rng, p, change));
                }
            }
        }
        v.push(json!({
            "part": "c", "transport": if i >= 6 && i % 6 == 5 { "tcp" } else { "udp" },
            "user": gen_cred(rng, 13), "pass": gen_cred(rng, 30), "realm": realm,
            "challenges": ch, "wait_refresh": true,
            "dead_peers": 1, "wrap_channels": false, "payload_lens": [8, 13, 700],
            "indication_peers": ["127.0.0.9:4444"],
        }));
    }
    let n = tier.pick(10, 300);
    for i in 0..n {
        let tcp = i % 5 == 4;
        let mut lens: Vec<u64> = vec![8, 9, 10, 11, 12];
        for _ in 0..6 {
            lens.push(rng.range(8, 1200));
        }
        lens.push(1200);
        let realm = gen_cred(rng, if i % 4 == 1 { 60 } else { 11 });
        let mut ch = vec![];
        if i % 3 == 0 {
            // the very first challenge already names a realm of the front-end's choosing
            ch.push(json!({"at": "alloc401", "realm": gen_other_realm(rng, &realm, 23)}));
        }
        if i % 2 == 1 {
            // stale nonce on the authenticated Allocate: same realm / changed realm alternately
            ch.push(json!({"at": "alloc438", "realm": if i % 4 == 1 { Some(gen_other_realm(rng, &realm, 23)) } else { None }}));
        }
        v.push(json!({
            "part": "c", "transport": if tcp { "tcp" } else { "udp" },
            "user": gen_cred(rng, if i % 3 == 0 { 40 } else { 9 }), "pass": gen_cred(rng, 30), "realm": realm,
            "challenges": ch, "wait_refresh": false,
            "dead_peers": if i % 3 == 2 || tcp { 3 } else { rng.range(0, 3) }, "wrap_channels": i % 3 == 2 && !tcp,
            "first_channel": if tcp { Some([0x4000u64, 0x4ffe, 0x5000, 0x5fff, 0x6abc, 0x7000, 0x7ffd][((i / 5) * 2 + 2) as usize % 7]) } else { None },
            "payload_lens": lens,
            "indication_peers": ["127.0.0.9:4444", "[2001:db8::c16]:5", "[::1]:65535", "0.0.0.1:1"],
        }));
    }
    v
}

async fn wait_watch<T: Clone + PartialEq>(mut rx: tokio::sync::watch::Receiver<T>, want: &[T], bad: &[T], dur: Duration) -> Result<(), String> {
    let r = tokio::time::timeout(dur, async {
        loop {
            let cur = rx.borrow_and_update().clone();
            if want.contains(&cur) {
                return Ok(());
            }
            if bad.contains(&cur) {
                return Err("reached a failure state".to_string());
            }
            if rx.changed().await.is_err() {
                return Err("watch closed".to_string());
            }
        }
    })
    .await;
    match r {
        Ok(x) => x,
        Err(_) => Err("watchdog".into()),
    }
}

async fn turn_live(sc: Value) -> COut {
    let mut out = COut::default();
    let s = |k: &str| sc[k].as_str().unwrap_or("").to_string();
    let (user, pass, realm) = (s("user"), s("pass"), s("realm"));
    let tcp = s("transport") == "tcp";
    macro_rules! harness {
        ($e:expr, $what:expr) => {
            match $e {
                Ok(x) => x,
                Err(e) => {
                    out.inconclusive = Some(format!("harness: {}: {}", $what, e));
                    return out;
                }
            }
        };
    }

    // ---- reference TURN server
    let srv_sock = harness!(UdpSocket::bind("127.0.0.1:0").await, "bind server");
    let server_addr = harness!(srv_sock.local_addr(), "server addr");
    let server = harness!(
        turn::server::Server::new(turn::server::config::ServerConfig {
            conn_configs: vec![turn::server::config::ConnConfig {
                conn: Arc::new(srv_sock),
                relay_addr_generator: Box::new(turn::relay::relay_static::RelayAddressGeneratorStatic {
                    relay_address: IpAddr::V4(Ipv4Addr::LOCALHOST),
                    address: "0.0.0.0".to_string(),
                    net: Arc::new(webrtc_util::vnet::net::Net::new(None)),
                }),
            }],
            realm: realm.clone(),
            auth_handler: Arc::new(Auth { user: user.clone(), pass: pass.clone() }),
            channel_bind_timeout: Duration::from_secs(600),
            alloc_close_notify: None,
        })
        .await,
        "turn server"
    );

    // ---- recording forwarder
    let rec = Arc::new(Rec {
        units: PMutex::new(vec![]),
        plan: PMutex::new(FaultPlan {
            points: {
                let mut pts: Vec<Challenge> = sc["challenges"]
                    .as_array()
                    .map(|a| {
                        a.iter()
                            .filter_map(|c| Some(Challenge { at: At::from_name(c["at"].as_str()?)?, realm: c["realm"].as_str().map(|x| x.to_string()), done: false }))
                            .collect()
                    })
                    .unwrap_or_default();
                // scenario files written before the challenge list existed
                if sc["stale_allocate"].as_bool().unwrap_or(false) {
                    pts.push(Challenge { at: At::Alloc438, realm: None, done: false });
                }
                if sc["stale_refresh"].as_bool().unwrap_or(false) {
                    pts.push(Challenge { at: At::Refresh, realm: None, done: false });
                }
                pts
            },
            ..Default::default()
        }),
        tcp_mode: PMutex::new(None),
        stream_error: PMutex::new(None),
    });
    let (fwd_addr, fwd_task) = if tcp {
        harness!(tcp_forwarder(rec.clone(), server_addr).await, "tcp forwarder")
    } else {
        harness!(udp_forwarder(rec.clone(), server_addr).await, "udp forwarder")
    };
    let _fwd_guard = AbortOnDrop(fwd_task);

    // ---- two ICE agents: 1 = relay only (uses the TURN client), 2 = host only
    let url = if tcp { format!("turn:{fwd_addr}?transport=tcp") } else { format!("turn:{fwd_addr}") };
    let mut cfg1 = RtcConfiguration::default();
    cfg1.ice_transport_policy = IceTransportPolicy::Relay;
    cfg1.ice_servers.push(IceServer::new(vec![url.clone()]).with_credential(user.clone(), pass.clone()));
    cfg1.stun_timeout = Duration::from_millis(2500);
    cfg1.nomination_timeout = Duration::from_secs(5);
    let (t1, r1) = IceTransportBuilder::new(cfg1).role(IceRole::Controlling).build();
    let _r1 = AbortOnDrop(tokio::spawn(r1));
    let mut cfg2 = RtcConfiguration::default();
    cfg2.stun_timeout = Duration::from_millis(2500);
    cfg2.nomination_timeout = Duration::from_secs(5);
    let (t2, r2) = IceTransportBuilder::new(cfg2).role(IceRole::Controlled).build();
    let _r2 = AbortOnDrop(tokio::spawn(r2));

    let g1 = wait_watch(t1.subscribe_gathering_state(), &[IceGathererState::Complete], &[], Duration::from_secs(20)).await;
    let g2 = wait_watch(t2.subscribe_gathering_state(), &[IceGathererState::Complete], &[], Duration::from_secs(20)).await;
    let relay = t1.local_candidates().into_iter().find(|c| c.typ == IceCandidateType::Relay);

    let mut known_peers: HashSet<SocketAddr> = HashSet::new();
    let mut payloads: HashMap<u32, (Vec<u8>, SocketAddr)> = HashMap::new();
    let mut dead_socks = vec![];
    let mut connected = false;
    let collect = Arc::new(Collect(PMutex::new(vec![])));
    let p1 = t1.local_parameters();
    let p2 = t2.local_parameters();

    if g1.is_ok() && g2.is_ok() && relay.is_some() {
        if sc["wrap_channels"].as_bool().unwrap_or(false) {
            let n = t1.verif_turn_set_next_channel(0x7ffe).await;
            out.count(format!("c.hook_next_channel_clients={n}"));
        } else if let Some(first) = sc["first_channel"].as_u64() {
            // any part of the channel range 0x4000..=0x7FFF (RFC 5766 § 11) may be in use
            let n = t1.verif_turn_set_next_channel(first as u16).await;
            out.count(format!("c.hook_next_channel_clients={n}"));
            out.seen.push(("c.first_channel".into(), format!("{first:#06x}/{}", if tcp { "tcp" } else { "udp" })));
        }
        for _ in 0..sc["dead_peers"].as_u64().unwrap_or(0) {
            if let Ok(sk) = UdpSocket::bind("127.0.0.1:0").await {
                if let Ok(a) = sk.local_addr() {
                    known_peers.insert(a);
                    let mut c = IceCandidate::host(a, 1);
                    if tcp {
                        // rustrtc advertises a relay obtained over TURN/TCP with transport "tcp" and
                        // pairs it only with tcp candidates: such a remote candidate makes it send
                        // CreatePermission / ChannelBind / checks for the peer through the TCP stream
                        c.transport = "tcp".into();
                        c.tcp_type = Some(TcpType::Passive);
                    }
                    t1.add_remote_candidate(c);
                    dead_socks.push((sk, a));
                }
            }
        }
        for c in t2.local_candidates() {
            known_peers.insert(c.address);
            t1.add_remote_candidate(c);
        }
        for c in t1.local_candidates() {
            t2.add_remote_candidate(c);
        }
        t2.set_data_receiver(collect.clone()).await;
        let st1 = t1.subscribe_state();
        let st2 = t2.subscribe_state();
        let _ = t1.start(p2.clone());
        let _ = t2.start(p1.clone());
        // A relay candidate obtained over TURN/TCP is advertised by rustrtc with transport "tcp" and is
        // never paired with the peer's UDP candidates (outside C16): only the Allocate exchange can be
        // observed there, so do not wait long for a connection that cannot come.
        let patience = Duration::from_secs(if tcp { 4 } else { 30 });
        let w1 = wait_watch(st1, &[IceTransportState::Connected, IceTransportState::Completed], &[IceTransportState::Failed, IceTransportState::Closed], patience).await;
        let w2 = wait_watch(st2, &[IceTransportState::Connected, IceTransportState::Completed], &[IceTransportState::Failed, IceTransportState::Closed], Duration::from_secs(if tcp { 1 } else { 20 })).await;
        connected = w1.is_ok() && w2.is_ok();
        if !connected && tcp {
            out.count("c.tcp_relay_candidate_not_connectable");
        } else if !connected {
            out.inconclusive = Some(format!("ICE did not connect through the relay ({w1:?}/{w2:?})"));
        }
    } else {
        out.inconclusive = Some(format!("no relay candidate gathered (gather {g1:?}/{g2:?}, relay {})", relay.is_some()));
    }

    // ---- TURN/TCP: application payloads through the production TURN send wrapper (hook: ICE never
    //      selects this relay), towards the peers the checks bound channels for and towards others
    if tcp && !connected && out.inconclusive.is_none() {
        // let the checks towards the dead peers bind their channels
        tokio::time::sleep(Duration::from_millis(600)).await;
        let socks = t1.verif_turn_sockets();
        out.count(format!("c.tcp_turn_wrappers={}", socks.len()));
        // channels for all dead peers but the last (that one is reached by Send indications)
        let n_dead = dead_socks.len();
        for (_, a) in dead_socks.iter().take(n_dead.saturating_sub(1)) {
            let ch = t1.verif_turn_bind_channel(*a).await;
            for c in ch {
                out.seen.push(("c.tcp_channels_bound".into(), format!("{:#06x}", c & 0xf000)));
            }
        }
        tokio::time::sleep(Duration::from_millis(200)).await;
        if let Some(sk) = socks.first() {
            let mut seq = 0u32;
            let mut rng = Rng::new(hash_value(&sc));
            let mut targets: Vec<SocketAddr> = dead_socks.iter().map(|d| d.1).collect();
            for a in sc["indication_peers"].as_array().cloned().unwrap_or_default() {
                if let Some(a) = parse_addr(&a) {
                    known_peers.insert(a);
                    targets.push(a);
                }
            }
            for l in sc["payload_lens"].as_array().cloned().unwrap_or_default() {
                let l = (l.as_u64().unwrap_or(8) as usize).max(8);
                for t in &targets {
                    seq += 1;
                    let mut p = TAG.to_vec();
                    p.extend_from_slice(&seq.to_be_bytes());
                    p.extend_from_slice(&rng.bytes(l - 8));
                    payloads.insert(seq, (p.clone(), *t));
                    if sk.send_to(&p, *t).await.is_err() {
                        out.count("c.send_to_err");
                    } else {
                        out.count("c.tcp_app_payloads_sent");
                    }
                }
            }
            // a STUN unit behind the payloads: on a stream whose framing slipped it is no longer found
            for _ in 0..40 {
                let n = rec.units.lock().iter().filter(|u| u.c2s).count();
                tokio::time::sleep(Duration::from_millis(50)).await;
                if rec.units.lock().iter().filter(|u| u.c2s).count() == n {
                    break;
                }
            }
        }
    }

    // ---- application payloads through the selected TURN socket
    if connected {
        // selected pair may lag Connected
        let mut sel = None;
        for _ in 0..100 {
            if let (Some(sk), Some(p)) = (t1.get_selected_socket(), t1.get_selected_pair()) {
                sel = Some((sk, p));
                break;
            }
            tokio::time::sleep(Duration::from_millis(50)).await;
        }
        // give the concurrently running checks towards the dead peers time to bind their channels
        tokio::time::sleep(Duration::from_millis(400)).await;
        if let Some((sk, pair)) = sel {
            if matches!(sk, IceSocketWrapper::Turn(_, _)) {
                let mut seq = 0u32;
                let mut rng = Rng::new(hash_value(&sc));
                let mut targets: Vec<SocketAddr> = vec![pair.remote.address];
                targets.extend(dead_socks.iter().map(|d| d.1));
                for l in sc["payload_lens"].as_array().cloned().unwrap_or_default() {
                    let l = (l.as_u64().unwrap_or(8) as usize).max(8);
                    for t in &targets {
                        seq += 1;
                        let mut p = TAG.to_vec();
                        p.extend_from_slice(&seq.to_be_bytes());
                        p.extend_from_slice(&rng.bytes(l - 8));
                        payloads.insert(seq, (p.clone(), *t));
                        if sk.send_to(&p, *t).await.is_err() {
                            out.count("c.send_to_err");
                        }
                    }
                }
                for a in sc["indication_peers"].as_array().cloned().unwrap_or_default() {
                    if let Some(a) = parse_addr(&a) {
                        known_peers.insert(a);
                        seq += 1;
                        let mut p = TAG.to_vec();
                        p.extend_from_slice(&seq.to_be_bytes());
                        p.extend_from_slice(&rng.bytes(seq as usize % 7));
                        payloads.insert(seq, (p.clone(), a));
                        if sk.send_to(&p, a).await.is_err() {
                            out.count("c.send_to_err");
                        }
                    }
                }
                // zero-length application data towards a dead peer (never towards a live rustrtc agent)
                if let Some((_, a)) = dead_socks.first() {
                    let _ = sk.send_to(&[], *a).await;
                    out.count("c.zero_length_payload_sent");
                }
            } else {
                out.inconclusive = Some("selected socket is not the TURN relay".into());
            }
        }
        // wait (bounded) until the forwarder has seen the last tagged payload
        for _ in 0..40 {
            let n = rec.units.lock().iter().filter(|u| u.c2s).count();
            tokio::time::sleep(Duration::from_millis(50)).await;
            if rec.units.lock().iter().filter(|u| u.c2s).count() == n {
                break;
            }
        }
        if sc["wait_refresh"].as_bool().unwrap_or(false) {
            // the runner's refresh timer is a fixed 25 s; wait until a Refresh(lifetime>0) and a later
            // ChannelBind have been recorded, at most 45 s (not reaching it is merely less coverage)
            let t0 = std::time::Instant::now();
            let n0 = rec.units.lock().len();
            loop {
                tokio::time::sleep(Duration::from_millis(500)).await;
                let units = rec.units.lock().clone();
                let mut saw_refresh = false;
                let mut saw_bind_after = false;
                for u in units.iter().skip(n0).filter(|u| u.c2s && !u.bytes.is_empty() && u.bytes[0] & 0xc0 == 0) {
                    let mut m = Message::new();
                    if m.write(&u.bytes).is_ok() {
                        let mn = ref_method_num(m.typ.method);
                        if mn == 4 {
                            saw_refresh = true;
                        }
                        if mn == 9 && saw_refresh {
                            saw_bind_after = true;
                        }
                    }
                }
                if saw_bind_after {
                    tokio::time::sleep(Duration::from_millis(500)).await;
                    out.count("c.refresh_cycle_observed");
                    break;
                }
                if t0.elapsed() > Duration::from_secs(45) {
                    out.count("c.refresh_cycle_not_observed");
                    break;
                }
            }
        }
    }
    // ---- close: Refresh(LIFETIME=0) is emitted best-effort on stop()
    t1.stop();
    t2.stop();
    tokio::time::sleep(Duration::from_millis(300)).await;
    let _ = server.close().await;

    // ---- judge everything the client emitted
    let ctx = Ctx {
        user,
        pass,
        realm,
        tcp,
        known_peers,
        payloads,
        ice_username: format!("{}:{}", p2.username_fragment, p1.username_fragment),
        ice_remote_pwd: p2.password.clone(),
    };
    let units = rec.units.lock().clone();
    let mode = *rec.tcp_mode.lock();
    if tcp {
        match mode {
            Some(TcpMode::Len16Prefix) => out.viol(
                "turn.tcp.framing=len16_prefix",
                "TURN over TCP: the client prefixes every STUN/ChannelData unit with a 16-bit length; RFC 5766 §2.1 / RFC 5389 §7.2.2 put the messages back to back on the stream (an independent TURN server reads the prefix as a message type)",
                json!({"first_unit_on_stream": units.iter().find(|u| u.c2s).map(|u| format!("{:04x}|{}", u.bytes.len(), hex_cap(&u.bytes, 40)))}),
            ),
            Some(TcpMode::Rfc) => out.count("c.tcp_framing_rfc"),
            None => {}
        }
        if let Some(e) = rec.stream_error.lock().clone() {
            out.viol("turn.tcp.stream_unreadable", "the client's TCP stream cannot be cut into STUN / ChannelData units", json!({"err": e}));
        }
    }
    for f in rec.plan.lock().fired.iter() {
        out.seen.push(("c.challenge_points_fired".into(), format!("{f}/{}", if tcp { "tcp" } else { "udp" })));
        out.count(format!("c.challenge_fired.{f}"));
    }
    let (relayed, seen) = validate(&units, &ctx, mode, &mut out);
    // live part (b): the relay candidate rustrtc derived from the server's Allocate success
    if let (Some(r), Some(c)) = (relayed, relay.as_ref()) {
        if r != c.address {
            out.viol(
                format!("turn.s2c.relayed_address_differs.family={}", if r.is_ipv4() { "v4" } else { "v6" }),
                "relay candidate differs from the XOR-RELAYED-ADDRESS the reference reads in the Allocate success",
                json!({"reference": r.to_string(), "rustrtc": c.address.to_string()}),
            );
        } else {
            out.count("c.relayed_address_matches");
        }
    }
    let missing = ctx.payloads.len() - seen.len();
    if missing > 0 {
        *out.counts.entry("c.payloads_not_captured".into()).or_insert(0) += missing as u64;
    }
    // end-to-end observation (not judged: relaying is the server's job): tagged payloads agent 2 received
    let got2 = collect.0.lock().iter().filter(|p| p.len() >= 8 && &p[..4] == TAG).count();
    *out.counts.entry("c.payloads_delivered_to_peer_agent".into()).or_insert(0) += got2 as u64;
    out.sample = Some(json!({
        "part": "c", "transport": sc["transport"], "units_c2s": units.iter().filter(|u| u.c2s).count(),
        "units_s2c": units.iter().filter(|u| !u.c2s).count(), "auth_requests": out.auth_requests,
        "payloads_sent": ctx.payloads.len(), "payloads_validated": seen.len(), "connected": connected,
        "tcp_mode": format!("{mode:?}"),
    }));
    // keep sockets alive until here
    drop(dead_socks);
    drop(t1);
    drop(t2);
    out
}

fn record_c(report: &mut Report, sc: &Value, out: COut) {
    for (k, n) in &out.counts {
        report.count(k, *n);
    }
    for (set, item) in &out.seen {
        report.seen(set, item.clone());
    }
    if let Some(s) = &out.sample {
        if report.counters.get("c.samples").copied().unwrap_or(0) < 2 {
            report.count("c.samples", 1);
            report.sample(s.clone());
        }
    }
    report.count("c.scenarios", 1);
    if out.auth_requests > 0 {
        report.count("c.scenarios_with_authenticated_requests", 1);
        report.count("c.authenticated_requests", out.auth_requests);
    }
    let h = if out.auth_requests > 0 { Some(hash_value(sc)) } else { None };
    if !out.violations.is_empty() {
        // one evaluation, possibly several distinct keys
        let mut first = true;
        for (k, w, wit) in out.violations {
            if first {
                report.record(sc, h, Verdict::violated(k, w, wit));
                first = false;
            } else {
                report.violation(sc, &k, &w, wit);
            }
        }
    } else if let Some(why) = out.inconclusive {
        report.record(sc, h, Verdict::Inconclusive(why));
    } else if out.auth_requests == 0 {
        report.record(sc, None, Verdict::Inconclusive("no authenticated TURN request observed".into()));
    } else {
        report.record(sc, h, Verdict::Held);
    }
}


// ------------------------------------------------------------------------------------------------
// driver
// ------------------------------------------------------------------------------------------------

fn record_a(report: &mut Report, sc: &Value) {
    let o = run_a(sc);
    report.count("a.messages", 1);
    if let Some(same) = o.bytes_identical_to_ref {
        report.count(if same { "a.bytes_identical_to_reference" } else { "a.bytes_differ_but_equivalent" }, 1);
        report.seen("a.method_class", format!("{}/{}", sc["method"].as_str().unwrap_or(""), sc["class"].as_str().unwrap_or("")));
        report.seen("a.key_kind", format!("{}/fp={}", sc["key"]["k"].as_str().unwrap_or(""), sc["fp"]));
        for a in sc["attrs"].as_array().unwrap_or(&vec![]) {
            let t = a["t"].as_str().unwrap_or("");
            report.count(&format!("a.attr.{t}"), 1);
            if let Some(s) = a["s"].as_str() {
                report.seen("a.string_len_mod4", format!("{}", s.len() % 4));
                report.seen("a.string_len", format!("{:04}", s.len()));
            }
            if a.get("a").is_some() {
                report.seen("a.xor_family", format!("{t}/{}", fam(a)));
            }
        }
        report.count("a.bytes_total", o.len as u64);
    }
    let h = if o.nontrivial { Some(hash_value(sc)) } else { None };
    report.record(sc, h, o.verdict);
}

fn record_b(report: &mut Report, sc: &Value) {
    let o = run_b(sc);
    report.count("b.messages", 1);
    if sc["padfill"].as_bool().unwrap_or(false) {
        report.count("b.nonzero_padding", 1);
    }
    if o.unsupported_err {
        report.count("b.unsupported_method_refused", 1);
    }
    if let Some(p) = o.dup_policy {
        report.count(&format!("b.duplicate_attribute_reported={p}"), 1);
    }
    if o.nontrivial {
        report.seen("b.method_class", format!("{:#x}/{}", sc["method"].as_u64().unwrap_or(0), sc["class"]));
        for a in sc["attrs"].as_array().unwrap_or(&vec![]) {
            let t = a["t"].as_str().unwrap_or("");
            report.count(&format!("b.attr.{t}"), 1);
            if a.get("a").is_some() {
                report.seen("b.xor_family", format!("{t}/{}", fam(a)));
            }
        }
    }
    let h = if o.nontrivial { Some(hash_value(sc)) } else { None };
    report.record(sc, h, o.verdict);
}

fn record_d(report: &mut Report, sc: &Value) {
    if sc["part"] == "d_foreign" {
        let (v, nt) = run_d_foreign(sc);
        report.count("d.foreign_lines", 1);
        report.seen("d.foreign_shape", format!("{}/{}/ext{}", sc["spelling"].as_str().unwrap_or(""), sc["tcptype"].as_str().unwrap_or(""), sc["extra_ext"].as_array().map(|a| a.len()).unwrap_or(0)));
        report.record(sc, if nt { Some(hash_value(sc)) } else { None }, v);
        return;
    }
    let (v, nt) = run_d(sc);
    report.count("d.candidates", 1);
    report.seen(
        "d.shape",
        format!(
            "{}/{}/{}/{}",
            sc["typ"].as_str().unwrap_or(""),
            sc["transport"].as_str().unwrap_or(""),
            sc["tcptype"].as_str().unwrap_or(""),
            if sc["related"].is_null() { "norel" } else { "rel" }
        ),
    );
    report.record(sc, if nt { Some(hash_value(sc)) } else { None }, v);
}

fn record_e(report: &mut Report, sc: &Value) {
    let (v, nt) = run_e(sc);
    report.count(if sc.get("g2").is_some() { "e.pair_of_pairs" } else { "e.pairs" }, 1);
    report.record(sc, if nt { Some(hash_value(sc)) } else { None }, v);
}

pub fn run(args: &Args) -> i32 {
    let mut report = Report::new(args, "exploration", RULE);
    report.assume("reference = webrtc-rs stun 0.17.2 / turn 0.17.2 from the offline registry; it is taken as a faithful reading of RFC 5389/5766/8445");
    report.assume("ICE attributes (PRIORITY, ICE-CONTROLLING/-CONTROLLED, USE-CANDIDATE) are compared on the raw value the reference decoder extracts (webrtc-ice is not in the offline cache)");
    report.assume("padding bytes and RFFU bits are not compared (free in the RFCs); byte identity with the reference encoder is only counted");
    report.assume("part c drives rustrtc's TURN client through IceTransport (public API) against turn 0.17's server on loopback; the only hook is verif_turn_set_next_channel (channel wrap)");
    report.assume("part c realm changes: the forwarder rewrites only the REALM of a 401/438 the server itself produced (fresh server nonce); turn 0.17 keys its integrity check on the REALM attribute of the request, so it still judges the retried request independently; only Allocate and the refresh cycle's Refresh/CreatePermission/ChannelBind are challenged (rustrtc abandons a connectivity check whose CreatePermission fails, which C16 does not cover)");
    report.max_samples = 8;

    if let Some(path) = &args.replay {
        let Some(sc) = load_replay(path) else {
            eprintln!("cannot read replay {}", path.display());
            return 2;
        };
        match sc["part"].as_str().unwrap_or("") {
            "a" => record_a(&mut report, &sc),
            "b" => record_b(&mut report, &sc),
            "d" | "d_foreign" => record_d(&mut report, &sc),
            "e" => record_e(&mut report, &sc),
            "c" => {
                let rt = build_runtime(4);
                for _ in 0..5 {
                    let out = rt.block_on(turn_live(sc.clone()));
                    println!("replay part c: sample={} inconclusive={:?} counts={:?}", out.sample.clone().unwrap_or_default(), out.inconclusive, out.counts);
                    let stop = out.violations.len() > 0;
                    record_c(&mut report, &sc, out);
                    if stop {
                        break;
                    }
                }
            }
            _ => {
                eprintln!("replay has no part");
                return 2;
            }
        }
        // a replay is one scenario: exit 1 iff it (still) violates, else 0
        // (finish() would call a one-scenario run "broken"; in replay mode it writes nothing anyway)
        if report.violations.is_empty() {
            println!(
                "REPLAY property=C16 no violation (held={} inconclusive={} known={})",
                report.held,
                report.inconclusive_n,
                report.known_hits.len()
            );
            return 0;
        }
        let _ = report.finish(0, 0);
        return 1;
    }

    let quick = args.tier == Tier::Quick;
    let base = Rng::new(args.seed);

    // ---- part c first (runs on its own runtime in a background thread while the pure parts run)
    let c_scenarios = gen_c_scenarios(&mut base.fork(0xC), args.tier);
    let c_thread = {
        let scs = c_scenarios.clone();
        std::thread::Builder::new().name("c16-turn".into()).spawn(move || {
            let rt = build_runtime(6);
            rt.block_on(async move {
                let sem = Arc::new(tokio::sync::Semaphore::new(9));
                let mut hs = vec![];
                for sc in scs {
                    let sem = sem.clone();
                    hs.push(tokio::spawn(async move {
                        let _p = sem.acquire_owned().await;
                        let out = turn_live(sc.clone()).await;
                        (sc, out)
                    }));
                }
                let mut outs = vec![];
                for h in hs {
                    match h.await {
                        Ok(x) => outs.push(x),
                        Err(e) => eprintln!("turn scenario task failed: {e}"),
                    }
                }
                outs
            })
        })
    };

    // ---- part a
    let n_a = args.tier.pick(12_000u64, 1_500_000);
    for i in 0..n_a {
        let sc = gen_a(&mut base.fork(0xA000_0000 + i), i);
        if i < 2 {
            report.sample(json!({"part": "a", "scenario_head": {"method": sc["method"], "class": sc["class"], "n_attrs": sc["attrs"].as_array().map(|a| a.len()), "key": sc["key"]["k"], "fp": sc["fp"]}}));
        }
        record_a(&mut report, &sc);
    }
    // every string length 0..=763 for every text attribute, with and without integrity (padding law)
    {
        let mut r = base.fork(0xA1);
        let step = if quick { 1 } else { 1 };
        for name in ["Username", "Realm", "Nonce", "Software"] {
            let mut l = 0;
            while l <= 763 {
                let sc = json!({"part": "a", "method": "Allocate", "class": "Request", "tx": hex(&gen_tx(&mut r)),
                    "attrs": [{"t": name, "s": gen_string_len(&mut r, l)}, {"t": "Lifetime", "n": 600}],
                    "key": if l % 2 == 0 { json!({"k": "long", "u": "u", "r": "r", "p": "p"}) } else { json!({"k": "none"}) }, "fp": true});
                record_a(&mut report, &sc);
                l += step;
            }
        }
        // DATA 0..=1400
        let mut l = 0;
        while l <= 1400 {
            let sc = json!({"part": "a", "method": "Send", "class": "Indication", "tx": hex(&gen_tx(&mut r)),
                "attrs": [{"t": "XorPeerAddress", "a": gen_addr(&mut r).to_string()}, {"t": "Data", "h": hex(&r.bytes(l))}],
                "key": {"k": "none"}, "fp": l % 3 == 0});
            record_a(&mut report, &sc);
            l += if quick { 3 } else { 1 };
        }
    }

    // ---- part b
    let n_b = args.tier.pick(12_000u64, 1_500_000);
    for i in 0..n_b {
        let sc = gen_b(&mut base.fork(0xB000_0000 + i), i);
        if i == 41 {
            report.sample(json!({"part": "b", "scenario_head": {"method": sc["method"], "class": sc["class"], "attrs": sc["attrs"].as_array().map(|a| a.iter().map(|x| x["t"].clone()).collect::<Vec<_>>())}}));
        }
        record_b(&mut report, &sc);
    }

    // ---- part d
    {
        let mut r = base.fork(0xD);
        for sc in cand_grid(&mut r) {
            record_d(&mut report, &sc);
        }
        for _ in 0..args.tier.pick(4_000, 300_000) {
            let sc = gen_d(&mut r);
            record_d(&mut report, &sc);
        }
        for i in 0..args.tier.pick(2_000, 100_000) {
            let sc = gen_d_foreign(&mut r, i);
            record_d(&mut report, &sc);
        }
    }

    // ---- part e
    {
        let b = prio_boundaries();
        for &g in &b {
            for &d in &b {
                record_e(&mut report, &json!({"part": "e", "g1": g, "d1": d}));
            }
        }
        let mut r = base.fork(0xE);
        for _ in 0..args.tier.pick(20_000, 3_000_000) {
            let pickp = |r: &mut Rng| if r.chance(1, 3) { *r.pick(&b) } else { r.u32() };
            let (g1, d1, g2, d2) = (pickp(&mut r), pickp(&mut r), pickp(&mut r), pickp(&mut r));
            // near-ties are where the tie-break bit decides the order
            let (g2, d2) = match r.below(4) {
                0 => (d1, g1),
                1 => (g1, d1.wrapping_add(1)),
                _ => (g2, d2),
            };
            record_e(&mut report, &json!({"part": "e", "g1": g1, "d1": d1, "g2": g2, "d2": d2}));
        }
        report.count("e.boundary_values", b.len() as u64);
    }

    // ---- collect part c
    match c_thread.map(|t| t.join()) {
        Ok(Ok(outs)) => {
            for (sc, out) in outs {
                record_c(&mut report, &sc, out);
            }
        }
        _ => report.note("part c thread failed (harness)"),
    }
    if report.counters.get("b.duplicate_attribute_reported=last").copied().unwrap_or(0) > 0 {
        report.note("observation (not judged, statement silent): for a duplicated attribute StunDecoded reports the LAST occurrence, the reference getters (RFC 5389 §15 'only the first occurrence needs to be processed') the first");
    }
    if report.counters.get("c.tcp_relay_candidate_not_connectable").copied().unwrap_or(0) > 0 {
        report.note("observation (outside C16): a relay candidate allocated over TURN/TCP is advertised with transport 'tcp' and never paired with UDP peers, so over TCP only the Allocate exchange is observable");
    }
    let c_ok = report.counters.get("c.scenarios_with_authenticated_requests").copied().unwrap_or(0);
    if c_ok == 0 {
        // a run whose TURN part observed nothing must not pass as a whole
        report.note("part c observed no authenticated TURN request: broken run");
        let code = report.finish(u64::MAX, 0);
        return if code == 1 { 1 } else { 2 };
    }
    report.finish(args.tier.pick(20_000, 2_000_000), 10_000)
}
