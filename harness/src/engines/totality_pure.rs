//! C07 stage 1 – the pure decoder entry points, their valid seed corpora (generated with
//! rustrtc's own encoders) and the post-parse operations applied to every accepted input.
//!
//! Every call into rustrtc goes through `Ctx::op*` (catch_unwind + CPU + allocation monitors);
//! the op name is the `entry=` part of a violation key. Calls into reference crates
//! (webrtc-srtp, used only to *craft* authentic-but-malformed SRTP) are never monitored.

use super::totality::Ctx;
use bytes::{Bytes, BytesMut};
use rustrtc::media::depacketizer::{Depacketizer, H264Depacketizer, PassThroughDepacketizer};
use rustrtc::media::frame::MediaKind as FrameKind;
use rustrtc::rtp::*;
use rustrtc::rtx::{self, RtxSenderConfig};
use rustrtc::sdp::{
    Attribute, CryptoAttribute, Origin, Rid, SdpFingerprint, SdpType, SessionDescription, Simulcast,
    Timing,
};
use rustrtc::srtp::SrtpPacket;
use rustrtc::transports::datachannel::{DataChannelAck, DataChannelOpen};
use rustrtc::transports::dtls::handshake::*;
use rustrtc::transports::dtls::record::{ContentType, DtlsRecord, ProtocolVersion};
use rustrtc::transports::ice::stun::{StunAttribute, StunClass, StunMessage, StunMethod};
use rustrtc::{IceCandidate, SrtpKeyingMaterial, SrtpProfile, SrtpSession, UdtlReceiveBuffer};
use std::net::SocketAddr;

pub struct Entry {
    pub name: &'static str,
    pub text: bool,
    /// relative share of the random / plain-random budget
    pub weight: f64,
    pub seeds: Vec<Vec<u8>>,
    pub specials: Vec<Vec<u8>>,
    /// returns true when the primary decoder accepted the input
    pub run: fn(&mut Ctx) -> bool,
}

fn addr() -> SocketAddr {
    "192.0.2.7:4242".parse().unwrap()
}

// ================================================================== RTP

fn rtp_packet(pt: u8, seq: u16, ext: Option<RtpHeaderExtension>, csrcs: Vec<u32>, payload: Vec<u8>, pad: u8) -> Vec<u8> {
    let mut h = RtpHeader::new(pt, seq, 0x1122_3344, 0xdead_beef);
    h.marker = seq % 2 == 0;
    h.csrcs = csrcs;
    h.extension = ext;
    let p = RtpPacket {
        header: h,
        payload: Bytes::from(payload),
        padding_len: pad,
    };
    p.marshal().unwrap_or_default()
}

pub fn rtp_seeds() -> Vec<Vec<u8>> {
    let mut v = vec![];
    v.push(rtp_packet(96, 1, None, vec![], vec![1, 2, 3, 4, 5], 0));
    // one-byte header extensions: id1 len1, id3 len3, padding, id5 len 2
    let one = vec![0x10, 0xaa, 0x32, 1, 2, 3, 0x00, 0x51, 9, 9, 0, 0];
    v.push(rtp_packet(111, 2, Some(RtpHeaderExtension::new(0xBEDE, one)), vec![], vec![7; 20], 0));
    // mid + abs-send-time style
    let one2 = vec![0x22, 1, 2, 3, 0x40, b'0', 0, 0];
    v.push(rtp_packet(96, 3, Some(RtpHeaderExtension::new(0xBEDE, one2)), vec![1, 2], vec![0x65, 1, 2, 3], 4));
    // two-byte header
    let two = vec![1, 2, 0xaa, 0xbb, 7, 0, 3, 1, 9, 0, 0, 0];
    v.push(rtp_packet(100, 4, Some(RtpHeaderExtension::new(0x1000, two)), vec![], vec![5; 8], 0));
    // unknown profile
    v.push(rtp_packet(100, 5, Some(RtpHeaderExtension::new(0x1234, vec![1, 2, 3, 4])), vec![9; 15], vec![], 0));
    // H.264: single NAL, STAP-A (two NALs), FU-A start / middle / end
    v.push(rtp_packet(102, 10, None, vec![], vec![0x65, 0x88, 0x84, 0, 1, 2], 0));
    v.push(rtp_packet(102, 11, None, vec![], vec![0x78, 0, 3, 0x67, 1, 2, 0, 2, 0x68, 3], 0));
    v.push(rtp_packet(102, 12, None, vec![], vec![0x7c, 0x85, 1, 2, 3, 4], 0));
    v.push(rtp_packet(102, 13, None, vec![], vec![0x7c, 0x05, 5, 6, 7], 0));
    v.push(rtp_packet(102, 14, None, vec![], vec![0x7c, 0x45, 8, 9], 0));
    // RTX packet (OSN + payload) and an empty-payload keep-alive with padding only
    v.push(rtp_packet(97, 20, None, vec![], vec![0, 10, 0x65, 1, 2], 0));
    v.push(rtp_packet(96, 21, None, vec![], vec![], 8));
    v
}

fn e_rtp(c: &mut Ctx) -> bool {
    let input = c.input;
    let parsed = c.op("RtpPacket::parse", || RtpPacket::parse(input));
    c.op("RtpPacket::parse_bytes", || RtpPacket::parse_bytes(Bytes::copy_from_slice(input)).is_ok());
    c.op("rtp::is_rtcp", || is_rtcp(input));
    c.op("rtx::decode_osn", || rtx::decode_osn(input));
    let Some(Ok(pkt)) = parsed else { return false };
    for id in [0u8, 1, 2, 3, 4, 5, 7, 14, 15, 16, 255] {
        c.op("RtpHeader::get_extension", || pkt.header.get_extension(id));
    }
    c.op("RtpPacket::marshal", || pkt.marshal().map(|v| v.len()));
    c.op("RtpPacket::marshal_into", || {
        let mut v = Vec::new();
        pkt.marshal_into(&mut v);
        v.len()
    });
    // stamping a header extension on a relayed packet, then re-serialising it
    let data = [0x5au8; 16];
    for (id, dl) in [(1u8, 1usize), (2, 3), (3, 16), (5, 2), (14, 4), (4, 3)] {
        let mut p = pkt.clone();
        let r = c.op("RtpHeader::set_extension", || p.header.set_extension(id, &data[..dl]).is_ok());
        if r == Some(true) {
            c.op("RtpHeader::get_extension(after set)", || p.header.get_extension(id));
            c.op("RtpPacket::marshal(after set_extension)", || p.marshal().map(|v| v.len()));
            c.op("RtpPacket::marshal_into(after set_extension)", || {
                let mut v = Vec::new();
                p.marshal_into(&mut v);
                v.len()
            });
            // second stamp on the rebuilt block
            c.op("RtpHeader::set_extension(second)", || p.header.set_extension(7, &data[..2]).is_ok());
        }
    }
    {
        let mut p = pkt.clone();
        c.op("RtpHeader::set_extension(invalid args)", || {
            let a = p.header.set_extension(0, &data[..1]).is_ok();
            let b = p.header.set_extension(15, &data[..1]).is_ok();
            let d = p.header.set_extension(1, &[]).is_ok();
            a || b || d
        });
    }
    // RTX
    let cfg = RtxSenderConfig {
        rtx_ssrc: 0x0101_0101,
        rtx_payload_type: 97,
    };
    if let Some(w) = c.op("rtx::wrap_rtx_packet", || rtx::wrap_rtx_packet(&pkt, &cfg, 77)) {
        c.op("RtpPacket::marshal(rtx)", || w.marshal().map(|v| v.len()));
        c.op("rtx::unwrap_rtx_packet(wrapped)", || rtx::unwrap_rtx_packet(&w, 1, 96).is_some());
    }
    if let Some(Some(u)) = c.op("rtx::unwrap_rtx_packet", || rtx::unwrap_rtx_packet(&pkt, 0x0202_0202, 96)) {
        c.op("RtpPacket::marshal(unwrapped)", || u.marshal().map(|v| v.len()));
    }
    // depacketizers on a single packet
    c.op("PassThroughDepacketizer::push", || {
        PassThroughDepacketizer.push(pkt.clone(), 8000, addr(), FrameKind::Audio).map(|v| v.len())
    });
    c.op("H264Depacketizer::push(single)", || {
        H264Depacketizer::new().push(pkt.clone(), 90000, addr(), FrameKind::Video).map(|v| v.len())
    });
    c.op("SrtpPacket::parse", || SrtpPacket::parse(BytesMut::from(input)).is_ok());
    true
}

// ---- H.264 depacketizer fed with a *sequence* of packets (u16 length prefixed)

fn h264_seq_seeds() -> Vec<Vec<u8>> {
    let s = rtp_seeds();
    let mk = |idx: &[usize]| {
        let mut out = vec![];
        for i in idx {
            out.extend_from_slice(&(s[*i].len() as u16).to_be_bytes());
            out.extend_from_slice(&s[*i]);
        }
        out
    };
    vec![mk(&[5, 6, 7, 8, 9]), mk(&[7, 8, 8, 9, 5]), mk(&[8, 9, 7, 9]), mk(&[6, 6, 11])]
}

fn e_h264_seq(c: &mut Ctx) -> bool {
    let input = c.input;
    let mut d = H264Depacketizer::new();
    let mut off = 0usize;
    let mut fed = 0usize;
    let mut any = false;
    let mut n = 0;
    while off + 2 <= input.len() && n < 600 {
        let l = u16::from_be_bytes([input[off], input[off + 1]]) as usize;
        off += 2;
        let end = (off + l).min(input.len());
        let chunk = &input[off..end];
        off = end;
        n += 1;
        // the harness-side split is not monitored; only rustrtc calls are
        let Ok(pkt) = RtpPacket::parse(chunk) else { continue };
        fed += chunk.len();
        any = true;
        // bound relative to everything this depacketizer has been fed so far (it is stateful)
        c.op_len("H264Depacketizer::push(sequence)", fed, || {
            d.push(pkt, 90000, addr(), FrameKind::Video).map(|v| v.len())
        });
    }
    any
}

// ================================================================== RTCP

fn rb(n: u32) -> ReportBlock {
    ReportBlock {
        ssrc: n,
        fraction_lost: 3,
        packets_lost: -5,
        highest_sequence: 70000,
        jitter: 12,
        last_sender_report: 99,
        delay_since_last_sender_report: 4,
    }
}

pub fn rtcp_seeds() -> Vec<Vec<u8>> {
    let sr = RtcpPacket::SenderReport(SenderReport {
        sender_ssrc: 1,
        ntp_most: 2,
        ntp_least: 3,
        rtp_timestamp: 4,
        packet_count: 5,
        octet_count: 6,
        report_blocks: vec![rb(7), rb(8)],
    });
    let rr = RtcpPacket::ReceiverReport(ReceiverReport {
        sender_ssrc: 1,
        report_blocks: vec![rb(9)],
    });
    let sdes = RtcpPacket::SourceDescription(SourceDescription {
        chunks: vec![
            SdesChunk {
                ssrc: 1,
                items: vec![
                    SdesItem { ty: 1, text: "user@host".into() },
                    SdesItem { ty: 6, text: "tool".into() },
                ],
            },
            SdesChunk { ssrc: 2, items: vec![SdesItem { ty: 1, text: "x".into() }] },
        ],
    });
    let bye = RtcpPacket::Goodbye(Goodbye { sources: vec![1, 2], reason: Some("bye now".into()) });
    let pli = RtcpPacket::PictureLossIndication(PictureLossIndication { sender_ssrc: 1, media_ssrc: 2 });
    let fir = RtcpPacket::FullIntraRequest(FullIntraRequest {
        sender_ssrc: 1,
        requests: vec![FirRequest { ssrc: 2, sequence_number: 3 }, FirRequest { ssrc: 4, sequence_number: 5 }],
    });
    let nack = RtcpPacket::GenericNack(GenericNack { sender_ssrc: 1, media_ssrc: 2, lost_packets: vec![10, 11, 13, 40, 65535, 0] });
    let remb = RtcpPacket::RemoteBitrateEstimate(RemoteBitrateEstimate { sender_ssrc: 1, bitrate_bps: 2_500_000, ssrcs: vec![5, 6] });
    let remb_big = RtcpPacket::RemoteBitrateEstimate(RemoteBitrateEstimate { sender_ssrc: 1, bitrate_bps: u64::MAX >> 1, ssrcs: vec![5] });
    let twcc = RtcpPacket::TransportWideCc(TransportWideCc {
        sender_ssrc: 1,
        media_ssrc: 2,
        base_sequence: 100,
        packet_status_count: 3,
        reference_time_64ms: 0x123456,
        feedback_packet_count: 7,
        payload: vec![0x20, 0x03, 4, 8, 12, 0],
    });
    let all = [sr.clone(), rr.clone(), sdes.clone(), bye.clone(), pli.clone(), fir.clone(), nack.clone(), remb.clone(), remb_big, twcc.clone()];
    let mut v: Vec<Vec<u8>> = all.iter().filter_map(|p| marshal_rtcp_packets(std::slice::from_ref(p)).ok()).collect();
    if let Ok(c) = marshal_rtcp_packets(&[sr, sdes, rr.clone(), pli, nack]) {
        v.push(c);
    }
    if let Ok(c) = marshal_rtcp_packets(&[rr, bye, remb, twcc, fir]) {
        v.push(c);
    }
    // hand-made: XR (207), APP (204), RR with padding bit and 4 bytes of padding
    v.push(vec![0x80, 207, 0, 2, 0, 0, 0, 1, 4, 0, 0, 0]);
    v.push(vec![0x80, 204, 0, 2, 0, 0, 0, 1, b'a', b'b', b'c', b'd']);
    v.push(vec![0xa0, 201, 0, 2, 0, 0, 0, 1, 0, 0, 0, 4]);
    v
}

fn e_rtcp(c: &mut Ctx) -> bool {
    let input = c.input;
    c.op("rtp::is_rtcp", || is_rtcp(input));
    let Some(Ok(pkts)) = c.op("parse_rtcp_packets", || parse_rtcp_packets(input, Some(addr()))) else {
        return false;
    };
    let out = c.op("marshal_rtcp_packets", || marshal_rtcp_packets(&pkts));
    for p in pkts.iter().take(64) {
        c.op("marshal_rtcp_packets(single)", || marshal_rtcp_packets(std::slice::from_ref(p)).map(|v| v.len()));
    }
    // rustrtc re-reads what it wrote (e.g. SFU relays): its own output must be digestible
    if let Some(Ok(bytes)) = out {
        c.op_len("parse_rtcp_packets(own output)", bytes.len().max(input.len()), || parse_rtcp_packets(&bytes, None).map(|v| v.len()));
    }
    !pkts.is_empty()
}

// ================================================================== STUN

pub fn stun_seeds() -> Vec<Vec<u8>> {
    let tid = [7u8; 12];
    let mut v = vec![];
    let mut br = StunMessage::binding_request(tid, Some("rustrtc"));
    br.attributes.push(StunAttribute::Username("abcd:efgh".into()));
    br.attributes.push(StunAttribute::Priority(1845501695));
    br.attributes.push(StunAttribute::IceControlling(0x0102030405060708));
    br.attributes.push(StunAttribute::UseCandidate);
    if let Ok(b) = br.encode(Some(b"password"), true) {
        v.push(b);
    }
    if let Ok(b) = StunMessage::binding_request(tid, None).encode(None, false) {
        v.push(b);
    }
    if let Ok(b) = StunMessage::binding_success_response(tid, "198.51.100.4:5000".parse().unwrap()).encode(Some(b"password"), true) {
        v.push(b);
    }
    if let Ok(b) = StunMessage::binding_success_response(tid, "[2001:db8::1]:6000".parse().unwrap()).encode(None, true) {
        v.push(b);
    }
    let alloc = StunMessage::allocate_request(
        tid,
        vec![
            StunAttribute::RequestedTransport(17),
            StunAttribute::Lifetime(600),
            StunAttribute::Username("user".into()),
            StunAttribute::Realm("example.org".into()),
            StunAttribute::Nonce("abcdef0123".into()),
            StunAttribute::Software("x".into()),
        ],
    );
    if let Ok(b) = alloc.encode(Some(b"0123456789abcdef"), false) {
        v.push(b);
    }
    for (class, method, attrs) in [
        (StunClass::Indication, StunMethod::Data, vec![StunAttribute::XorPeerAddress("203.0.113.9:7000".parse().unwrap()), StunAttribute::Data(vec![1, 2, 3, 4, 5])]),
        (StunClass::Indication, StunMethod::Send, vec![StunAttribute::XorPeerAddress("[2001:db8::2]:7001".parse().unwrap()), StunAttribute::Data(vec![])]),
        (StunClass::Request, StunMethod::ChannelBind, vec![StunAttribute::ChannelNumber(0x4000), StunAttribute::XorPeerAddress("203.0.113.9:7000".parse().unwrap())]),
        (StunClass::Request, StunMethod::CreatePermission, vec![StunAttribute::XorPeerAddress("203.0.113.9:7000".parse().unwrap())]),
        (StunClass::SuccessResponse, StunMethod::Allocate, vec![StunAttribute::XorMappedAddress("198.51.100.4:5000".parse().unwrap()), StunAttribute::Lifetime(300)]),
        (StunClass::Request, StunMethod::Refresh, vec![StunAttribute::Lifetime(0)]),
        (StunClass::Request, StunMethod::Binding, vec![StunAttribute::IceControlled(9)]),
    ] {
        let m = StunMessage { class, method, transaction_id: tid, attributes: attrs };
        if let Ok(b) = m.encode(None, false) {
            v.push(b);
        }
    }
    // hand-made 401 error response to Allocate with ERROR-CODE, REALM, NONCE, XOR-RELAYED-ADDRESS
    let mut e = vec![0x01, 0x13, 0, 0, 0x21, 0x12, 0xa4, 0x42];
    e.extend_from_slice(&tid);
    e.extend_from_slice(&[0x00, 0x09, 0, 16, 0, 0, 4, 1]);
    e.extend_from_slice(b"Unauthorized");
    e.extend_from_slice(&[0x00, 0x14, 0, 5]);
    e.extend_from_slice(b"realm\0\0\0");
    e.extend_from_slice(&[0x00, 0x15, 0, 3]);
    e.extend_from_slice(b"non\0");
    e.extend_from_slice(&[0x00, 0x16, 0, 8, 0, 1, 0x12, 0x34, 1, 2, 3, 4]);
    let l = (e.len() - 20) as u16;
    e[2..4].copy_from_slice(&l.to_be_bytes());
    v.push(e);
    v
}

fn e_stun(c: &mut Ctx) -> bool {
    let input = c.input;
    matches!(c.op("StunMessage::decode", || StunMessage::decode(input).is_ok()), Some(true))
}

// ================================================================== DTLS

fn hello_seeds() -> (Vec<u8>, Vec<u8>, Vec<u8>) {
    let ext = vec![0x00, 0x0e, 0x00, 0x05, 0x00, 0x02, 0x00, 0x01, 0x00, 0xff, 0x01, 0x00, 0x01, 0x00, 0x00, 0x17, 0x00, 0x00];
    let ch = ClientHello {
        version: ProtocolVersion::DTLS_1_2,
        random: Random::new(),
        session_id: vec![1, 2, 3],
        cookie: vec![9; 20],
        cipher_suites: vec![0xc02b, 0xc02f],
        compression_methods: vec![0],
        extensions: ext.clone(),
    };
    let mut b = BytesMut::new();
    ch.encode(&mut b);
    let sh = ServerHello {
        version: ProtocolVersion::DTLS_1_2,
        random: Random::new(),
        session_id: vec![],
        cipher_suite: 0xc02b,
        compression_method: 0,
        extensions: ext,
    };
    let mut b2 = BytesMut::new();
    sh.encode(&mut b2);
    let hv = HelloVerifyRequest { version: ProtocolVersion::DTLS_1_0, cookie: vec![5; 20] };
    let mut b3 = BytesMut::new();
    hv.encode(&mut b3);
    (b.to_vec(), b2.to_vec(), b3.to_vec())
}

/// (handshake type, body) for every body kind rustrtc decodes
fn body_seeds() -> Vec<(HandshakeType, Vec<u8>)> {
    let (ch, sh, hv) = hello_seeds();
    let mut out = vec![(HandshakeType::ClientHello, ch), (HandshakeType::ServerHello, sh), (HandshakeType::HelloVerifyRequest, hv)];
    let ske = ServerKeyExchange { curve_type: 3, named_curve: 23, public_key: vec![4; 65], signature: vec![0x30; 70] };
    let mut b = BytesMut::new();
    ske.encode(&mut b);
    out.push((HandshakeType::ServerKeyExchange, b.to_vec()));
    let cert = CertificateMessage { certificates: vec![vec![0x30; 300], vec![0x31; 40]] };
    let mut b = BytesMut::new();
    cert.encode(&mut b);
    out.push((HandshakeType::Certificate, b.to_vec()));
    let cke = ClientKeyExchange { identity_hint: vec![], public_key: vec![4; 65] };
    let mut b = BytesMut::new();
    cke.encode(&mut b);
    out.push((HandshakeType::ClientKeyExchange, b.to_vec()));
    let fin = Finished { verify_data: vec![7; 12] };
    let mut b = BytesMut::new();
    fin.encode(&mut b);
    out.push((HandshakeType::Finished, b.to_vec()));
    out.push((HandshakeType::ServerHelloDone, vec![]));
    out
}

fn hs_msg(t: HandshakeType, seq: u16, body: &[u8], frag: Option<(u32, u32)>) -> Vec<u8> {
    let (off, len) = frag.unwrap_or((0, body.len() as u32));
    let m = HandshakeMessage {
        msg_type: t,
        total_length: body.len() as u32,
        message_seq: seq,
        fragment_offset: off,
        fragment_length: len,
        body: Bytes::copy_from_slice(&body[off as usize..(off + len) as usize]),
    };
    let mut b = BytesMut::new();
    m.encode(&mut b);
    let mut v = b.to_vec();
    // encode() writes body.len() as the total length; a genuine fragment carries the full length
    let tl = (body.len() as u32).to_be_bytes();
    if v.len() >= 4 {
        v[1..4].copy_from_slice(&tl[1..]);
    }
    v
}

pub fn handshake_seeds() -> Vec<Vec<u8>> {
    let mut v = vec![];
    for (i, (t, b)) in body_seeds().iter().enumerate() {
        v.push(hs_msg(*t, i as u16, b, None));
    }
    // a fragmented certificate (two fragments in one buffer) and a whole flight
    let bs = body_seeds();
    let cert = &bs[4].1;
    let half = (cert.len() / 2) as u32;
    let mut f = hs_msg(HandshakeType::Certificate, 2, cert, Some((0, half)));
    f.extend_from_slice(&hs_msg(HandshakeType::Certificate, 2, cert, Some((half, cert.len() as u32 - half))));
    v.push(f);
    let mut flight = vec![];
    for (i, idx) in [1usize, 4, 3, 7].iter().enumerate() {
        flight.extend_from_slice(&hs_msg(bs[*idx].0, i as u16, &bs[*idx].1, None));
    }
    v.push(flight);
    v
}

fn record(ct: ContentType, epoch: u16, seq: u64, payload: &[u8]) -> Vec<u8> {
    let r = DtlsRecord {
        content_type: ct,
        version: ProtocolVersion::DTLS_1_2,
        epoch,
        sequence_number: seq,
        payload: Bytes::copy_from_slice(payload),
    };
    let mut b = BytesMut::new();
    r.encode(&mut b);
    b.to_vec()
}

pub fn record_seeds() -> Vec<Vec<u8>> {
    let hs = handshake_seeds();
    let mut v = vec![];
    for (i, h) in hs.iter().enumerate() {
        v.push(record(ContentType::Handshake, 0, i as u64, h));
    }
    v.push(record(ContentType::ChangeCipherSpec, 0, 5, &[1]));
    v.push(record(ContentType::Alert, 0, 6, &[2, 40]));
    v.push(record(ContentType::Alert, 1, 1, &[1, 0]));
    v.push(record(ContentType::ApplicationData, 1, 2, &[0xaa; 40]));
    v.push(record(ContentType::Heartbeat, 1, 3, &[1, 0, 2, 9, 9]));
    // several records in one datagram
    let mut multi = record(ContentType::Handshake, 0, 7, &hs[1]);
    multi.extend_from_slice(&record(ContentType::ChangeCipherSpec, 0, 8, &[1]));
    multi.extend_from_slice(&record(ContentType::Handshake, 1, 0, &[0x55; 40]));
    v.push(multi);
    v
}

fn decode_body(c: &mut Ctx, t: HandshakeType, body: &Bytes) -> bool {
    let mut b = body.clone();
    let r = match t {
        HandshakeType::ClientHello => c.op("ClientHello::decode", || ClientHello::decode(&mut b).is_ok()),
        HandshakeType::ServerHello => c.op("ServerHello::decode", || ServerHello::decode(&mut b).is_ok()),
        HandshakeType::HelloVerifyRequest => c.op("HelloVerifyRequest::decode", || HelloVerifyRequest::decode(&mut b).is_ok()),
        HandshakeType::Certificate => c.op("CertificateMessage::decode", || CertificateMessage::decode(&mut b).is_ok()),
        HandshakeType::ServerKeyExchange => c.op("ServerKeyExchange::decode", || ServerKeyExchange::decode(&mut b).is_ok()),
        HandshakeType::ClientKeyExchange => c.op("ClientKeyExchange::decode", || ClientKeyExchange::decode(&mut b).is_ok()),
        HandshakeType::Finished => c.op("Finished::decode", || Finished::decode(&mut b).is_ok()),
        _ => Some(false),
    };
    r == Some(true)
}

fn decode_handshakes(c: &mut Ctx, payload: &Bytes) -> usize {
    let mut b = payload.clone();
    let msgs = c.op("HandshakeMessage::decode", || {
        let mut out = vec![];
        while out.len() < 4096 {
            match HandshakeMessage::decode(&mut b) {
                Ok(Some(m)) => out.push(m),
                _ => break,
            }
        }
        out
    });
    let msgs = msgs.unwrap_or_default();
    for m in msgs.iter().take(32) {
        decode_body(c, m.msg_type, &m.body);
        // re-encoding a parsed message (retransmission buffers do this)
        c.op("HandshakeMessage::encode", || {
            let mut o = BytesMut::new();
            m.encode(&mut o);
            o.len()
        });
    }
    msgs.len()
}

fn e_dtls_record(c: &mut Ctx) -> bool {
    let input = c.input;
    let mut b = Bytes::copy_from_slice(input);
    let recs = c.op("DtlsRecord::decode", || {
        let mut out = vec![];
        while out.len() < 8192 {
            match DtlsRecord::decode(&mut b) {
                Ok(Some(r)) => out.push(r),
                _ => break,
            }
        }
        out
    });
    let recs = recs.unwrap_or_default();
    for r in recs.iter().take(16) {
        if r.content_type == ContentType::Handshake {
            decode_handshakes(c, &r.payload);
        }
        c.op("DtlsRecord::encode", || {
            let mut o = BytesMut::new();
            r.encode(&mut o);
            o.len()
        });
    }
    !recs.is_empty()
}

fn e_handshake(c: &mut Ctx) -> bool {
    let p = Bytes::copy_from_slice(c.input);
    decode_handshakes(c, &p) > 0
}

fn e_hs_bodies(c: &mut Ctx) -> bool {
    let p = Bytes::copy_from_slice(c.input);
    let mut any = false;
    for t in [
        HandshakeType::ClientHello,
        HandshakeType::ServerHello,
        HandshakeType::HelloVerifyRequest,
        HandshakeType::Certificate,
        HandshakeType::ServerKeyExchange,
        HandshakeType::ClientKeyExchange,
    ] {
        any |= decode_body(c, t, &p);
    }
    decode_body(c, HandshakeType::Finished, &p);
    any
}

// ================================================================== DCEP

fn dcep_seeds() -> Vec<Vec<u8>> {
    let o = DataChannelOpen {
        message_type: 3,
        channel_type: 0x00,
        priority: 256,
        reliability_parameter: 0,
        label: "chat".into(),
        protocol: "proto".into(),
    };
    let o2 = DataChannelOpen {
        message_type: 3,
        channel_type: 0x82,
        priority: 0,
        reliability_parameter: 3000,
        label: "".into(),
        protocol: "".into(),
    };
    vec![o.marshal(), o2.marshal(), DataChannelAck { message_type: 2 }.marshal()]
}

fn e_dcep(c: &mut Ctx) -> bool {
    let input = c.input;
    let a = c.op("DataChannelOpen::unmarshal", || DataChannelOpen::unmarshal(input).map(|o| o.marshal().len()).is_ok());
    let b = c.op("DataChannelAck::unmarshal", || DataChannelAck::unmarshal(input).is_ok());
    a == Some(true) || b == Some(true)
}

// ================================================================== SDP

pub const SDP_WEBRTC: &str = "v=0\r\n\
o=- 4611731400430051336 2 IN IP4 127.0.0.1\r\n\
s=-\r\n\
t=0 0\r\n\
a=group:BUNDLE 0 1 2\r\n\
a=extmap-allow-mixed\r\n\
a=msid-semantic: WMS stream\r\n\
m=audio 9 UDP/TLS/RTP/SAVPF 111 63 9 0 8 13 110 126\r\n\
c=IN IP4 0.0.0.0\r\n\
a=rtcp:9 IN IP4 0.0.0.0\r\n\
a=candidate:842163049 1 udp 1677729535 203.0.113.5 46154 typ srflx raddr 192.168.1.4 rport 46154 generation 0\r\n\
a=candidate:1 1 tcp 1518280447 192.168.1.4 9 typ host tcptype active\r\n\
a=ice-ufrag:EsAw\r\n\
a=ice-pwd:P2uYro0UCOQ4zxjKXaWCBui1\r\n\
a=ice-options:trickle\r\n\
a=fingerprint:sha-256 D2:FA:0E:C3:22:59:5E:14:95:69:92:3D:13:B4:84:24:2C:C2:A2:C0:3E:FD:34:8E:5E:EA:6F:AF:52:CE:E6:0F\r\n\
a=setup:actpass\r\n\
a=mid:0\r\n\
a=extmap:1 urn:ietf:params:rtp-hdrext:ssrc-audio-level\r\n\
a=extmap:2 http://www.webrtc.org/experiments/rtp-hdrext/abs-send-time\r\n\
a=extmap:4 urn:ietf:params:rtp-hdrext:sdes:mid\r\n\
a=sendrecv\r\n\
a=msid:stream audio0\r\n\
a=rtcp-mux\r\n\
a=rtpmap:111 opus/48000/2\r\n\
a=rtcp-fb:111 transport-cc\r\n\
a=fmtp:111 minptime=10;useinbandfec=1\r\n\
a=rtpmap:63 red/48000/2\r\n\
a=fmtp:63 111/111\r\n\
a=rtpmap:9 G722/8000\r\n\
a=rtpmap:0 PCMU/8000\r\n\
a=rtpmap:8 PCMA/8000\r\n\
a=rtpmap:13 CN/8000\r\n\
a=rtpmap:110 telephone-event/48000\r\n\
a=rtpmap:126 telephone-event/8000\r\n\
a=fmtp:126 0-16\r\n\
a=ptime:20\r\n\
a=ssrc:3570614608 cname:4TOk42mSjXCkVIa6\r\n\
m=video 9 UDP/TLS/RTP/SAVPF 96 97 102 103 35 36 45 46\r\n\
c=IN IP4 0.0.0.0\r\n\
a=rtcp:9 IN IP4 0.0.0.0\r\n\
a=ice-ufrag:EsAw\r\n\
a=ice-pwd:P2uYro0UCOQ4zxjKXaWCBui1\r\n\
a=fingerprint:sha-256 D2:FA:0E:C3:22:59:5E:14:95:69:92:3D:13:B4:84:24:2C:C2:A2:C0:3E:FD:34:8E:5E:EA:6F:AF:52:CE:E6:0F\r\n\
a=setup:actpass\r\n\
a=mid:1\r\n\
a=extmap:14 urn:ietf:params:rtp-hdrext:toffset\r\n\
a=extmap:4 urn:ietf:params:rtp-hdrext:sdes:mid\r\n\
a=extmap:10 urn:ietf:params:rtp-hdrext:sdes:rtp-stream-id\r\n\
a=extmap:11 urn:ietf:params:rtp-hdrext:sdes:repaired-rtp-stream-id\r\n\
a=extmap:3/sendonly http://www.ietf.org/id/draft-holmer-rmcat-transport-wide-cc-extensions-01\r\n\
a=sendrecv\r\n\
a=rtcp-mux\r\n\
a=rtcp-rsize\r\n\
a=rtpmap:96 VP8/90000\r\n\
a=rtcp-fb:96 goog-remb\r\n\
a=rtcp-fb:96 transport-cc\r\n\
a=rtcp-fb:96 ccm fir\r\n\
a=rtcp-fb:96 nack\r\n\
a=rtcp-fb:96 nack pli\r\n\
a=rtpmap:97 rtx/90000\r\n\
a=fmtp:97 apt=96\r\n\
a=rtpmap:102 H264/90000\r\n\
a=rtcp-fb:102 nack pli\r\n\
a=fmtp:102 level-asymmetry-allowed=1;packetization-mode=1;profile-level-id=42001f\r\n\
a=rtpmap:103 rtx/90000\r\n\
a=fmtp:103 apt=102;rtx-time=3000\r\n\
a=rtpmap:35 VP9/90000\r\n\
a=fmtp:35 profile-id=0\r\n\
a=rtpmap:36 rtx/90000\r\n\
a=fmtp:36 apt=35\r\n\
a=rtpmap:45 AV1/90000\r\n\
a=rtpmap:46 rtx/90000\r\n\
a=fmtp:46 apt=45\r\n\
a=rid:h send pt=96;max-width=1280;max-height=720\r\n\
a=rid:m send max-width=640\r\n\
a=rid:l send\r\n\
a=simulcast:send h;m;~l recv r0\r\n\
a=ssrc-group:FID 1234 5678\r\n\
a=ssrc:1234 cname:4TOk42mSjXCkVIa6\r\n\
a=ssrc:1234 msid:stream video0\r\n\
a=ssrc:5678 cname:4TOk42mSjXCkVIa6\r\n\
m=application 9 UDP/DTLS/SCTP webrtc-datachannel\r\n\
c=IN IP4 0.0.0.0\r\n\
a=ice-ufrag:EsAw\r\n\
a=ice-pwd:P2uYro0UCOQ4zxjKXaWCBui1\r\n\
a=fingerprint:sha-256 D2:FA:0E:C3:22:59:5E:14:95:69:92:3D:13:B4:84:24:2C:C2:A2:C0:3E:FD:34:8E:5E:EA:6F:AF:52:CE:E6:0F\r\n\
a=setup:actpass\r\n\
a=mid:2\r\n\
a=sctp-port:5000\r\n\
a=max-message-size:262144\r\n";

pub const SDP_SIP: &str = "v=0\r\n\
o=alice 2890844526 2890844527 IN IP4 198.51.100.10\r\n\
s=call\r\n\
c=IN IP4 198.51.100.10\r\n\
b=AS:64\r\n\
t=0 0\r\n\
m=audio 49170 RTP/SAVP 0 8 9 18 101\r\n\
a=crypto:1 AES_CM_128_HMAC_SHA1_80 inline:WVNfX19zZW1jdGwgKCkgewkyMjA7fQp9CnVubGVz|2^20|1:4 FEC_ORDER=FEC_SRTP\r\n\
a=crypto:2 AES_CM_128_HMAC_SHA1_32 inline:PS1uQCVeeCFCanVmcjkpPywjNWhcYD0mXXtxaVBR|2^20|1:4\r\n\
a=crypto:3 AEAD_AES_128_GCM inline:PS1uQCVeeCFCanVmcjkpPywjNWhcYD0mXXtx\r\n\
a=rtpmap:0 PCMU/8000\r\n\
a=rtpmap:8 PCMA/8000\r\n\
a=rtpmap:9 G722/8000\r\n\
a=rtpmap:18 G729/8000\r\n\
a=fmtp:18 annexb=no\r\n\
a=rtpmap:101 telephone-event/8000\r\n\
a=fmtp:101 0-16\r\n\
a=ptime:20\r\n\
a=maxptime:150\r\n\
a=sendonly\r\n\
m=video 49172 RTP/AVP 99\r\n\
c=IN IP6 2001:db8::10\r\n\
a=rtpmap:99 H264/90000\r\n\
a=fmtp:99 profile-level-id=42e01f;packetization-mode=1\r\n\
a=recvonly\r\n";

pub const SDP_T38: &str = "v=0\r\n\
o=- 1 2 IN IP4 192.0.2.1\r\n\
s=fax\r\n\
c=IN IP4 192.0.2.1\r\n\
t=0 0\r\n\
m=image 4000 udptl t38\r\n\
a=T38FaxVersion:0\r\n\
a=T38MaxBitRate:14400\r\n\
a=T38FaxRateManagement:transferredTCF\r\n\
a=T38FaxMaxBuffer:1024\r\n\
a=T38FaxMaxDatagram:238\r\n\
a=T38FaxUdpEC:t38UDPRedundancy\r\n\
m=audio 0 RTP/AVP 0\r\n\
a=inactive\r\n";

pub fn sdp_seeds() -> Vec<Vec<u8>> {
    vec![
        SDP_WEBRTC.as_bytes().to_vec(),
        SDP_SIP.as_bytes().to_vec(),
        SDP_T38.as_bytes().to_vec(),
        b"v=0\no=- 0 0 IN IP4 0.0.0.0\ns=-\nt=0 0\nm=audio 9 RTP/AVP 0\na=mid:a\n".to_vec(),
    ]
}

pub fn sdp_specials() -> Vec<Vec<u8>> {
    let base = "v=0\r\no=- 1 1 IN IP4 127.0.0.1\r\ns=-\r\nt=0 0\r\n";
    let mut v: Vec<String> = vec![];
    for mid in ["65535", "65534", "255", "256", "4294967295", "-1", "", "é", "18446744073709551615"] {
        v.push(format!("{base}a=group:BUNDLE {mid}\r\nm=audio 9 UDP/TLS/RTP/SAVPF 111\r\na=mid:{mid}\r\na=rtpmap:111 opus/48000/2\r\nm=video 9 UDP/TLS/RTP/SAVPF 96\r\na=mid:{mid}\r\na=rtpmap:96 VP8/90000\r\na=extmap:{mid} urn:ietf:params:rtp-hdrext:sdes:mid\r\n"));
    }
    for port in ["0", "65535", "65536", "99999999999", "-1", "9/2", "9/99999999999"] {
        v.push(format!("{base}m=audio {port} RTP/AVP 0 8\r\nm=image {port} udptl t38\r\nm=application {port} UDP/DTLS/SCTP webrtc-datachannel\r\na=sctp-port:{port}\r\na=max-message-size:{port}\r\n"));
    }
    for n in ["0", "255", "256", "65536", "4294967296", "99999999999999999999", "-5", "x"] {
        v.push(format!("{base}m=video 9 UDP/TLS/RTP/SAVPF {n} 96 97\r\na=rtpmap:{n} H264/{n}\r\na=rtpmap:96 VP8/{n}/{n}\r\na=fmtp:97 apt={n}\r\na=rtpmap:97 rtx/90000\r\na=fmtp:{n} profile-level-id={n};packetization-mode={n}\r\na=extmap:{n} urn:ietf:params:rtp-hdrext:sdes:mid\r\na=extmap:{n}/sendonly urn:x\r\na=rtcp-fb:{n} nack pli\r\na=rtcp-fb:* nack\r\na=ssrc:{n} cname:x\r\na=ptime:{n}\r\na=crypto:{n} AES_CM_128_HMAC_SHA1_80 inline:{n}\r\n"));
        v.push(format!("{base}m=audio 9 RTP/AVP {n} 101\r\na=rtpmap:{n} opus/{n}/{n}\r\na=rtpmap:101 telephone-event/{n}\r\na=fmtp:101 {n}-{n}\r\na=fmtp:{n} minptime={n};useinbandfec={n};maxplaybackrate={n}\r\n"));
        v.push(format!("{base}m=image 4000 udptl t38\r\na=T38FaxVersion:{n}\r\na=T38MaxBitRate:{n}\r\na=T38FaxMaxBuffer:{n}\r\na=T38FaxMaxDatagram:{n}\r\na=T38FaxRateManagement:{n}\r\na=T38FaxUdpEC:{n}\r\n"));
    }
    // degenerate lines
    for l in ["m=", "m=audio", "m=audio 9", "m=audio 9 RTP/AVP", "m= 9 RTP/AVP 0", "a=", "a=:", "a=rtpmap:", "a=rtpmap: ", "a=rtpmap:96", "a=rtpmap:96 ", "a=rtpmap:96 /", "a=fmtp:", "a=fmtp:96", "a=extmap:", "a=extmap:/", "a=extmap: x", "a=fingerprint:", "a=fingerprint:sha-256", "a=fingerprint:sha-256 :", "a=fingerprint:sha-256 zz:zz", "a=fingerprint:sha-256 A", "a=fingerprint:sha-256 é:é", "a=candidate:", "a=simulcast:", "a=simulcast:send", "a=rid:", "a=rid:1", "a=crypto:", "a=crypto:1", "a=rtcp-fb:", "a=rtcp-fb:96", "a=ssrc:", "o=", "t=", "t=0", "v=", "c=", "=", "=x", "x"] {
        v.push(format!("{base}m=video 9 UDP/TLS/RTP/SAVPF 96\r\n{l}\r\n"));
        v.push(format!("{base}{l}\r\n"));
        v.push(format!("{l}\r\n{base}"));
    }
    // thousands of attributes / sections (still <= 64 KiB)
    let mut s = String::from(base);
    s.push_str("m=video 9 UDP/TLS/RTP/SAVPF 96\r\n");
    while s.len() < 65000 {
        s.push_str("a=rtpmap:96 VP8/90000\r\n");
    }
    v.push(s);
    let mut s = String::from(base);
    while s.len() < 65000 {
        s.push_str("m=audio 9 RTP/AVP 0\r\na=mid:0\r\n");
    }
    v.push(s);
    let mut s = String::from(base);
    s.push_str("m=video 9 UDP/TLS/RTP/SAVPF");
    let mut i = 0;
    while s.len() < 60000 {
        s.push_str(&format!(" {}", i % 128));
        i += 1;
    }
    s.push_str("\r\n");
    v.push(s);
    let mut s = String::from(base);
    while s.len() < 65000 {
        s.push_str("a=\n");
    }
    v.push(s);
    v.into_iter().map(|s| s.into_bytes()).collect()
}

fn e_sdp(c: &mut Ctx) -> bool {
    let text = String::from_utf8_lossy(c.input).into_owned();
    let text = text.as_str();
    c.op("parse_bundle_mid_info", || rustrtc::parse_bundle_mid_info(text).is_some());
    c.op("modify_sdp_direction", || rustrtc::modify_sdp_direction(text, "sendonly").len());
    let Some(Ok(sd)) = c.op("SessionDescription::parse", || SessionDescription::parse(SdpType::Offer, text)) else {
        return false;
    };
    let out = c.op("SessionDescription::to_sdp_string", || sd.to_sdp_string());
    c.op("SessionDescription::dtls_fingerprint", || sd.dtls_fingerprint().is_ok());
    c.op("SessionDescription::to_video_capabilities", || sd.to_video_capabilities().len());
    c.op("SessionDescription::to_audio_capabilities", || sd.to_audio_capabilities().len());
    c.op("SessionDescription::to_image_capabilities", || sd.to_image_capabilities().len());
    for m in sd.media_sections.iter().take(24) {
        c.op("MediaSection::to_video_capabilities", || m.to_video_capabilities().len());
        c.op("MediaSection::to_audio_capabilities", || m.to_audio_capabilities().len());
        c.op("MediaSection::to_image_capabilities", || m.to_image_capabilities().len());
        c.op("MediaSection::get_crypto_attributes", || m.get_crypto_attributes().len());
        c.op("MediaSection::get_extmap_id", || m.get_extmap_id(rustrtc::SDES_MID_URI));
        c.op("rtx::extract_rtx_apt_map_from_attrs", || rtx::extract_rtx_apt_map_from_attrs(&m.attributes).len());
        for a in m.attributes.iter().take(200) {
            let Some(val) = a.value.as_deref() else { continue };
            match a.key.as_str() {
                "simulcast" => {
                    c.op("Simulcast::parse", || Simulcast::parse(val).is_some());
                }
                "rid" => {
                    c.op("Rid::parse", || Rid::parse(val).is_some());
                }
                "crypto" => {
                    c.op("CryptoAttribute::parse", || CryptoAttribute::parse(val).is_some());
                }
                "candidate" => {
                    c.op("IceCandidate::from_sdp", || IceCandidate::from_sdp(val).map(|x| x.to_sdp().len()).is_ok());
                }
                "fingerprint" => {
                    c.op("SdpFingerprint::parse", || SdpFingerprint::parse(val).is_ok());
                }
                "fmtp" => {
                    c.op("rtx::parse_apt", || rtx::parse_apt(val));
                }
                _ => {}
            }
        }
    }
    if let Some(s2) = out {
        let l = s2.len().max(c.input.len());
        c.op_len("SessionDescription::parse(own output)", l, || SessionDescription::parse(SdpType::Answer, &s2).is_ok());
    }
    true
}

// ---- attribute-value parsers and candidate lines on their own

pub fn sdp_attr_seeds() -> Vec<Vec<u8>> {
    [
        "send h;m;~l recv r0,r1",
        "recv 1;2",
        "h send pt=96,97;max-width=1280;max-height=720",
        "l recv",
        "1 AES_CM_128_HMAC_SHA1_80 inline:WVNfX19zZW1jdGwgKCkgewkyMjA7fQp9CnVubGVz|2^20|1:4 FEC_ORDER=FEC_SRTP",
        "sha-256 D2:FA:0E:C3:22:59:5E:14:95:69:92:3D:13:B4:84:24:2C:C2:A2:C0:3E:FD:34:8E:5E:EA:6F:AF:52:CE:E6:0F",
        "sha-1 d2fa0ec322595e149569923d13b484242cc2a2c0",
        "- 4611731400430051336 2 IN IP4 127.0.0.1",
        "alice 1 2 IN IP6 ::1",
        "0 0",
        "3034423619 3042462419",
        "rtpmap:96 VP8/90000",
        "apt=96;rtx-time=3000",
        "candidate:842163049 1 udp 1677729535 203.0.113.5 46154 typ srflx raddr 192.168.1.4 rport 46154 generation 0",
        "1 1 UDP 2130706431 192.168.1.2 54321 typ host",
        "2 2 tcp 1518280447 2001:db8::1 9 typ host tcptype passive",
        "3 1 TCP 1 10.0.0.1 9 typ relay raddr 1.2.3.4 rport 5 tcptype so",
        "4 1 udp 41885439 198.51.100.1 3478 typ prflx",
    ]
    .iter()
    .map(|s| s.as_bytes().to_vec())
    .collect()
}

fn sdp_attr_specials() -> Vec<Vec<u8>> {
    let mut v: Vec<String> = vec![];
    for n in ["0", "65535", "65536", "4294967295", "4294967296", "-1", "", "99999999999999999999"] {
        v.push(format!("1 {n} udp {n} 192.168.1.2 {n} typ host"));
        v.push(format!("{n} 1 udp 1 {n} 1 typ host"));
        v.push(format!("1 1 tcp 1 1.2.3.4 9 typ host tcptype {n}"));
        v.push(format!("1 1 tcp 1 1.2.3.4 9 typ host x {n} tcptype"));
        v.push(format!("{n} AES_CM_128_HMAC_SHA1_80 inline:{n}"));
        v.push(format!("{n} {n}"));
        v.push(format!("- {n} {n} IN IP4 {n}"));
        v.push(format!("apt={n}"));
    }
    for s in ["1 1 udp 1 :: 1 typ host", "1 1 udp 1 ::1%eth0 1 typ host", "1 1 udp 1 [::1] 1 typ host", "1 1 udp 1 1.2.3.4:5 1 typ host", "1 1 tcp 1 1.2.3.4 1 typ host tcptype", "1 1 tcp 1 1.2.3.4 1 typ host a", "candidate: 1 udp 1 1.2.3.4 1 typ host",
        "sha-256 :", "sha-256 ::", "sha-256 A:", "sha-256 AB:C", "sha-256 é", "sha-256 aé:bb", "send", "send ;", "send ~", "recv ;;;;", "1 send ;", "1 send =", "1 send pt", "apt", "apt=", "apt=;", ";apt=1", "a apt=9"] {
        v.push(s.to_string());
    }
    v.into_iter().map(|s| s.into_bytes()).collect()
}

fn e_sdp_attr(c: &mut Ctx) -> bool {
    let text = String::from_utf8_lossy(c.input).into_owned();
    let t = text.as_str();
    let mut any = false;
    any |= c.op("Simulcast::parse", || Simulcast::parse(t).is_some()) == Some(true);
    any |= c.op("Rid::parse", || Rid::parse(t).is_some()) == Some(true);
    any |= c.op("CryptoAttribute::parse", || CryptoAttribute::parse(t).is_some()) == Some(true);
    any |= c.op("SdpFingerprint::parse", || SdpFingerprint::parse(t).is_ok()) == Some(true);
    any |= c.op("Origin::parse", || Origin::parse(t).is_ok()) == Some(true);
    any |= c.op("Timing::parse", || Timing::parse(t).is_ok()) == Some(true);
    c.op("Attribute::from_line", || Attribute::from_line(t).key.len());
    any |= c.op("rtx::parse_apt", || rtx::parse_apt(t).is_some()) == Some(true);
    any |= c.op("IceCandidate::from_sdp", || IceCandidate::from_sdp(t).map(|x| x.to_sdp().len()).is_ok()) == Some(true);
    any
}

// ================================================================== SRTP

const MK: [u8; 16] = [0x11; 16];
const MS14: [u8; 14] = [0x22; 14];
const PROFILES: [(SrtpProfile, usize, &str); 4] = [
    (SrtpProfile::Aes128Sha1_80, 14, "cm80"),
    (SrtpProfile::Aes128Sha1_32, 14, "cm32"),
    (SrtpProfile::AeadAes128Gcm, 12, "gcm"),
    (SrtpProfile::NullCipherHmac, 14, "null"),
];

fn srtp_session(p: SrtpProfile, salt_len: usize) -> Option<SrtpSession> {
    let k = SrtpKeyingMaterial::new(MK.to_vec(), MS14[..salt_len].to_vec());
    SrtpSession::new(p, k.clone(), k).ok()
}

fn srtp_seeds() -> Vec<Vec<u8>> {
    let mut v = vec![];
    let rtps = rtp_seeds();
    let rtcps = rtcp_seeds();
    for (p, sl, _) in PROFILES {
        let Some(mut s) = srtp_session(p, sl) else { continue };
        for raw in rtps.iter().take(4) {
            if let Ok(pkt) = RtpPacket::parse(raw) {
                let mut out = vec![0u8; s.protected_rtp_len(&pkt)];
                if s.protect_rtp(&pkt, &mut out).is_ok() {
                    v.push(out);
                }
            }
        }
        for raw in rtcps.iter().take(3) {
            let mut b = raw.clone();
            if s.protect_rtcp(&mut b).is_ok() {
                v.push(b);
            }
        }
    }
    v
}

fn e_srtp(c: &mut Ctx) -> bool {
    let input = c.input;
    let mut any = false;
    c.op("SrtpPacket::parse", || SrtpPacket::parse(BytesMut::from(input)).is_ok());
    for (p, sl, _name) in PROFILES {
        // raw bytes from the network (an attacker without the key)
        let Some(mut rx) = srtp_session(p, sl) else { continue };
        if let Ok(sp) = SrtpPacket::parse(BytesMut::from(input)) {
            let r = c.op("SrtpSession::unprotect_rtp", || rx.unprotect_rtp(sp).map(|p| p.payload.len()));
            if let Some(Ok(_)) = r {
                any = true;
                // a replay of the same packet must be an error, not a crash
                if let Ok(sp2) = SrtpPacket::parse(BytesMut::from(input)) {
                    c.op("SrtpSession::unprotect_rtp(replay)", || rx.unprotect_rtp(sp2).is_ok());
                }
            }
        }
        let mut b = input.to_vec();
        if let Some(Ok(())) = c.op("SrtpSession::unprotect_rtcp", || rx.unprotect_rtcp(&mut b)) {
            any = true;
            c.op("parse_rtcp_packets(after unprotect)", || parse_rtcp_packets(&b, None).is_ok());
        }
        // the genuine peer (holds the key) sends the input as plaintext: rustrtc protects what
        // it parsed and the receiver unprotects it
        if let Ok(pkt) = RtpPacket::parse(input) {
            if let (Some(mut tx), Some(mut rx2)) = (srtp_session(p, sl), srtp_session(p, sl)) {
                let out = c.op("SrtpSession::protect_rtp(parsed)", || {
                    let mut out = vec![0u8; tx.protected_rtp_len(&pkt)];
                    tx.protect_rtp(&pkt, &mut out).map(|_| out)
                });
                if let Some(Ok(out)) = out {
                    if let Ok(sp) = SrtpPacket::parse(BytesMut::from(&out[..])) {
                        let r = c.op_len("SrtpSession::unprotect_rtp(authentic)", out.len(), || rx2.unprotect_rtp(sp).is_ok());
                        any |= r == Some(true);
                    }
                }
            }
        }
        if input.len() >= 8 && is_rtcp(input) {
            if let (Some(mut tx), Some(mut rx2)) = (srtp_session(p, sl), srtp_session(p, sl)) {
                let mut b = input.to_vec();
                if let Some(Ok(())) = c.op("SrtpSession::protect_rtcp", || tx.protect_rtcp(&mut b)) {
                    let l = b.len();
                    c.op_len("SrtpSession::unprotect_rtcp(authentic)", l, || rx2.unprotect_rtcp(&mut b).is_ok());
                }
            }
        }
    }
    // authentic SRTP whose *plaintext* is the malformed input, crafted with the reference crate
    // (rustrtc's protect() only takes well-formed structs): padding flag with a bogus count,
    // extension bit with a short block, ...
    use webrtc_srtp::context::Context;
    use webrtc_srtp::protection_profile::ProtectionProfile as PP;
    for (pp, p, sl) in [
        (PP::Aes128CmHmacSha1_80, SrtpProfile::Aes128Sha1_80, 14usize),
        (PP::AeadAes128Gcm, SrtpProfile::AeadAes128Gcm, 12),
    ] {
        let enc = std::panic::catch_unwind(|| {
            let mut cx = Context::new(&MK, &MS14[..sl], pp, None, None).ok()?;
            let a = cx.encrypt_rtp(input).ok().map(|b| b.to_vec());
            let b = cx.encrypt_rtcp(input).ok().map(|b| b.to_vec());
            Some((a, b))
        });
        let Ok(Some((a, b))) = enc else { continue };
        if let (Some(a), Some(mut rx)) = (a, srtp_session(p, sl)) {
            if let Ok(sp) = SrtpPacket::parse(BytesMut::from(&a[..])) {
                let r = c.op_len("SrtpSession::unprotect_rtp(reference-encrypted)", a.len(), || rx.unprotect_rtp(sp).map(|p| p.marshal().map(|v| v.len())).is_ok());
                any |= r == Some(true);
            }
        }
        if let (Some(mut b), Some(mut rx)) = (b, srtp_session(p, sl)) {
            let l = b.len();
            let r = c.op_len("SrtpSession::unprotect_rtcp(reference-encrypted)", l, || rx.unprotect_rtcp(&mut b).is_ok());
            if r == Some(true) {
                any = true;
                c.op_len("parse_rtcp_packets(after unprotect)", l, || parse_rtcp_packets(&b, None).is_ok());
            }
        }
    }
    any
}

// ================================================================== UDPTL receive buffer

fn udptl_seeds() -> Vec<Vec<u8>> {
    let mk = |ops: &[(u16, u8)]| {
        let mut v = vec![];
        for (s, l) in ops {
            v.extend_from_slice(&s.to_be_bytes());
            v.push(*l);
        }
        v
    };
    vec![
        mk(&[(1, 4), (2, 4), (3, 0), (4, 9)]),
        mk(&[(1, 1), (3, 1), (2, 1), (5, 1), (4, 1)]),
        mk(&[(0, 1), (65535, 1), (1, 1), (40, 1), (2, 2), (3, 3)]),
        mk(&[(1, 1), (20000, 1), (40000, 1), (2, 1), (65535, 1), (0, 1)]),
    ]
}

fn e_udptl(c: &mut Ctx) -> bool {
    let input = c.input;
    let mut buf = if input.first().map(|b| b & 1 == 1).unwrap_or(false) {
        UdtlReceiveBuffer::with_max_size(u16::from(input[0]))
    } else {
        UdtlReceiveBuffer::new()
    };
    let mut fed = 0usize;
    let mut any = false;
    for ch in input.chunks_exact(3).take(3000) {
        let seq = u16::from_be_bytes([ch[0], ch[1]]);
        let len = ch[2] as usize;
        fed += 3 + len;
        let r = c.op_len("UdtlReceiveBuffer::try_deliver", fed, || buf.try_deliver(seq, vec![0u8; len], vec![(0, vec![1, 2])]).map(|o| o.is_some()));
        any |= matches!(r, Some(Ok(true)));
        if ch[2] == 0xfe {
            c.op("UdtlReceiveBuffer::reset", || buf.reset(seq));
        }
    }
    c.op("UdtlReceiveBuffer::buffered_count", || buf.buffered_count() + buf.expected_seq() as usize);
    any
}

// ================================================================== registry

pub fn entries() -> Vec<Entry> {
    let (ch, sh, _) = hello_seeds();
    // exactly-34-byte hellos (version + random, nothing else) and neighbours
    let mut hello_specials = vec![];
    for l in [33usize, 34, 35, 36, 37, 38, 39, 40] {
        hello_specials.push(ch[..l.min(ch.len())].to_vec());
        hello_specials.push(sh[..l.min(sh.len())].to_vec());
        hello_specials.push(vec![0u8; l]);
        hello_specials.push(vec![0xffu8; l]);
    }
    let hs_specials: Vec<Vec<u8>> = hello_specials
        .iter()
        .flat_map(|b| vec![hs_msg(HandshakeType::ClientHello, 0, b, None), hs_msg(HandshakeType::ServerHello, 0, b, None)])
        .collect();
    let rec_specials: Vec<Vec<u8>> = hs_specials.iter().map(|h| record(ContentType::Handshake, 0, 0, h)).collect();
    let bodies: Vec<Vec<u8>> = body_seeds().into_iter().map(|(_, b)| b).collect();
    vec![
        Entry { name: "rtp", text: false, weight: 1.5, seeds: rtp_seeds(), specials: vec![vec![0x80; 12], vec![0x90; 16], vec![0xb0; 13]], run: e_rtp },
        Entry { name: "h264_seq", text: false, weight: 0.5, seeds: h264_seq_seeds(), specials: vec![], run: e_h264_seq },
        Entry { name: "rtcp", text: false, weight: 1.5, seeds: rtcp_seeds(), specials: vec![vec![0x80, 200, 0, 0], vec![0xa0, 201, 0, 0], vec![0x9f, 206, 0xff, 0xff]], run: e_rtcp },
        Entry { name: "stun", text: false, weight: 1.0, seeds: stun_seeds(), specials: vec![vec![0u8; 20]], run: e_stun },
        Entry { name: "dtls_record", text: false, weight: 1.0, seeds: record_seeds(), specials: rec_specials, run: e_dtls_record },
        Entry { name: "dtls_handshake", text: false, weight: 1.0, seeds: handshake_seeds(), specials: hs_specials, run: e_handshake },
        Entry { name: "dtls_bodies", text: false, weight: 1.0, seeds: bodies, specials: hello_specials, run: e_hs_bodies },
        Entry { name: "dcep", text: false, weight: 0.5, seeds: dcep_seeds(), specials: vec![vec![3; 12], vec![2], vec![3, 0, 0, 0, 0, 0, 0, 0, 0xff, 0xff, 0xff, 0xff]], run: e_dcep },
        Entry { name: "sdp", text: true, weight: 1.0, seeds: sdp_seeds(), specials: sdp_specials(), run: e_sdp },
        Entry { name: "sdp_attr", text: true, weight: 1.0, seeds: sdp_attr_seeds(), specials: sdp_attr_specials(), run: e_sdp_attr },
        Entry { name: "srtp", text: false, weight: 0.5, seeds: { let mut s = srtp_seeds(); s.extend(rtp_seeds().into_iter().take(6)); s.extend(rtcp_seeds().into_iter().take(4)); s }, specials: vec![], run: e_srtp },
        Entry { name: "udptl_buffer", text: false, weight: 0.5, seeds: udptl_seeds(), specials: vec![], run: e_udptl },
    ]
}
