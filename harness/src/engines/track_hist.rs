//! C20 - track sample queues never duplicate, reorder, corrupt or leak samples.
//!
//! One engine, three monitors, ONE report:
//!  1. `hist`  native history monitor. Scenario runner + oracle live in `harness/miri/src/scenario.rs`
//!             (shared verbatim with the sanitizer package, so all monitors judge by the same rules). The scenarios
//!             run inside worker subprocesses of this very binary (`rtcmon C20 --worker`), because a genuine
//!             memory error of the code under test may abort the process: a dead worker is evidence about the
//!             scenario it was running, not a harness failure. Workers only ever run scenarios of one class
//!             (queue kind x single/multi producer), so heap damage cannot be blamed on another class.
//!  2. `miri`  the tiny package `harness/miri` interpreted by `cargo +nightly miri run` over many scheduler
//!             seeds. The program carries the same oracle (prints ORACLE-VIOLATION lines); Miri itself adds
//!             data race / UB / deadlock / leak detection.
//!  3. `tsan`  (thorough only) the same package built with ThreadSanitizer, heavy contention.
//!
//! What the oracle demands is documented at the top of scenario.rs; it is exactly the statement of C20:
//! bit-identical to one pushed sample, no duplicate, per-producer order, drain then EndOfStream once the last
//! source is gone, no data race / memory error, payload drop balance. Samples LOST to overflow, WouldBlock or
//! stop() are never a violation. No wall-clock deadline yields a violation: a lost wake-up is decided by the
//! counting-waker argument (scenario.rs `Driven::Stuck`); watchdogs only ever produce `inconclusive`.

use crate::common::{Args, Report, Rng, Tier, Verdict, hash_value, load_replay};
use serde_json::{Value, json};
use std::collections::VecDeque;
use std::io::{BufRead, BufReader, Read, Write};
use std::path::{Path, PathBuf};
use std::process::{Command, Stdio};
use std::sync::{Arc, Mutex, mpsc};
use std::time::{Duration, Instant};

#[path = "../../miri/src/scenario.rs"]
mod scenario;
use scenario::{Params, Queue, Stop};

const RULE: &str = "hist: >=1 sample received AND (recv() parked at least once OR >=1 accepted sample was lost to overflow/stop) - i.e. producers and consumer really interleaved; miri/tsan: the program ran to a verdict on >=1 seed/repetition";

pub fn run(args: &Args) -> i32 {
    if args.has_flag("--worker") {
        return worker_main();
    }
    let mut report = Report::new(args, "exploration", RULE);
    report.assume("producers are 1..4 std threads using send / try_send / send_many on one shared Arc<SampleStreamSource> or on clones; exactly one consumer; capacities 1..64 (the quantifier of C20)");
    report.assume("interleavings are sampled (native scheduler; Miri's seeded scheduler with several preemption rates), not enumerated");
    report.assume("Miri runs programs of <= 12 operations per thread; TSan only sees races that physically overlap");
    let env = SanEnv::discover();

    if let Some(path) = &args.replay {
        let Some(sc) = load_replay(path) else {
            eprintln!("cannot read replay file {}", path.display());
            return 2;
        };
        replay(&mut report, &env, &sc);
        // a replay that held has one verdict and may be "trivial": that is not a broken run
        let held = report.held;
        let code = report.finish(1, 0);
        return if code == 2 && held > 0 { 0 } else { code };
    }

    let t0 = Instant::now();
    // Miri is the long pole: start it first, in its own thread.
    let miri_plan = miri_programs(args);
    let miri_par = args.tier.pick(8, 16);
    let env2 = env.clone();
    let miri_thread = std::thread::spawn(move || run_pool(miri_plan, miri_par, move |sc| run_miri(&env2, sc)));

    // native histories
    let scenarios = gen_hist_scenarios(args);
    let hist_results = run_hist(&scenarios);
    let hist_wall = t0.elapsed().as_secs_f64();
    for (sc, r) in scenarios.iter().zip(hist_results) {
        fold_hist(&mut report, sc, r);
    }
    report.note(format!("hist: {} scenarios in {:.1}s", scenarios.len(), hist_wall));

    match miri_thread.join() {
        Ok(results) => {
            for (sc, r) in results {
                fold_san(&mut report, "miri", &sc, r);
            }
        }
        Err(_) => report.note("miri driver thread panicked (harness bug) - no Miri results"),
    }
    report.note(format!("miri finished at {:.1}s", t0.elapsed().as_secs_f64()));

    if args.tier == Tier::Thorough {
        let t1 = Instant::now();
        match build_tsan(&env) {
            Ok(bin) => {
                report.note(format!("tsan build ok in {:.1}s", t1.elapsed().as_secs_f64()));
                report.count("tsan_build_ok", 1);
                let env3 = env.clone();
                let results = run_pool(tsan_programs(args), 4, move |sc| run_tsan(&env3, &bin, sc));
                for (sc, r) in results {
                    fold_san(&mut report, "tsan", &sc, r);
                }
            }
            Err(e) => {
                // not a violation, not a verdict: just recorded
                report.count("tsan_build_failed", 1);
                report.note(format!("tsan build failed (monitor skipped): {e}"));
            }
        }
    }
    let (minv, minn) = match args.tier {
        Tier::Quick => (10_000, 2_000),
        Tier::Thorough => (100_000, 20_000),
    };
    report.finish(minv, minn)
}

// =====================================================================================================
// native history monitor
// =====================================================================================================

fn params_to_json(monitor: &str, p: &Params) -> Value {
    json!({"monitor": monitor, "args": p.to_args()})
}

fn json_args(sc: &Value) -> Vec<String> {
    sc["args"]
        .as_array()
        .map(|a| a.iter().filter_map(|x| x.as_str().map(String::from)).collect())
        .unwrap_or_default()
}

fn gen_params(r: &mut Rng, tier: Tier) -> Params {
    let mut p = Params::default();
    let q = r.below(100);
    p.queue = if q < 72 {
        Queue::Track
    } else if q < 88 {
        Queue::Chan
    } else {
        Queue::Ring
    };
    p.producers = *r.pick(&[1, 1, 1, 1, 2, 2, 2, 3, 3, 4, 4]);
    p.shared = r.bool();
    p.cap = if r.chance(1, 4) {
        r.range(1, 64) as usize
    } else {
        *r.pick(&[1, 1, 1, 2, 2, 3, 4, 5, 8, 16, 32, 64])
    };
    let ops_menu: &[usize] = match tier {
        Tier::Quick => &[1, 1, 2, 2, 3, 4, 6, 10, 20, 50, 120, 300],
        Tier::Thorough => &[1, 1, 2, 2, 3, 4, 6, 10, 20, 50, 120, 300, 1000, 4000],
    };
    p.ops = *r.pick(ops_menu);
    p.mix = r.range(1, 7) as u8;
    p.stop = match r.below(10) {
        0 | 1 => Stop::Producer(r.usize_below(p.ops + 1)),
        2 | 3 => Stop::Consumer(r.usize_below(p.ops + 1)),
        _ => Stop::None,
    };
    p.churn = r.chance(1, 4);
    p.video = r.chance(3, 10);
    p.payload = *r.pick(&[0, 8, 16, 64, 200, 1500]);
    p.pace = *r.pick(&[0, 0, 1, 2, 3, 4, 6]);
    p.hold = r.chance(3, 10);
    // expected number of yields per thread stays small (a yield is expensive on a loaded machine)
    p.sched = if p.ops <= 10 {
        *r.pick(&[0, 0, 2, 2, 3, 5])
    } else if p.ops <= 50 {
        *r.pick(&[0, 0, 5, 10, 20])
    } else {
        *r.pick(&[0, 0, 0, 20, 50, 200])
    };
    p.seed = r.u32() as u64;
    p.sanitize();
    p
}

fn gen_hist_scenarios(args: &Args) -> Vec<Value> {
    let n = match args.opt("--hist-n").and_then(|s| s.parse::<usize>().ok()) {
        Some(n) => n,
        None => args.tier.pick(40_000, 400_000),
    };
    let base = Rng::new(args.seed).fork(0xC20);
    (0..n)
        .map(|i| {
            let mut r = base.fork(i as u64);
            params_to_json("hist", &gen_params(&mut r, args.tier))
        })
        .collect()
}

/// `rtcmon C20 --worker`: one scenario (array of key=value strings) per stdin line.
fn worker_main() -> i32 {
    let stdin = std::io::stdin();
    let stdout = std::io::stdout();
    for (i, line) in stdin.lock().lines().enumerate() {
        let Ok(line) = line else { break };
        if line.trim().is_empty() {
            continue;
        }
        let a: Vec<String> = serde_json::from_str(&line).unwrap_or_default();
        {
            let mut o = stdout.lock();
            let _ = writeln!(o, "BEGIN {i}");
            let _ = o.flush();
        }
        let v = match Params::from_args(&a) {
            Ok((p, _)) => outcome_json(&scenario::run(&p)),
            Err(e) => json!({"harness_error": e}),
        };
        let mut o = stdout.lock();
        let _ = writeln!(o, "END {i} {v}");
        let _ = o.flush();
    }
    0
}

fn outcome_json(o: &scenario::Outcome) -> Value {
    json!({
        "violations": o.violations.iter().map(|v| json!({"key": v.key, "what": v.what})).collect::<Vec<_>>(),
        "inconclusive": o.inconclusive,
        "received": o.received, "eos": o.eos, "stuck": o.stuck,
        "pendings": o.pendings, "wakes": o.wakes,
        "push_ok": o.push_ok, "push_wouldblock": o.push_wouldblock, "push_closed": o.push_closed,
        "push_other_err": o.push_other_err, "attempted": o.attempted,
        "created": o.created, "dropped": o.dropped, "live_at_eos": o.live_at_eos,
        "stop_called": o.stop_called, "lost": o.lost(),
        "sched": o.sched.iter().map(|(n, h, y)| json!([n, h, y])).collect::<Vec<_>>(),
    })
}

#[derive(Clone, Debug)]
enum HistResult {
    Done(Value),
    /// the worker process died while running this scenario
    Crashed { status: String, stderr_tail: String },
    /// harness-side: watchdog, spawn failure, protocol error
    Harness(String),
}

struct Chunk {
    class: String,
    idx: Vec<usize>,
}

/// After this many stuck (watchdog-killed) workers in one class the rest of that class is not run any more
/// (recorded as inconclusive). Keeps the run bounded when memory corruption makes workers hang.
const MAX_STUCK_PER_CLASS: u32 = 2;

fn class_of(sc: &Value) -> String {
    match Params::from_args(&json_args(sc)) {
        Ok((p, _)) => p.class(),
        Err(_) => "bad".into(),
    }
}

/// Run all hist scenarios through a pool of worker subprocesses; result i belongs to scenario i.
fn run_hist(scenarios: &[Value]) -> Vec<HistResult> {
    let n = scenarios.len();
    let results: Arc<Mutex<Vec<Option<HistResult>>>> = Arc::new(Mutex::new(vec![None; n]));
    // homogeneous chunks (one class each)
    let mut by_class: std::collections::BTreeMap<String, Vec<usize>> = Default::default();
    for (i, sc) in scenarios.iter().enumerate() {
        by_class.entry(class_of(sc)).or_default().push(i);
    }
    let workers = std::thread::available_parallelism().map(|x| x.get()).unwrap_or(8).clamp(2, 14);
    let mut queue = VecDeque::new();
    for (class, idxs) in by_class {
        let per = (idxs.len() / (workers * 2)).clamp(1, 400);
        for c in idxs.chunks(per) {
            queue.push_back(Chunk { class: class.clone(), idx: c.to_vec() });
        }
    }
    let stuck: Arc<Mutex<std::collections::BTreeMap<String, u32>>> = Default::default();
    let queue = Arc::new(Mutex::new(queue));
    let scen: Arc<Vec<Value>> = Arc::new(scenarios.to_vec());
    let mut ths = vec![];
    for _ in 0..workers {
        let (queue, results, scen, stuck) = (queue.clone(), results.clone(), scen.clone(), stuck.clone());
        ths.push(std::thread::spawn(move || {
            loop {
                let Some(chunk) = queue.lock().unwrap_or_else(|e| e.into_inner()).pop_front() else {
                    break;
                };
                let n_stuck = stuck.lock().unwrap_or_else(|e| e.into_inner()).get(&chunk.class).copied().unwrap_or(0);
                if n_stuck >= MAX_STUCK_PER_CLASS {
                    let mut g = results.lock().unwrap_or_else(|e| e.into_inner());
                    for &i in &chunk.idx {
                        g[i] = Some(HistResult::Harness(format!(
                            "not run: {n_stuck} workers of this class got stuck before (watchdog), class abandoned for this run"
                        )));
                    }
                    continue;
                }
                let lines: Vec<Vec<String>> = chunk.idx.iter().map(|&i| json_args(&scen[i])).collect();
                let (done, rest_from) = run_worker_chunk(&lines);
                if matches!(done.last(), Some(HistResult::Harness(w)) if w.contains("watchdog")) {
                    *stuck.lock().unwrap_or_else(|e| e.into_inner()).entry(chunk.class.clone()).or_insert(0) += 1;
                }
                {
                    let mut g = results.lock().unwrap_or_else(|e| e.into_inner());
                    for (k, r) in done.into_iter().enumerate() {
                        g[chunk.idx[k]] = Some(r);
                    }
                }
                if rest_from < chunk.idx.len() {
                    queue
                        .lock()
                        .unwrap_or_else(|e| e.into_inner())
                        .push_back(Chunk { class: chunk.class.clone(), idx: chunk.idx[rest_from..].to_vec() });
                }
            }
        }));
    }
    for t in ths {
        let _ = t.join();
    }
    let g = results.lock().unwrap_or_else(|e| e.into_inner());
    g.iter()
        .map(|r| r.clone().unwrap_or(HistResult::Harness("scenario was never scheduled".into())))
        .collect()
}

/// A scenario takes milliseconds; a worker silent for this long is stuck (seen only as an aftermath of memory
/// corruption in multi-producer scenarios on the unfixed tree). Never a violation by itself.
const WORKER_WATCHDOG_S: u64 = 40;

/// Feed `lines` to one worker. Returns the results of the first k scenarios (k >= 1 unless spawn failed for
/// all) and the index from which the remainder has to be re-run in a fresh worker.
fn run_worker_chunk(lines: &[Vec<String>]) -> (Vec<HistResult>, usize) {
    let exe = match std::env::current_exe() {
        Ok(e) => e,
        Err(e) => return (lines.iter().map(|_| HistResult::Harness(format!("current_exe: {e}"))).collect(), lines.len()),
    };
    let child = Command::new(exe)
        .args(["C20", "--worker"])
        .stdin(Stdio::piped())
        .stdout(Stdio::piped())
        .stderr(Stdio::piped())
        .env_remove("RUST_BACKTRACE")
        .spawn();
    let mut child = match child {
        Ok(c) => c,
        Err(e) => return (lines.iter().map(|_| HistResult::Harness(format!("spawn worker: {e}"))).collect(), lines.len()),
    };
    let mut stdin = child.stdin.take();
    let input: String = lines
        .iter()
        .map(|a| serde_json::to_string(a).unwrap_or_else(|_| "[]".into()) + "\n")
        .collect();
    let feeder = std::thread::spawn(move || {
        if let Some(mut s) = stdin.take() {
            let _ = s.write_all(input.as_bytes());
        }
    });
    let stderr = child.stderr.take();
    let err_thread = std::thread::spawn(move || {
        let mut buf = Vec::new();
        if let Some(mut e) = stderr {
            let mut tmp = [0u8; 4096];
            while let Ok(k) = e.read(&mut tmp) {
                if k == 0 {
                    break;
                }
                buf.extend_from_slice(&tmp[..k]);
                if buf.len() > 16384 {
                    let cut = buf.len() - 8192;
                    buf.drain(..cut);
                }
            }
        }
        String::from_utf8_lossy(&buf).to_string()
    });
    let (tx, rx) = mpsc::channel::<String>();
    let stdout = child.stdout.take();
    let out_thread = std::thread::spawn(move || {
        if let Some(o) = stdout {
            for l in BufReader::new(o).lines().map_while(Result::ok) {
                if tx.send(l).is_err() {
                    break;
                }
            }
        }
    });
    let mut done: Vec<HistResult> = vec![];
    let mut in_progress: Option<usize> = None;
    let mut watchdog_fired = false;
    loop {
        match rx.recv_timeout(Duration::from_secs(WORKER_WATCHDOG_S)) {
            Ok(l) => {
                if let Some(i) = l.strip_prefix("BEGIN ") {
                    in_progress = i.trim().parse().ok();
                } else if let Some(rest) = l.strip_prefix("END ") {
                    let mut it = rest.splitn(2, ' ');
                    let _i = it.next();
                    let v: Value = it.next().and_then(|s| serde_json::from_str(s).ok()).unwrap_or(Value::Null);
                    done.push(if v.is_null() {
                        HistResult::Harness("unparsable END line".into())
                    } else {
                        HistResult::Done(v)
                    });
                    in_progress = None;
                }
            }
            Err(mpsc::RecvTimeoutError::Timeout) => {
                watchdog_fired = true;
                let _ = child.kill();
                break;
            }
            Err(mpsc::RecvTimeoutError::Disconnected) => break,
        }
    }
    let status = child.wait();
    let _ = feeder.join();
    let _ = out_thread.join();
    let tail = err_thread.join().unwrap_or_default();
    if done.len() < lines.len() {
        // the worker stopped early: blame the scenario in progress
        let status_s = match &status {
            Ok(s) => {
                use std::os::unix::process::ExitStatusExt;
                match (s.code(), s.signal()) {
                    (Some(c), _) => format!("exit code {c}"),
                    (None, Some(sig)) => format!("signal {sig}"),
                    _ => "unknown".into(),
                }
            }
            Err(e) => format!("wait failed: {e}"),
        };
        let r = if watchdog_fired {
            HistResult::Harness(format!("worker produced no output for {WORKER_WATCHDOG_S} s (watchdog) - killed"))
        } else if status_s == "exit code 97" || in_progress.is_none() {
            HistResult::Harness(format!("worker ended early outside a scenario ({status_s}): {}", tail_str(&tail, 300)))
        } else {
            HistResult::Crashed { status: status_s, stderr_tail: tail_str(&tail, 1500) }
        };
        done.push(r);
    }
    let k = done.len();
    (done, k)
}

fn tail_str(s: &str, n: usize) -> String {
    let t = s.trim_end();
    if t.len() <= n {
        t.to_string()
    } else {
        let mut start = t.len() - n;
        while !t.is_char_boundary(start) {
            start += 1;
        }
        format!("..{}", &t[start..])
    }
}

fn fold_hist(report: &mut Report, sc: &Value, r: HistResult) {
    let class = class_of(sc);
    report.count("hist_scenarios", 1);
    report.count(&format!("hist_class:{class}"), 1);
    match r {
        HistResult::Harness(why) => {
            report.count(&format!("hist_inconclusive:{class}"), 1);
            report.record(sc, None, Verdict::Inconclusive(format!("hist harness [{class}]: {why}")));
        }
        HistResult::Crashed { status, stderr_tail } => {
            report.count("hist_worker_crashes", 1);
            report.record(
                sc,
                Some(hash_value(sc)),
                Verdict::violated(
                    format!("hist:crash:{class}"),
                    format!("the process died ({status}) while running this history: memory error inside the queue"),
                    json!({"status": status, "stderr_tail": stderr_tail}),
                ),
            );
        }
        HistResult::Done(v) => {
            if let Some(e) = v.get("harness_error").and_then(|x| x.as_str()) {
                report.record(sc, None, Verdict::Inconclusive(format!("hist harness: {e}")));
                return;
            }
            let g = |k: &str| v[k].as_u64().unwrap_or(0);
            for k in ["received", "pendings", "wakes", "push_ok", "push_wouldblock", "push_closed", "attempted", "lost"] {
                report.count(&format!("hist_{k}"), g(k));
            }
            if v["eos"].as_bool() == Some(true) {
                report.count("hist_end_of_stream_seen", 1);
            }
            if v["stop_called"].as_bool() == Some(true) {
                report.count("hist_stop_called", 1);
            }
            if g("lost") > 0 {
                report.count("hist_scenarios_with_overflow_or_stop_loss", 1);
            }
            if g("pendings") > 0 {
                report.count("hist_scenarios_where_recv_parked", 1);
            }
            if let Some(a) = v["sched"].as_array() {
                for e in a {
                    let name = e[0].as_str().unwrap_or("?");
                    report.count(&format!("hist_sched_point_passed:{name}"), e[1].as_u64().unwrap_or(0));
                    report.count(&format!("hist_sched_point_yielded:{name}"), e[2].as_u64().unwrap_or(0));
                }
            }
            let a = json_args(sc);
            for kv in &a {
                if ["queue=", "producers=", "mix=", "stop=", "shared="].iter().any(|p| kv.starts_with(p)) {
                    let kv = if kv.starts_with("stop=") { kv.split(':').next().unwrap_or(kv).to_string() } else { kv.clone() };
                    report.seen("hist_dimensions", kv);
                }
                if kv.starts_with("cap=") {
                    report.seen("hist_capacities", kv.clone());
                }
            }
            let nontrivial = g("received") >= 1 && (g("pendings") >= 1 || g("lost") >= 1);
            let h = if nontrivial { Some(hash_value(sc)) } else { None };
            if report.samples.len() < 3 && nontrivial {
                report.sample(json!({"scenario": sc, "observed": v}));
            }
            let viols: Vec<(String, String)> = v["violations"]
                .as_array()
                .map(|a| {
                    a.iter()
                        .map(|x| (x["key"].as_str().unwrap_or("?").to_string(), x["what"].as_str().unwrap_or("").to_string()))
                        .collect()
                })
                .unwrap_or_default();
            if !viols.is_empty() {
                let mut it = viols.into_iter();
                let (k0, w0) = it.next().unwrap_or_default();
                for (k, w) in it {
                    report.violation(sc, &k, &w, json!({"observed": v}));
                }
                report.record(sc, h.or(Some(hash_value(sc))), Verdict::violated(k0, w0, json!({"observed": v})));
            } else if let Some(why) = v["inconclusive"].as_str() {
                report.record(sc, h, Verdict::Inconclusive(format!("hist: {why}")));
            } else {
                report.record(sc, h, Verdict::Held);
            }
        }
    }
}

// =====================================================================================================
// sanitizer monitors (Miri, TSan)
// =====================================================================================================

#[derive(Clone, Debug)]
struct SanEnv {
    /// harness/miri
    pkg: PathBuf,
    /// <target>/miri and <target>/tsan
    target: PathBuf,
    /// absolute path of the rustrtc checkout the package depends on (for in-repo frame detection)
    repo: String,
}

impl SanEnv {
    fn discover() -> SanEnv {
        let manifest = PathBuf::from(env!("CARGO_MANIFEST_DIR"));
        let pkg = std::env::var("RTCMON_MIRI_DIR").map(PathBuf::from).unwrap_or_else(|_| manifest.join("miri"));
        let target = manifest.parent().map(|p| p.join("target")).unwrap_or_else(|| PathBuf::from("/verif/target"));
        let mut repo = "/repo".to_string();
        if let Ok(s) = std::fs::read_to_string(pkg.join("Cargo.toml")) {
            for l in s.lines() {
                if l.trim_start().starts_with("rustrtc") {
                    if let Some(i) = l.find("path") {
                        let rest = &l[i..];
                        let mut q = rest.split('"');
                        let _ = q.next();
                        if let Some(p) = q.next() {
                            repo = p.trim_end_matches('/').to_string();
                        }
                    }
                }
            }
        }
        SanEnv { pkg, target, repo }
    }
}

/// Generic little pool: run `f` over `items` with `par` threads, keep order.
fn run_pool<F>(items: Vec<Value>, par: usize, f: F) -> Vec<(Value, SanResult)>
where
    F: Fn(&Value) -> SanResult + Send + Sync + 'static,
{
    let n = items.len();
    let items = Arc::new(items);
    let next = Arc::new(Mutex::new(0usize));
    let out: Arc<Mutex<Vec<Option<SanResult>>>> = Arc::new(Mutex::new((0..n).map(|_| None).collect()));
    let f = Arc::new(f);
    let mut ths = vec![];
    for _ in 0..par.min(n.max(1)) {
        let (items, next, out, f) = (items.clone(), next.clone(), out.clone(), f.clone());
        ths.push(std::thread::spawn(move || {
            loop {
                let i = {
                    let mut g = next.lock().unwrap_or_else(|e| e.into_inner());
                    let i = *g;
                    *g += 1;
                    i
                };
                if i >= items.len() {
                    break;
                }
                let r = f(&items[i]);
                out.lock().unwrap_or_else(|e| e.into_inner())[i] = Some(r);
            }
        }));
    }
    for t in ths {
        let _ = t.join();
    }
    let mut g = out.lock().unwrap_or_else(|e| e.into_inner());
    items
        .iter()
        .cloned()
        .zip(g.drain(..).map(|r| r.unwrap_or_else(|| SanResult::inconclusive("driver thread died"))))
        .collect()
}

#[derive(Clone, Debug, Default)]
struct SanResult {
    /// (key, what, witness)
    violations: Vec<(String, String, Value)>,
    inconclusive: Option<String>,
    /// seeds (Miri) or repetitions (TSan) that reached a verdict
    runs: u64,
    failing_runs: u64,
    received: u64,
    pendings: u64,
    lost: u64,
    wall_s: f64,
}

impl SanResult {
    fn inconclusive(s: &str) -> SanResult {
        SanResult { inconclusive: Some(s.to_string()), ..Default::default() }
    }
}

fn miri_prog(p: &Params, rate: &str, reps: u64, seeds: (u64, u64)) -> Value {
    json!({"monitor": "miri", "args": p.to_args(), "reps": reps, "preemption_rate": rate, "seeds": [seeds.0, seeds.1]})
}

/// The Miri programs (<= 12 operations per thread). `reps` scenarios (program seeds s, s+1, ..) run inside
/// one interpreter start, because start-up dominates the cost of these tiny programs.
/// The first ones are fixed shapes aimed at the three windows that matter (two pushes overlapping; last source
/// dropped between the consumer's checks and its registration as a waiter; push+close between the consumer's
/// pop and its closed-check). Measured on the unchanged tree: lost wake-up and eos-before-drain each in
/// ~10 % of the seeds of programs 1-3, the data race in > 50 % of the seeds of every multi-producer program.
fn miri_programs(args: &Args) -> Vec<Value> {
    let hi = match args.opt("--miri-seeds").and_then(|s| s.parse::<u64>().ok()) {
        Some(n) => n,
        None => args.tier.pick(16, 96),
    };
    let off = (args.seed.wrapping_sub(1)) * 10_000; // other --seed => other Miri schedules
    let s = |n: u64| (off, off + n);
    let base = Params { payload: 12, seed: args.seed * 1000, ..Params::default() };
    let mut v = vec![];
    // 1 producer, tiny
    v.push(miri_prog(&Params { cap: 1, ops: 2, mix: 2, sched: 2, ..base.clone() }, "0.005", 3, s(hi * 2 + 16)));
    v.push(miri_prog(&Params { cap: 1, ops: 2, mix: 1, pace: 4, sched: 2, ..base.clone() }, "0.005", 3, s(hi * 2)));
    v.push(miri_prog(&Params { cap: 2, ops: 2, mix: 1, sched: 3, ..base.clone() }, "0.005", 3, s(hi * 2)));
    v.push(miri_prog(&Params { cap: 2, ops: 6, mix: 7, pace: 3, sched: 3, stop: Stop::Producer(3), ..base.clone() }, "0.05", 2, s(hi)));
    v.push(miri_prog(&Params { cap: 2, ops: 3, mix: 3, sched: 2, stop: Stop::Producer(3), ..base.clone() }, "0.01", 3, s(hi)));
    // several producers
    v.push(miri_prog(&Params { producers: 2, shared: true, cap: 2, ops: 4, mix: 1, sched: 3, ..base.clone() }, "0.01", 2, s(hi)));
    v.push(miri_prog(&Params { producers: 2, shared: false, cap: 4, ops: 4, mix: 7, pace: 1, churn: true, ..base.clone() }, "0.03", 2, s(hi)));
    v.push(miri_prog(&Params { producers: 3, shared: true, cap: 1, ops: 3, mix: 3, pace: 1, sched: 2, stop: Stop::Consumer(2), ..base.clone() }, "0.05", 2, s(hi)));
    v.push(miri_prog(&Params { producers: 4, shared: false, cap: 3, ops: 3, mix: 5, video: true, hold: true, sched: 5, ..base.clone() }, "0.02", 1, s(hi)));
    // pipeline channel and the bare ring
    v.push(miri_prog(&Params { queue: Queue::Chan, cap: 2, ops: 3, mix: 3, sched: 2, ..base.clone() }, "0.01", 3, s(hi)));
    v.push(miri_prog(&Params { queue: Queue::Ring, cap: 2, ops: 10, sched: 3, ..base.clone() }, "0.05", 2, s(hi)));
    if args.tier == Tier::Thorough {
        let mut r = Rng::new(args.seed).fork(0x3141);
        for _ in 0..18 {
            let mut p = gen_params(&mut r, Tier::Quick);
            p.ops = r.range(1, if p.mix & 4 != 0 { 4 } else { 10 }) as usize; // <= 12 operations per thread
            p.cap = p.cap.min(8);
            p.payload = p.payload.min(16);
            p.sanitize();
            let rate = *r.pick(&["0", "0.005", "0.01", "0.02", "0.05", "0.1"]);
            v.push(miri_prog(&p, rate, 2, s(hi)));
        }
    }
    v
}

fn run_miri(env: &SanEnv, sc: &Value) -> SanResult {
    let t0 = Instant::now();
    let a = json_args(sc);
    let lo = sc["seeds"][0].as_u64().unwrap_or(0);
    let hi = sc["seeds"][1].as_u64().unwrap_or(lo + 1);
    let rate = sc["preemption_rate"].as_str().unwrap_or("0.01");
    let flags = format!(
        "-Zmiri-disable-isolation -Zmiri-permissive-provenance -Zmiri-many-seeds={lo}..{hi} -Zmiri-many-seeds-keep-going -Zmiri-preemption-rate={rate}"
    );
    let mut cmd = Command::new("cargo");
    cmd.current_dir(&env.pkg)
        .args(["+nightly", "miri", "run", "--offline", "--quiet", "--target-dir"])
        .arg(env.target.join("miri"))
        .arg("--")
        .args(&a)
        .arg(format!("reps={}", sc["reps"].as_u64().unwrap_or(1)))
        .env("MIRIFLAGS", flags)
        .env("CARGO_NET_OFFLINE", "true")
        .env_remove("RUSTFLAGS")
        .env_remove("RUST_BACKTRACE");
    let (code, out, err) = match run_cmd(cmd, Duration::from_secs(1500)) {
        Ok(x) => x,
        Err(e) => return SanResult::inconclusive(&format!("miri could not be run: {e}")),
    };
    let mut r = parse_program_stdout(&out);
    r.wall_s = t0.elapsed().as_secs_f64();
    let blocks = error_blocks(&err);
    let mut unknown: Option<String> = None;
    for b in &blocks {
        let head = b.lines().next().unwrap_or("").to_string();
        if head.starts_with("error: aborting due to") || head.contains("some seeds failed") {
            continue;
        }
        let kind = if head.contains("Data race") || head.contains("data race") {
            Some("data-race")
        } else if head.contains("deadlock") {
            Some("deadlock")
        } else if head.contains("memory leaked") {
            Some("leak")
        } else if head.contains("Undefined Behavior") {
            Some("ub")
        } else if head.contains("abnormal termination") || head.contains("the program aborted") {
            Some("abort")
        } else {
            None
        };
        match kind {
            Some(k) => {
                let (file, func) = first_repo_frame_miri(b, &env.repo).unwrap_or(("no-repo-frame".into(), "?".into()));
                let key = format!("miri:{k}:{file}:{func}");
                r.failing_runs += 1;
                if !r.violations.iter().any(|v| v.0 == key) {
                    r.violations.push((
                        key,
                        format!("Miri: {}", head.trim_start_matches("error: ")),
                        json!({"report": tail_head(b, 2500), "failing_seed": failing_seed_after(&err, b)}),
                    ));
                }
            }
            None => {
                if unknown.is_none() {
                    unknown = Some(head);
                }
            }
        }
    }
    if r.violations.is_empty() {
        if let Some(u) = unknown {
            r.inconclusive = Some(format!("miri failed without a recognised finding: {u}"));
        } else if code == Some(WATCHDOG) {
            r.inconclusive = Some("miri still running after 1500 s (watchdog) - killed".into());
        } else if code != Some(0) {
            r.inconclusive = Some(format!("miri exit {:?} without a recognised finding: {}", code, tail_str(&err, 400)));
        } else if r.runs == 0 {
            r.inconclusive = Some("miri printed no RESULT line".into());
        }
    }
    r
}

fn tail_head(s: &str, n: usize) -> String {
    if s.len() <= n {
        s.to_string()
    } else {
        let mut e = n;
        while !s.is_char_boundary(e) {
            e -= 1;
        }
        format!("{}..", &s[..e])
    }
}

/// stdout protocol of trackprog (see miri/src/main.rs)
fn parse_program_stdout(out: &str) -> SanResult {
    let mut r = SanResult::default();
    for l in out.lines() {
        if let Some(rest) = l.strip_prefix("RESULT ") {
            r.runs += 1;
            for kv in rest.split_whitespace() {
                if let Some((k, v)) = kv.split_once('=') {
                    let v: u64 = v.parse().unwrap_or(0);
                    match k {
                        "received" => r.received += v,
                        "pendings" => r.pendings += v,
                        "lost" => r.lost += v,
                        _ => {}
                    }
                }
            }
        } else if let Some(rest) = l.strip_prefix("ORACLE-VIOLATION key=") {
            let (key, what) = rest.split_once(" what=").unwrap_or((rest, ""));
            r.failing_runs += 1;
            if !r.violations.iter().any(|v| v.0 == key) {
                r.violations.push((key.to_string(), what.to_string(), json!({"line": l})));
            }
        } else if let Some(rest) = l.strip_prefix("ORACLE-INCONCLUSIVE ") {
            if r.inconclusive.is_none() {
                r.inconclusive = Some(rest.to_string());
            }
        }
    }
    r
}

/// split rustc-style diagnostics into blocks starting at a line that begins with "error"
fn error_blocks(err: &str) -> Vec<String> {
    let mut blocks = vec![];
    let mut cur: Option<String> = None;
    for l in err.lines() {
        if l.starts_with("error:") || l.starts_with("error[") {
            if let Some(c) = cur.take() {
                blocks.push(c);
            }
            cur = Some(String::new());
        } else if l.starts_with("Trying seed:") || l.starts_with("FAILING SEED:") {
            if let Some(c) = cur.take() {
                blocks.push(c);
            }
            continue;
        }
        if let Some(c) = cur.as_mut() {
            c.push_str(l);
            c.push('\n');
        }
    }
    if let Some(c) = cur {
        blocks.push(c);
    }
    blocks
}

fn failing_seed_after(err: &str, block: &str) -> Option<u64> {
    let first = block.lines().next()?;
    let pos = err.find(first)?;
    let rest = &err[pos..];
    let i = rest.find("FAILING SEED:")?;
    rest[i + 13..].lines().next()?.trim().parse().ok()
}

/// Miri backtrace frames look like
///   `            1: rustrtc::media::SpscRing::<rustrtc::media::MediaSample>::push`
///   `                at /repo/src/media/spsc.rs:97:13: 97:51`
/// or (older format) `= note: inside `f` at path:l:c`. Returns (path relative to the repo, bare fn name).
fn first_repo_frame_miri(block: &str, repo: &str) -> Option<(String, String)> {
    let prefix = format!("{repo}/");
    let lines: Vec<&str> = block.lines().collect();
    for (i, l) in lines.iter().enumerate() {
        let t = l.trim_start();
        if let Some(rest) = t.strip_prefix("at ") {
            if let Some(p) = rest.strip_prefix(&prefix) {
                let file = p.split(':').next().unwrap_or(p).to_string();
                let func = if i > 0 {
                    let f = lines[i - 1].trim_start();
                    let f = f.split_once(": ").map(|x| x.1).unwrap_or(f);
                    bare_fn(f)
                } else {
                    "?".into()
                };
                return Some((file, func));
            }
        }
        if let Some(j) = t.find("inside `") {
            let rest = &t[j + 8..];
            if let Some((f, at)) = rest.split_once("` at ") {
                if let Some(p) = at.strip_prefix(&prefix) {
                    return Some((p.split(':').next().unwrap_or(p).to_string(), bare_fn(f)));
                }
            }
        }
    }
    None
}

/// `a::b::C::<X<Y>>::push::{closure#0}` -> `push`
fn bare_fn(f: &str) -> String {
    // drop generic argument lists
    let mut depth = 0i32;
    let mut s = String::new();
    for c in f.chars() {
        match c {
            '<' => depth += 1,
            '>' => depth -= 1,
            _ if depth == 0 => s.push(c),
            _ => {}
        }
    }
    let segs: Vec<&str> = s.split("::").filter(|x| !x.is_empty() && !x.starts_with('{') && !x.starts_with(" as ")).collect();
    let last = segs.last().copied().unwrap_or("?");
    // strip legacy hash suffix h0123456789abcdef
    if last.len() == 17 && last.starts_with('h') && last[1..].chars().all(|c| c.is_ascii_hexdigit()) && segs.len() >= 2 {
        return segs[segs.len() - 2].trim().to_string();
    }
    last.trim().to_string()
}

/// pseudo exit code: killed by the harness watchdog
const WATCHDOG: i32 = -777;

fn run_cmd(mut cmd: Command, limit: Duration) -> Result<(Option<i32>, String, String), String> {
    cmd.stdin(Stdio::null()).stdout(Stdio::piped()).stderr(Stdio::piped());
    let mut child = cmd.spawn().map_err(|e| format!("spawn: {e}"))?;
    let mut so = child.stdout.take();
    let mut se = child.stderr.take();
    let t1 = std::thread::spawn(move || {
        let mut s = Vec::new();
        if let Some(o) = so.as_mut() {
            let _ = o.read_to_end(&mut s);
        }
        String::from_utf8_lossy(&s).to_string()
    });
    let t2 = std::thread::spawn(move || {
        let mut s = Vec::new();
        if let Some(o) = se.as_mut() {
            let _ = o.read_to_end(&mut s);
        }
        String::from_utf8_lossy(&s).to_string()
    });
    let t0 = Instant::now();
    let status = loop {
        match child.try_wait() {
            Ok(Some(s)) => break s,
            Ok(None) => {
                if t0.elapsed() > limit {
                    // keep what the program printed so far: findings already reported stay findings
                    let _ = child.kill();
                    let _ = child.wait();
                    let out = t1.join().unwrap_or_default();
                    let err = t2.join().unwrap_or_default();
                    return Ok((Some(WATCHDOG), out, err));
                }
                std::thread::sleep(Duration::from_millis(50));
            }
            Err(e) => return Err(format!("wait: {e}")),
        }
    };
    let out = t1.join().unwrap_or_default();
    let err = t2.join().unwrap_or_default();
    use std::os::unix::process::ExitStatusExt;
    let code = status.code().or_else(|| status.signal().map(|s| 1000 + s));
    Ok((code, out, err))
}

// ---------------------------------------------------------------- TSan

fn build_tsan(env: &SanEnv) -> Result<PathBuf, String> {
    let dir = env.target.join("tsan");
    let mut cmd = Command::new("cargo");
    cmd.current_dir(&env.pkg)
        .args(["+nightly", "build", "--offline", "--release", "-Zbuild-std", "--target", "x86_64-unknown-linux-gnu", "--target-dir"])
        .arg(&dir)
        .env("RUSTFLAGS", "-Zsanitizer=thread --cfg rustrtc_verif")
        .env("CARGO_NET_OFFLINE", "true");
    let (code, _out, err) = run_cmd(cmd, Duration::from_secs(1200))?;
    if code != Some(0) {
        return Err(format!("exit {:?}: {}", code, tail_str(&err, 600)));
    }
    let bin = dir.join("x86_64-unknown-linux-gnu/release/trackprog");
    if bin.exists() { Ok(bin) } else { Err(format!("{} missing after build", bin.display())) }
}

fn tsan_programs(args: &Args) -> Vec<Value> {
    let s = args.seed * 100_000;
    let mk = |p: Params, reps: u64| json!({"monitor": "tsan", "args": p.to_args(), "reps": reps});
    let base = Params { payload: 64, seed: s, ..Params::default() };
    vec![
        mk(Params { producers: 1, cap: 4, ops: 20_000, mix: 7, ..base.clone() }, 40),
        mk(Params { producers: 1, cap: 64, ops: 300, mix: 7, stop: Stop::Producer(150), ..base.clone() }, 2000),
        mk(Params { producers: 1, cap: 2, ops: 3, mix: 1, ..base.clone() }, 20_000),
        mk(Params { producers: 2, cap: 8, ops: 20_000, mix: 7, churn: true, ..base.clone() }, 30),
        mk(Params { producers: 4, cap: 64, ops: 30_000, mix: 7, ..base.clone() }, 16),
        mk(Params { producers: 4, cap: 2, ops: 20, mix: 7, ..base.clone() }, 8000),
        mk(Params { producers: 3, cap: 16, ops: 5_000, mix: 3, video: true, stop: Stop::Consumer(100), ..base.clone() }, 80),
        mk(Params { queue: Queue::Chan, cap: 8, ops: 30_000, mix: 3, ..base.clone() }, 30),
        mk(Params { queue: Queue::Ring, cap: 8, ops: 50_000, ..base.clone() }, 30),
    ]
}

fn run_tsan(env: &SanEnv, bin: &Path, sc: &Value) -> SanResult {
    let t0 = Instant::now();
    let mut a = json_args(sc);
    a.push(format!("reps={}", sc["reps"].as_u64().unwrap_or(1)));
    a.push("vary=1".into());
    let mut cmd = Command::new(bin);
    cmd.args(&a).env("TSAN_OPTIONS", "exitcode=66 halt_on_error=0 second_deadlock_stack=1 report_signal_unsafe=0");
    let (code, out, err) = match run_cmd(cmd, Duration::from_secs(420)) {
        Ok(x) => x,
        Err(e) => return SanResult::inconclusive(&format!("tsan binary could not be run: {e}")),
    };
    let mut r = parse_program_stdout(&out);
    r.wall_s = t0.elapsed().as_secs_f64();
    // reports are separated by lines of '='
    for rep in err.split("==================") {
        if !rep.contains("WARNING: ThreadSanitizer:") {
            continue;
        }
        let head = rep.lines().find(|l| l.contains("WARNING: ThreadSanitizer:")).unwrap_or("").trim().to_string();
        let kind = if head.contains("data race") {
            "data-race"
        } else if head.contains("heap-use-after-free") {
            "use-after-free"
        } else if head.contains("lock-order-inversion") {
            // parking_lot/tokio internals; C20 says nothing about lock order
            continue;
        } else {
            "other"
        };
        let (file, func) = first_repo_frame_tsan(rep, &env.repo).unwrap_or(("no-repo-frame".into(), "?".into()));
        if file == "no-repo-frame" && kind != "data-race" {
            continue;
        }
        // no frame inside rustrtc (both stacks end in the payload's own Drop etc.): name the scenario class instead
        let func = if file == "no-repo-frame" {
            Params::from_args(&json_args(sc)).map(|x| x.0.class()).unwrap_or_default()
        } else {
            func
        };
        let key = format!("tsan:{kind}:{file}:{func}");
        r.failing_runs += 1;
        if !r.violations.iter().any(|v| v.0 == key) {
            r.violations.push((key, head.clone(), json!({"report": tail_head(rep.trim(), 2500)})));
        }
    }
    if r.violations.is_empty() {
        match code {
            Some(0) => {}
            Some(3) => {} // oracle violations already collected from stdout
            Some(c) if c >= 1000 || c == 134 => {
                // killed by a signal: a memory error, observed by the process dying
                let a0 = Params::from_args(&json_args(sc)).map(|x| x.0.class()).unwrap_or_default();
                r.violations.push((
                    format!("tsan:crash:{a0}"),
                    format!("the stress process died (status {c}): memory error inside the queue"),
                    json!({"stderr_tail": tail_str(&err, 1500)}),
                ));
            }
            Some(WATCHDOG) => r.inconclusive = Some("tsan program still running after 420 s (watchdog) - killed".into()),
            other => r.inconclusive = Some(format!("tsan program exit {:?}: {}", other, tail_str(&err, 300))),
        }
    }
    r
}

/// TSan frames: `    #1 rustrtc::media::spsc::SpscRing$LT$T$GT$::push::h0123 /repo/src/media/spsc.rs:97:13 (trackprog+0x..)`
fn first_repo_frame_tsan(rep: &str, repo: &str) -> Option<(String, String)> {
    let prefix = format!("{repo}/");
    for l in rep.lines() {
        let t = l.trim_start();
        if !t.starts_with('#') {
            continue;
        }
        if let Some(i) = t.find(&prefix) {
            let p = &t[i + prefix.len()..];
            let file = p.split(|c: char| c == ':' || c == ' ').next().unwrap_or(p).to_string();
            // symbol = everything between "#N " and the path (it may contain spaces: `<A as B>::f`)
            let sym = t[..i].split_once(' ').map(|x| x.1).unwrap_or("?").trim();
            let sym = sym.replace("$LT$", "<").replace("$GT$", ">").replace("$u20$", " ").replace("..", "::");
            return Some((file, bare_fn(&sym)));
        }
    }
    None
}

fn fold_san(report: &mut Report, name: &str, sc: &Value, r: SanResult) {
    report.count(&format!("{name}_programs"), 1);
    report.count(&format!("{name}_runs_with_result"), r.runs);
    report.count(&format!("{name}_failing_runs"), r.failing_runs);
    report.count(&format!("{name}_samples_received"), r.received);
    report.count(&format!("{name}_recv_parked"), r.pendings);
    report.count(&format!("{name}_samples_lost_to_overflow_or_stop"), r.lost);
    report.seen(&format!("{name}_program"), format!("{} [{:.0}s]", json_args(sc).join(" "), r.wall_s));
    let h = if r.runs > 0 || !r.violations.is_empty() { Some(hash_value(sc)) } else { None };
    if !r.violations.is_empty() {
        let mut it = r.violations.into_iter();
        let (k0, w0, wit0) = it.next().unwrap_or_default();
        for (k, w, wit) in it {
            report.violation(sc, &k, &w, wit);
        }
        report.record(sc, h, Verdict::violated(k0, w0, wit0));
    } else if let Some(why) = r.inconclusive {
        report.count(&format!("{name}_inconclusive"), 1);
        report.record(sc, None, Verdict::Inconclusive(format!("{name}: {why}")));
    } else {
        report.record(sc, h, Verdict::Held);
    }
}

// =====================================================================================================
// replay
// =====================================================================================================

fn replay(report: &mut Report, env: &SanEnv, sc: &Value) {
    match sc["monitor"].as_str().unwrap_or("hist") {
        "miri" => {
            let r = run_miri(env, sc);
            fold_san(report, "miri", sc, r);
        }
        "tsan" => match build_tsan(env) {
            Ok(bin) => {
                let r = run_tsan(env, &bin, sc);
                fold_san(report, "tsan", sc, r);
            }
            Err(e) => report.record(sc, None, Verdict::Inconclusive(format!("tsan build failed: {e}"))),
        },
        _ => {
            // the native scheduler is not seedable: up to 5 x 200 attempts, stop at the first violation
            let mut last = None;
            'outer: for _ in 0..5 {
                let batch: Vec<Value> = (0..200).map(|_| sc.clone()).collect();
                for r in run_hist(&batch) {
                    let bad = match &r {
                        HistResult::Crashed { .. } => true,
                        HistResult::Done(v) => v["violations"].as_array().map(|a| !a.is_empty()).unwrap_or(false),
                        HistResult::Harness(_) => false,
                    };
                    last = Some(r);
                    if bad {
                        break 'outer;
                    }
                }
            }
            if let Some(r) = last {
                fold_hist(report, sc, r);
            }
        }
    }
}
