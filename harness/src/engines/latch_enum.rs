//! C18 – RTP latching locks onto a legitimate source and then stays put (engine `latch_enum`).
//!
//! The real `IceConn::receive` (trait `PacketReceiver`) is driven directly with crafted RTP /
//! RTCP / noise datagrams from fake source addresses, interleaved with `reset_latch`, the
//! signalling retarget and the selected-pair update (hook H3). After every step the monitor
//! reads the three public observables `remote_addr`, `remote_rtcp_addr`, `rtp_latched` and an
//! independent oracle (own candidate bookkeeping, written from the doc comment at the top of
//! src/transports/ice/conn.rs and from the property statement – not from the code) decides.
//!
//! Oracle clauses (each one is a clause of the statement; where the statement or the doc
//! comment is silent or ambiguous the oracle accepts every reading):
//!  * legitimacy – the RTP address changes only while processing an RTP packet that carries the
//!    expected SSRC (any SSRC when none is known), and then only to an address from which such
//!    a packet arrived since the last reset; or through retarget / pair update (to the given
//!    address); a plain reset may keep the address or fall back to the signalled one.
//!  * commit – with N = max(1, probation) the latch flag must be up once N matching packets were
//!    seen since the last reset; when the flag goes up, the address must be one selected by a
//!    documented rule applicable on that packet: marker rule first (lowest first_seq among
//!    marker candidates; "first_seq" read as first-arrived or lowest-seen: both accepted);
//!    otherwise the union of the consecutive-run winners (run >= 2, total >= 3; any of them)
//!    and, if total >= N, the majority winners (highest count, ties by lowest first_seq, further
//!    ties: any). The doc comment orders run before majority, the code majority before run: both
//!    accepted, the discrepancy is only counted (`obs_rule_order_*`). probation 0 = documented
//!    legacy mode: first matching packet commits its own source. The flag must not go up on a
//!    packet that is not matching RTP. A packet on which the marker or the run rule selects a source must
//!    commit (documented: rules evaluated on every new RTP packet; never seen otherwise on the unchanged tree
//!    in 2 x 10^9 enumerated sequences) - `commit.late:*`.
//!  * stickiness – from the commit on, no packet of any kind from any address and no pair update
//!    changes the RTP address until a reset / retarget symbol (which must clear the flag).
//!  * RTCP – an RTCP packet never changes the RTP address; RTCP packets change the RTCP address
//!    at most once per reset epoch and never when none was configured.
//!
//! Coverage: exhaustive enumeration of all symbol sequences up to a length bound over the
//! 21-symbol alphabet for every configuration (probation 0..8 x SSRC known/unknown x RTCP
//! address configured/not x 3 address/sequence-number layouts), plus seeded random concrete
//! sequences (length bound+1..=24) with a richer packet distribution. Only the enumerated part
//! is exhaustive. Thorough: bound 5 for all of these, bound 6 for probation {0,2,6} with an RTCP
//! address configured.
//!
//! Finding on the unchanged tree (key `commit.wrong_winner:applicable=majority:got=current_source`):
//! on the commit packet `receive` first lets `remote_addr` follow the packet's source and then
//! writes the winner only `if win_addr != current_remote`, where `current_remote` is the
//! snapshot taken on entry. When the majority winner is the address that was current on entry
//! and the last packet came from elsewhere, nothing is written back and the latch commits to
//! the source of the last (possibly stray) packet. Minimal witness: probation 2, RTP from A
//! (seq 100) then from B (seq 200): tie, lowest first_seq = A must win, latched address is B.
//!
//! Observation outside the quantifier (initial address unset = 0.0.0.0:0, as created by
//! `ensure_direct_rtp_media_transport` without a remote): the first datagram of any kind (RTCP,
//! wrong SSRC) sets the RTP destination. Probed with all strings of length 3, reported as
//! `obs_unset_initial:*` counters and notes only.

use crate::common::*;
use bytes::Bytes;
use rustrtc::transports::PacketReceiver;
use rustrtc::transports::ice::IceSocketWrapper;
use rustrtc::transports::ice::conn::IceConn;
use serde_json::{Value, json};
use std::collections::{BTreeMap, BTreeSet, HashSet};
use std::future::Future;
use std::net::SocketAddr;
use std::sync::Arc;
use std::sync::atomic::{AtomicUsize, Ordering};
use std::task::{Context, Poll};
use tokio::sync::watch;

const THREADS: usize = 16;
const EXPECTED_SSRC: u32 = 0x2EE9_B5D1;
const OTHER_SSRC: u32 = 0x0BAD_5EED;

// ------------------------------------------------------------------ addresses

const A: u8 = 0;
const B: u8 = 1;
const C: u8 = 2;
const S: u8 = 3;
const T: u8 = 4;
const P: u8 = 5;
const R: u8 = 6;
const D: u8 = 7;
const U: u8 = 8; // 0.0.0.0:0 = "unset"; only used by the observation-only probe
const N_ADDR: usize = 9;
const NONE_ADDR: u8 = 254;
const FOREIGN: u8 = 255;
const ADDR_NAMES: [&str; N_ADDR] = ["A", "B", "C", "S", "T", "P", "R", "D", "U"];

fn addr_table() -> [SocketAddr; N_ADDR] {
    let p = |s: &str| s.parse::<SocketAddr>().expect("static address");
    [
        p("10.0.0.1:5000"),      // A
        p("10.0.0.1:5002"),      // B same host, other port (NAT port glitch)
        p("203.0.113.7:5000"),   // C other host, same port as A
        p("10.0.0.1:4000"),      // S signalled
        p("10.0.0.9:4000"),      // T retarget target
        p("192.0.2.33:6000"),    // P selected-pair target
        p("10.0.0.1:4001"),      // R signalled RTCP (S+1)
        p("[2001:db8::1]:5000"), // D
        p("0.0.0.0:0"),          // U
    ]
}

fn addr_name(i: u8) -> String {
    match i {
        NONE_ADDR => "none".into(),
        FOREIGN => "foreign".into(),
        i if (i as usize) < N_ADDR => ADDR_NAMES[i as usize].into(),
        _ => "?".into(),
    }
}

fn addr_idx(tab: &[SocketAddr; N_ADDR], a: &SocketAddr) -> u8 {
    for (i, x) in tab.iter().enumerate() {
        if x == a {
            return i as u8;
        }
    }
    FOREIGN
}

// ------------------------------------------------------------------ scenario

#[derive(Clone, Copy, Debug, PartialEq, PartialOrd)]
struct Cfg {
    // first field: enumerated scenarios (false) sort before sampled ones when the reported
    // witness is chosen, so the witness does not depend on the seed when both exist
    with_receiver: bool,
    probation: u8,
    expected: u32, // 0 = unknown
    rtcp: u8,      // NONE_ADDR or index
    init: u8,
}

#[derive(Clone, Copy, Debug, PartialEq, PartialOrd)]
enum Step {
    Rtp { src: u8, ssrc: u32, seq: u16, marker: bool, pt: u8, len: u8 },
    Rtcp { src: u8, pt: u8, len: u8 },
    Noise { src: u8, first: u8, len: u8 },
    Reset,
    Retarget { to: u8 },
    PairUpdate { to: u8 },
}

impl Step {
    fn to_json(&self) -> Value {
        match *self {
            Step::Rtp { src, ssrc, seq, marker, pt, len } => {
                json!({"k":"rtp","src":addr_name(src),"ssrc":ssrc,"seq":seq,"m":marker,"pt":pt,"len":len})
            }
            Step::Rtcp { src, pt, len } => json!({"k":"rtcp","src":addr_name(src),"pt":pt,"len":len}),
            Step::Noise { src, first, len } => {
                json!({"k":"noise","src":addr_name(src),"first":first,"len":len})
            }
            Step::Reset => json!({"k":"reset"}),
            Step::Retarget { to } => json!({"k":"retarget","to":addr_name(to)}),
            Step::PairUpdate { to } => json!({"k":"pair","to":addr_name(to)}),
        }
    }
    fn from_json(v: &Value) -> Option<Step> {
        let a = |k: &str| name_addr(v.get(k)?.as_str()?);
        let n = |k: &str| v.get(k).and_then(|x| x.as_u64());
        Some(match v.get("k")?.as_str()? {
            "rtp" => Step::Rtp {
                src: a("src")?,
                ssrc: n("ssrc")? as u32,
                seq: n("seq")? as u16,
                marker: v.get("m")?.as_bool()?,
                pt: n("pt")? as u8,
                len: n("len")? as u8,
            },
            "rtcp" => Step::Rtcp { src: a("src")?, pt: n("pt")? as u8, len: n("len")? as u8 },
            "noise" => Step::Noise { src: a("src")?, first: n("first")? as u8, len: n("len")? as u8 },
            "reset" => Step::Reset,
            "retarget" => Step::Retarget { to: a("to")? },
            "pair" => Step::PairUpdate { to: a("to")? },
            _ => return None,
        })
    }
}

fn name_addr(s: &str) -> Option<u8> {
    if s == "none" {
        return Some(NONE_ADDR);
    }
    ADDR_NAMES.iter().position(|n| *n == s).map(|i| i as u8)
}

fn cfg_json(c: &Cfg) -> Value {
    json!({"probation": c.probation, "expected_ssrc": c.expected, "rtcp": addr_name(c.rtcp),
           "init": addr_name(c.init), "with_receiver": c.with_receiver})
}

fn cfg_from_json(v: &Value) -> Option<Cfg> {
    Some(Cfg {
        probation: v.get("probation")?.as_u64()? as u8,
        expected: v.get("expected_ssrc")?.as_u64()? as u32,
        rtcp: name_addr(v.get("rtcp")?.as_str()?)?,
        init: name_addr(v.get("init")?.as_str()?)?,
        with_receiver: v.get("with_receiver").and_then(|x| x.as_bool()).unwrap_or(false),
    })
}

fn scenario_json(c: &Cfg, steps: &[Step]) -> Value {
    let tab = addr_table();
    let addrs: BTreeMap<String, String> =
        (0..N_ADDR).map(|i| (ADDR_NAMES[i].to_string(), tab[i].to_string())).collect();
    json!({"engine":"latch_enum","cfg":cfg_json(c),
           "steps": steps.iter().map(|s| s.to_json()).collect::<Vec<_>>(),
           "addresses": addrs})
}

// ------------------------------------------------------------------ packets

fn build_packet(st: &Step, out: &mut Vec<u8>) {
    out.clear();
    match *st {
        Step::Rtp { ssrc, seq, marker, pt, len, .. } => {
            let ts = (seq as u32).wrapping_mul(160);
            out.push(0x80);
            out.push((pt & 0x7f) | if marker { 0x80 } else { 0 });
            out.extend_from_slice(&seq.to_be_bytes());
            out.extend_from_slice(&ts.to_be_bytes());
            out.extend_from_slice(&ssrc.to_be_bytes());
            while out.len() < len as usize {
                out.push(0xd5);
            }
            out.truncate((len as usize).max(1));
        }
        Step::Rtcp { pt, len, .. } => {
            let len = (len as usize).max(2);
            out.push(0x80);
            out.push(pt);
            let words = (len / 4).saturating_sub(1) as u16;
            out.extend_from_slice(&words.to_be_bytes());
            out.extend_from_slice(&EXPECTED_SSRC.to_be_bytes());
            while out.len() < len {
                out.push(0);
            }
            out.truncate(len);
        }
        Step::Noise { first, len, .. } => {
            out.push(first);
            while out.len() < (len as usize).max(1) {
                out.push(0xa5);
            }
        }
        _ => {}
    }
}

/// Is this step an RTP packet "carrying the expected SSRC (when one is known)"? A datagram
/// too short to hold an RTP fixed header cannot carry an SSRC at all.
fn is_matching(st: &Step, expected: u32) -> bool {
    match *st {
        Step::Rtp { ssrc, len, .. } => len >= 12 && (expected == 0 || ssrc == expected),
        _ => false,
    }
}

// ------------------------------------------------------------------ rig

#[derive(Clone, Copy, Debug, PartialEq)]
struct Obs {
    rtp: u8,
    rtcp: u8,
    latched: bool,
}

struct NoopRx;
#[async_trait::async_trait]
impl PacketReceiver for NoopRx {
    async fn receive(&self, _p: Bytes, _a: SocketAddr, _b: &mut Vec<u8>) {}
}

struct Rig {
    conn: Arc<IceConn>,
    _rx_keep: Option<Arc<dyn PacketReceiver>>,
}

struct Worker {
    tab: [SocketAddr; N_ADDR],
    _tx: watch::Sender<Option<IceSocketWrapper>>,
    rx: watch::Receiver<Option<IceSocketWrapper>>,
    pkt: Vec<u8>,
    mbuf: Vec<u8>,
}

impl Worker {
    fn new() -> Worker {
        let (tx, rx) = watch::channel(None);
        Worker { tab: addr_table(), _tx: tx, rx, pkt: Vec::with_capacity(64), mbuf: Vec::new() }
    }

    /// Same call order as PeerConnection::ensure_direct_rtp_media_transport.
    fn rig(&self, c: &Cfg) -> Rig {
        let conn = IceConn::new(self.rx.clone(), self.tab[c.init as usize], None);
        conn.set_probation_max_packets(if c.probation > 0 { Some(c.probation) } else { None });
        conn.enable_latch_on_rtp();
        if c.rtcp != NONE_ADDR {
            conn.set_remote_rtcp_addr(Some(self.tab[c.rtcp as usize]));
        }
        if c.expected != 0 {
            conn.set_expected_ssrc(c.expected);
        }
        let keep = if c.with_receiver {
            let r: Arc<dyn PacketReceiver> = Arc::new(NoopRx);
            conn.set_rtp_receiver(r.clone());
            Some(r)
        } else {
            None
        };
        Rig { conn, _rx_keep: keep }
    }

    fn observe(&self, rig: &Rig) -> Obs {
        let rtp = *rig.conn.remote_addr.read();
        let rtcp = *rig.conn.remote_rtcp_addr.read();
        Obs {
            rtp: addr_idx(&self.tab, &rtp),
            rtcp: match rtcp {
                None => NONE_ADDR,
                Some(a) => addr_idx(&self.tab, &a),
            },
            latched: rig.conn.rtp_latched.load(Ordering::Relaxed),
        }
    }

    /// false = the receive future did not complete (harness problem, inconclusive)
    fn apply(&mut self, rig: &Rig, st: &Step) -> bool {
        match *st {
            Step::Rtp { src, .. } | Step::Rtcp { src, .. } | Step::Noise { src, .. } => {
                build_packet(st, &mut self.pkt);
                let bytes = Bytes::copy_from_slice(&self.pkt);
                let fut = rig.conn.receive(bytes, self.tab[src as usize], &mut self.mbuf);
                drive(fut).is_some()
            }
            Step::Reset => {
                rig.conn.reset_latch();
                true
            }
            Step::Retarget { to } => {
                rig.conn.verif_signaling_retarget(self.tab[to as usize]);
                true
            }
            Step::PairUpdate { to } => {
                rig.conn.verif_selected_pair_update(self.tab[to as usize]);
                true
            }
        }
    }
}

fn drive<F: Future>(f: F) -> Option<F::Output> {
    let mut f = std::pin::pin!(f);
    let mut cx = Context::from_waker(futures::task::noop_waker_ref());
    for _ in 0..256 {
        if let Poll::Ready(v) = f.as_mut().poll(&mut cx) {
            return Some(v);
        }
        std::thread::yield_now();
    }
    None
}

// ------------------------------------------------------------------ oracle

#[derive(Clone, Copy, Default)]
struct Cand {
    addr: u8,
    n: u32,
    first_seq: u16,
    min_seq: u16,
    last_seq: u16,
    run: u32,
    marker: bool,
}

#[derive(Clone, Debug, PartialEq)]
enum Viol {
    StickyMoved(&'static str),
    LegitMoved(&'static str),
    LegitNotCandidate,
    CommitNoRule,
    CommitWrongWinner(&'static str, &'static str),
    CommitDeadline(&'static str),
    CommitLate(&'static str),
    CommitOnNonMatching(&'static str),
    RtcpSetUnconfigured,
    RtcpRelatched,
    ResetMovedRtp,
    ResetNotCleared(&'static str),
    RetargetMovedElsewhere,
    PairMovedElsewhere,
    Panic(String),
}

impl Viol {
    fn key(&self) -> String {
        match self {
            Viol::StickyMoved(k) => format!("sticky.moved:by={k}"),
            Viol::LegitMoved(k) => format!("legit.moved:by={k}"),
            Viol::LegitNotCandidate => "legit.not_candidate".into(),
            Viol::CommitNoRule => "commit.no_rule".into(),
            Viol::CommitWrongWinner(r, g) => format!("commit.wrong_winner:applicable={r}:got={g}"),
            Viol::CommitDeadline(m) => format!("commit.deadline:{m}"),
            Viol::CommitLate(r) => format!("commit.late:applicable={r}"),
            Viol::CommitOnNonMatching(k) => format!("commit.on_nonmatching:by={k}"),
            Viol::RtcpSetUnconfigured => "rtcp.set_unconfigured".into(),
            Viol::RtcpRelatched => "rtcp.relatched".into(),
            Viol::ResetMovedRtp => "reset.moved_rtp".into(),
            Viol::ResetNotCleared(k) => format!("reset.not_cleared:by={k}"),
            Viol::RetargetMovedElsewhere => "retarget.moved_elsewhere".into(),
            Viol::PairMovedElsewhere => "pair.moved_elsewhere".into(),
            Viol::Panic(loc) => format!("panic:{loc}"),
        }
    }
    fn what(&self) -> String {
        match self {
            Viol::StickyMoved(k) => format!("RTP destination changed after the latch was committed (step kind {k}) without reset/retarget"),
            Viol::LegitMoved(k) => format!("RTP destination changed while processing a {k} step that is not RTP with the expected SSRC"),
            Viol::LegitNotCandidate => "RTP destination moved to an address from which no matching RTP was received since the last reset".into(),
            Viol::CommitNoRule => "latch committed on a packet where no documented rule (marker / consecutive run / majority at the limit) applies".into(),
            Viol::CommitWrongWinner(r, g) => format!("latch committed to an address ({g}) that the applicable documented rule(s) [{r}] do not select"),
            Viol::CommitDeadline(m) => format!("latch not committed although the probation limit of matching packets was reached ({m})"),
            Viol::CommitLate(r) => format!("latch not committed on the packet on which the documented {r} rule selects a source (the rules are documented as evaluated on every new RTP packet, the marker candidate as selected immediately)"),
            Viol::CommitOnNonMatching(k) => format!("latch flag went up while processing a {k} step (not RTP with the expected SSRC)"),
            Viol::RtcpSetUnconfigured => "RTCP packet set an RTCP destination although none was configured".into(),
            Viol::RtcpRelatched => "RTCP packets changed the RTCP destination more than once in one reset epoch".into(),
            Viol::ResetMovedRtp => "reset_latch moved the RTP destination to an address that is neither the old nor the signalled one".into(),
            Viol::ResetNotCleared(k) => format!("{k} left the latch flag up"),
            Viol::RetargetMovedElsewhere => "signalling retarget moved the RTP destination to an address other than the given one".into(),
            Viol::PairMovedElsewhere => "selected-pair update moved the RTP destination to an address other than the given one".into(),
            Viol::Panic(loc) => format!("panic inside the latch path at {loc}"),
        }
    }
}

// counters (fixed indices: the hot loop must not hash strings)
const C_STEP_RTP_MATCH: usize = 0;
const C_STEP_RTP_OTHER: usize = 1;
const C_STEP_RTCP: usize = 2;
const C_STEP_NOISE: usize = 3;
const C_STEP_RESET: usize = 4;
const C_STEP_RETARGET: usize = 5;
const C_STEP_PAIR: usize = 6;
const C_COMMITS: usize = 7;
const C_TENTATIVE_MOVES: usize = 8;
const C_COMMIT_TO_EARLIER: usize = 9;
const C_STICKY_CHECKS: usize = 10;
const C_STICKY_PAIR_CHECKS: usize = 11;
const C_RTCP_SETS: usize = 12;
const C_RTCP_REFUSED_SECOND: usize = 13;
const C_OBS_ORDER_MAJ_BEFORE_RUN: usize = 14;
const C_OBS_ORDER_RUN_BEFORE_MAJ: usize = 15;
const C_OBS_LATE_COMMIT: usize = 16;
const C_OBS_RTCP_BY_NON_RTCP: usize = 17;
const C_OBS_RTCP_SET_TO_NON_SOURCE: usize = 18;
const C_OBS_RETARGET_NOOP: usize = 19;
const C_PAIR_MOVES_UNLATCHED: usize = 20;
const C_RELATCH_AFTER_RESET: usize = 21;
const C_STEP_RTP_SHORT: usize = 22;
const NC: usize = 23;
const C_NAMES: [&str; NC] = [
    "step_rtp_matching",
    "step_rtp_other_ssrc",
    "step_rtcp",
    "step_noise",
    "step_reset",
    "step_retarget",
    "step_pair_update",
    "commits_observed",
    "tentative_moves_during_probation",
    "commit_to_earlier_source",
    "sticky_checks_packets_after_commit",
    "sticky_checks_pair_update_after_commit",
    "rtcp_destination_learned",
    "rtcp_second_learning_refused",
    "obs_rule_order_majority_before_run",
    "obs_rule_order_run_before_majority",
    "obs_rule_applicable_but_commit_later",
    "obs_rtcp_addr_changed_by_non_rtcp_step",
    "obs_rtcp_addr_set_to_non_source",
    "obs_retarget_left_address",
    "pair_update_moved_unlatched_address",
    "relatch_after_reset",
    "step_rtp_short",
];

// commit rule labels
const RULES: [&str; 12] = [
    "legacy-immediate",
    "marker:winner=current",
    "marker:winner=earlier",
    "run:winner=current",
    "run:winner=earlier",
    "majority:winner=current",
    "majority:winner=earlier",
    "run+majority-agree:winner=current",
    "run+majority-agree:winner=earlier",
    "run|majority-differ:code-chose-majority",
    "run|majority-differ:code-chose-run",
    "run|majority-differ:chosen-in-both",
];

struct Stats {
    c: [u64; NC],
    rules: [u64; RULES.len()],
    triples: HashSet<(u8, u8, bool)>,
    runs: u64,
    nontrivial: u64,
    inconclusive: u64,
    /// per violation key: the smallest witness (fewest steps, then lowest configuration / steps)
    viols: BTreeMap<String, (Cfg, Vec<Step>, usize, Viol)>,
    viol_counts: BTreeMap<String, u64>,
}

impl Stats {
    fn new() -> Stats {
        Stats {
            c: [0; NC],
            rules: [0; RULES.len()],
            triples: HashSet::new(),
            runs: 0,
            nontrivial: 0,
            inconclusive: 0,
            viols: BTreeMap::new(),
            viol_counts: BTreeMap::new(),
        }
    }
    fn merge(&mut self, o: Stats) {
        for i in 0..NC {
            self.c[i] += o.c[i];
        }
        for i in 0..RULES.len() {
            self.rules[i] += o.rules[i];
        }
        self.triples.extend(o.triples);
        self.runs += o.runs;
        self.nontrivial += o.nontrivial;
        self.inconclusive += o.inconclusive;
        for (k, n) in o.viol_counts {
            *self.viol_counts.entry(k).or_insert(0) += n;
        }
        for (k, v) in o.viols {
            let better = match self.viols.get(&k) {
                None => true,
                Some(old) => witness_less(&v.0, &v.1, &old.0, &old.1),
            };
            if better {
                self.viols.insert(k, v);
            }
        }
    }
}

struct Oracle {
    p: u8,
    expected: u32,
    last_signalled: u8,
    committed: bool,
    cands: [Cand; N_ADDR],
    ncand: usize,
    total: u32,
    rtcp_changes: u32,
    epochs: u32,
    prev: Obs,
    commits: u32,
}

fn step_kind(st: &Step, expected: u32) -> &'static str {
    match st {
        Step::Rtp { len, .. } if *len < 12 => "rtp_short",
        Step::Rtp { .. } => {
            if is_matching(st, expected) {
                "rtp_match"
            } else {
                "rtp_other_ssrc"
            }
        }
        Step::Rtcp { .. } => "rtcp",
        Step::Noise { .. } => "noise",
        Step::Reset => "reset",
        Step::Retarget { .. } => "retarget",
        Step::PairUpdate { .. } => "pair_update",
    }
}

impl Oracle {
    fn new(c: &Cfg, initial: Obs) -> Oracle {
        Oracle {
            p: c.probation,
            expected: c.expected,
            last_signalled: c.init,
            committed: false,
            cands: [Cand::default(); N_ADDR],
            ncand: 0,
            total: 0,
            rtcp_changes: 0,
            epochs: 0,
            prev: initial,
            commits: 0,
        }
    }

    fn new_epoch(&mut self) {
        self.committed = false;
        self.ncand = 0;
        self.total = 0;
        self.rtcp_changes = 0;
        self.epochs += 1;
    }

    fn cand_mask(&self) -> u16 {
        let mut m = 0u16;
        for c in &self.cands[..self.ncand] {
            m |= 1 << c.addr;
        }
        m
    }

    /// (marker winners, run winners, majority winners [only if the limit is reached]) as
    /// address bit masks, from the oracle's own bookkeeping.
    fn rule_sets(&self) -> (u16, u16, u16) {
        let cs = &self.cands[..self.ncand];
        let mut marker = 0u16;
        if cs.iter().any(|c| c.marker) {
            let lo_first = cs.iter().filter(|c| c.marker).map(|c| c.first_seq).min().unwrap_or(0);
            let lo_min = cs.iter().filter(|c| c.marker).map(|c| c.min_seq).min().unwrap_or(0);
            for c in cs.iter().filter(|c| c.marker) {
                if c.first_seq == lo_first || c.min_seq == lo_min {
                    marker |= 1 << c.addr;
                }
            }
        }
        let mut run = 0u16;
        if self.total >= 3 {
            for c in cs.iter().filter(|c| c.run >= 2) {
                run |= 1 << c.addr;
            }
        }
        let mut maj = 0u16;
        if self.total >= self.p.max(1) as u32 {
            let top = cs.iter().map(|c| c.n).max().unwrap_or(0);
            let lo_first = cs.iter().filter(|c| c.n == top).map(|c| c.first_seq).min().unwrap_or(0);
            let lo_min = cs.iter().filter(|c| c.n == top).map(|c| c.min_seq).min().unwrap_or(0);
            for c in cs.iter().filter(|c| c.n == top) {
                if c.first_seq == lo_first || c.min_seq == lo_min {
                    maj |= 1 << c.addr;
                }
            }
        }
        (marker, run, maj)
    }

    fn check(&mut self, st: &Step, post: Obs, s: &mut Stats) -> Option<Viol> {
        let prev = self.prev;
        self.prev = post;
        s.triples.insert((post.rtp, post.rtcp, post.latched));
        let kind = step_kind(st, self.expected);
        let moved = post.rtp != prev.rtp;
        match *st {
            Step::Rtp { src, seq, marker, .. } if is_matching(st, self.expected) => {
                s.c[C_STEP_RTP_MATCH] += 1;
                if self.committed {
                    s.c[C_STICKY_CHECKS] += 1;
                    if moved {
                        return Some(Viol::StickyMoved(kind));
                    }
                } else {
                    // own bookkeeping, as the doc comment describes the candidate fields
                    self.total += 1;
                    let cs = &mut self.cands;
                    match cs[..self.ncand].iter().position(|c| c.addr == src) {
                        Some(i) => {
                            let c = &mut cs[i];
                            if seq == c.last_seq.wrapping_add(1) {
                                c.run += 1;
                            } else {
                                c.run = 0;
                            }
                            c.last_seq = seq;
                            c.n += 1;
                            c.marker |= marker;
                            c.min_seq = c.min_seq.min(seq);
                        }
                        None => {
                            if self.ncand < N_ADDR {
                                cs[self.ncand] = Cand {
                                    addr: src,
                                    n: 1,
                                    first_seq: seq,
                                    min_seq: seq,
                                    last_seq: seq,
                                    run: 0,
                                    marker,
                                };
                                self.ncand += 1;
                            }
                        }
                    }
                    if moved {
                        if post.rtp >= 16 || self.cand_mask() & (1 << post.rtp) == 0 {
                            return Some(Viol::LegitNotCandidate);
                        }
                        if !post.latched {
                            s.c[C_TENTATIVE_MOVES] += 1;
                        }
                    }
                    let (mk, run, maj) = self.rule_sets();
                    if post.latched {
                        let got: u16 = if post.rtp < 16 { 1 << post.rtp } else { 0 };
                        let cur = post.rtp == src;
                        // what the committed address is, for the violation key
                        let g: &'static str = if cur {
                            "current_source"
                        } else if got & self.cand_mask() != 0 {
                            "earlier_candidate"
                        } else {
                            "non_candidate"
                        };
                        let rule: usize;
                        if self.p == 0 {
                            if !cur {
                                return Some(Viol::CommitWrongWinner("legacy", g));
                            }
                            rule = 0;
                        } else if mk != 0 {
                            if got & mk == 0 {
                                return Some(Viol::CommitWrongWinner("marker", g));
                            }
                            rule = if cur { 1 } else { 2 };
                        } else if run == 0 && maj == 0 {
                            return Some(Viol::CommitNoRule);
                        } else if got & (run | maj) == 0 {
                            return Some(Viol::CommitWrongWinner(
                                match (run != 0, maj != 0) {
                                    (true, true) => "run+majority",
                                    (true, false) => "run",
                                    _ => "majority",
                                },
                                g,
                            ));
                        } else if run != 0 && maj != 0 {
                            if run == maj {
                                rule = if cur { 7 } else { 8 };
                            } else if got & maj != 0 && got & run == 0 {
                                s.c[C_OBS_ORDER_MAJ_BEFORE_RUN] += 1;
                                rule = 9;
                            } else if got & run != 0 && got & maj == 0 {
                                s.c[C_OBS_ORDER_RUN_BEFORE_MAJ] += 1;
                                rule = 10;
                            } else {
                                rule = 11;
                            }
                        } else if run != 0 {
                            rule = if cur { 3 } else { 4 };
                        } else {
                            rule = if cur { 5 } else { 6 };
                        }
                        s.rules[rule] += 1;
                        s.c[C_COMMITS] += 1;
                        if !cur {
                            s.c[C_COMMIT_TO_EARLIER] += 1;
                        }
                        if self.epochs > 0 && self.commits > 0 {
                            s.c[C_RELATCH_AFTER_RESET] += 1;
                        }
                        self.commits += 1;
                        self.committed = true;
                    } else {
                        if self.total >= self.p.max(1) as u32 {
                            return Some(Viol::CommitDeadline(if self.p == 0 {
                                "legacy"
                            } else {
                                "probation"
                            }));
                        }
                        // The doc comment: "Decision rules (evaluated in order on every new RTP
                        // packet)", rule 1 "is selected immediately".  A packet on which the marker
                        // or the run rule selects a source therefore commits; deferring the decision
                        // lets a later run / marker from another address take the destination.
                        if mk != 0 || run != 0 {
                            s.c[C_OBS_LATE_COMMIT] += 1;
                            return Some(Viol::CommitLate(if mk != 0 { "marker" } else { "run" }));
                        }
                    }
                }
            }
            Step::Rtp { .. } | Step::Noise { .. } => {
                match kind {
                    "rtp_short" => s.c[C_STEP_RTP_SHORT] += 1,
                    "noise" => s.c[C_STEP_NOISE] += 1,
                    _ => s.c[C_STEP_RTP_OTHER] += 1,
                }
                if self.committed {
                    s.c[C_STICKY_CHECKS] += 1;
                }
                if moved {
                    return Some(if self.committed {
                        Viol::StickyMoved(kind)
                    } else {
                        Viol::LegitMoved(kind)
                    });
                }
                if !self.committed && post.latched {
                    return Some(Viol::CommitOnNonMatching(kind));
                }
            }
            Step::Rtcp { src, .. } => {
                s.c[C_STEP_RTCP] += 1;
                if self.committed {
                    s.c[C_STICKY_CHECKS] += 1;
                }
                if moved {
                    return Some(if self.committed {
                        Viol::StickyMoved(kind)
                    } else {
                        Viol::LegitMoved(kind)
                    });
                }
                if !self.committed && post.latched {
                    return Some(Viol::CommitOnNonMatching(kind));
                }
                if post.rtcp != prev.rtcp {
                    if prev.rtcp == NONE_ADDR {
                        return Some(Viol::RtcpSetUnconfigured);
                    }
                    self.rtcp_changes += 1;
                    if self.rtcp_changes > 1 {
                        return Some(Viol::RtcpRelatched);
                    }
                    s.c[C_RTCP_SETS] += 1;
                    if post.rtcp != src {
                        s.c[C_OBS_RTCP_SET_TO_NON_SOURCE] += 1;
                    }
                } else if self.rtcp_changes >= 1 && prev.rtcp != src {
                    s.c[C_RTCP_REFUSED_SECOND] += 1;
                }
            }
            Step::Reset => {
                s.c[C_STEP_RESET] += 1;
                if moved && post.rtp != self.last_signalled {
                    return Some(Viol::ResetMovedRtp);
                }
                if post.latched {
                    return Some(Viol::ResetNotCleared("reset"));
                }
                self.new_epoch();
            }
            Step::Retarget { to } => {
                s.c[C_STEP_RETARGET] += 1;
                if moved && post.rtp != to {
                    return Some(Viol::RetargetMovedElsewhere);
                }
                if post.latched {
                    return Some(Viol::ResetNotCleared("retarget"));
                }
                if post.rtp != to {
                    s.c[C_OBS_RETARGET_NOOP] += 1;
                }
                self.last_signalled = to;
                self.new_epoch();
            }
            Step::PairUpdate { to } => {
                s.c[C_STEP_PAIR] += 1;
                if self.committed {
                    s.c[C_STICKY_PAIR_CHECKS] += 1;
                    if moved {
                        return Some(Viol::StickyMoved(kind));
                    }
                } else {
                    if moved && post.rtp != to {
                        return Some(Viol::PairMovedElsewhere);
                    }
                    if moved {
                        s.c[C_PAIR_MOVES_UNLATCHED] += 1;
                    }
                    if post.latched {
                        return Some(Viol::CommitOnNonMatching(kind));
                    }
                }
            }
        }
        if !matches!(st, Step::Rtcp { .. }) && post.rtcp != prev.rtcp {
            s.c[C_OBS_RTCP_BY_NON_RTCP] += 1;
        }
        None
    }
}

// ------------------------------------------------------------------ one run

enum RunOut {
    Held { nontrivial: bool },
    Violated { at: usize, v: Viol, witness: Value },
    Inconclusive(String),
}

fn obs_json(o: &Obs) -> Value {
    json!({"rtp": addr_name(o.rtp), "rtcp": addr_name(o.rtcp), "latched": o.latched})
}

/// Run one scenario against a fresh IceConn. `trace`: collect the per-step observations.
fn run_seq(w: &mut Worker, c: &Cfg, steps: &[Step], s: &mut Stats, mut trace: Option<&mut Vec<Value>>) -> RunOut {
    let want_witness = trace.is_some();
    let res = std::panic::catch_unwind(std::panic::AssertUnwindSafe(|| {
        let rig = w.rig(c);
        let init = w.observe(&rig);
        s.triples.insert((init.rtp, init.rtcp, init.latched));
        let mut or = Oracle::new(c, init);
        if let Some(t) = trace.as_deref_mut() {
            t.push(json!({"initial": obs_json(&init)}));
        }
        for (i, st) in steps.iter().enumerate() {
            if !w.apply(&rig, st) {
                return RunOut::Inconclusive("IceConn::receive future did not complete".into());
            }
            let post = w.observe(&rig);
            if let Some(t) = trace.as_deref_mut() {
                t.push(json!({"step": st.to_json(), "after": obs_json(&post)}));
            }
            let pre = or.prev;
            if let Some(v) = or.check(st, post, s) {
                if !want_witness {
                    return RunOut::Violated { at: i, v, witness: Value::Null };
                }
                let witness = json!({
                    "step_index": i, "step": st.to_json(),
                    "before": obs_json(&pre), "after": obs_json(&post),
                    "oracle": {
                        "committed": or.committed, "matching_since_reset": or.total,
                        "candidates": or.cands[..or.ncand].iter().map(|c| json!({
                            "addr": addr_name(c.addr), "count": c.n, "first_seq": c.first_seq,
                            "min_seq": c.min_seq, "last_seq": c.last_seq, "run": c.run, "marker": c.marker
                        })).collect::<Vec<_>>(),
                    }
                });
                return RunOut::Violated { at: i, v, witness };
            }
        }
        RunOut::Held { nontrivial: or.commits > 0 }
    }));
    match res {
        Ok(r) => r,
        Err(_) => {
            let loc = take_panics()
                .last()
                .map(|p| format!("{}:{}", norm_location(&p.location), p.message.chars().take(60).collect::<String>()))
                .unwrap_or_else(|| "unknown".into());
            RunOut::Violated { at: steps.len(), v: Viol::Panic(loc), witness: json!({"panic": true}) }
        }
    }
}

/// deterministic choice of the reported witness: fewest steps, then lowest (cfg, steps)
fn witness_less(c: &Cfg, st: &[Step], oc: &Cfg, ost: &[Step]) -> bool {
    if st.len() != ost.len() {
        return st.len() < ost.len();
    }
    match c.partial_cmp(oc) {
        Some(std::cmp::Ordering::Less) => true,
        Some(std::cmp::Ordering::Greater) => false,
        _ => st.partial_cmp(ost) == Some(std::cmp::Ordering::Less),
    }
}

fn account(s: &mut Stats, c: &Cfg, steps: &[Step], out: RunOut) -> bool {
    s.runs += 1;
    match out {
        RunOut::Held { nontrivial } => {
            if nontrivial {
                s.nontrivial += 1;
            }
            nontrivial
        }
        RunOut::Inconclusive(_) => {
            s.inconclusive += 1;
            false
        }
        RunOut::Violated { at, v, .. } => {
            let k = v.key();
            *s.viol_counts.entry(k.clone()).or_insert(0) += 1;
            let cut = &steps[..(at + 1).min(steps.len())];
            let better = match s.viols.get(&k) {
                None => true,
                Some(old) => witness_less(c, cut, &old.0, &old.1),
            };
            if better {
                s.viols.insert(k, (*c, cut.to_vec(), at, v));
            }
            true
        }
    }
}

// ------------------------------------------------------------------ enumerated alphabet

const NSYM: usize = 21;

#[derive(Clone, Copy)]
struct Layout {
    id: u8,
    init: u8,
    base: [u16; 3],
    other: u16, // wrapping delta of the "other" sequence step
    retarget: u8,
    pair: u8,
    rtcp: u8,
    other_ssrc: u32,
}

const LAYOUTS: [Layout; 3] = [
    // all helper addresses distinct from the sources; ascending bases; forward jump
    Layout { id: 0, init: S, base: [100, 200, 300], other: 3, retarget: T, pair: P, rtcp: R, other_ssrc: OTHER_SSRC },
    // the signalled address is source A itself; pair update points at source B, retarget at
    // source C, the configured RTCP address is source B; descending bases; backward jump
    Layout { id: 1, init: A, base: [300, 200, 100], other: 0xFFFE, retarget: C, pair: B, rtcp: B, other_ssrc: 0xF00D_CAFE },
    // sequence numbers wrap through 65535 -> 0; retarget back to the signalled address;
    // pair update points at source A
    Layout { id: 2, init: S, base: [65534, 65535, 0], other: 2, retarget: S, pair: A, rtcp: R, other_ssrc: EXPECTED_SSRC + 1 },
];

/// Turn a symbol string into concrete steps. Symbol s: src = s / 6 (A,B,C), k = s % 6:
/// 0 RTP exp-SSRC m=0 step+1 | 1 RTP exp-SSRC m=0 step other | 2 m=1 step+1 | 3 m=1 other |
/// 4 RTP other SSRC (own sequence space, marker set) | 5 RTCP SR; 18 reset, 19 retarget, 20 pair.
fn concretise(l: &Layout, syms: &[u8], out: &mut Vec<Step>) {
    out.clear();
    let mut last: [Option<u16>; 3] = [None; 3];
    let mut other_stream: [u16; 3] = [7, 7, 7];
    for &sy in syms {
        let st = match sy {
            18 => Step::Reset,
            19 => Step::Retarget { to: l.retarget },
            20 => Step::PairUpdate { to: l.pair },
            _ => {
                let src = (sy / 6) as usize;
                let k = sy % 6;
                match k {
                    0..=3 => {
                        let plus1 = k % 2 == 0;
                        let seq = match last[src] {
                            None => {
                                if plus1 {
                                    l.base[src]
                                } else {
                                    l.base[src].wrapping_add(l.other)
                                }
                            }
                            Some(p) => p.wrapping_add(if plus1 { 1 } else { l.other }),
                        };
                        last[src] = Some(seq);
                        Step::Rtp { src: src as u8, ssrc: EXPECTED_SSRC, seq, marker: k >= 2, pt: 96, len: 32 }
                    }
                    4 => {
                        let seq = other_stream[src];
                        other_stream[src] = seq.wrapping_add(1);
                        Step::Rtp { src: src as u8, ssrc: l.other_ssrc, seq, marker: true, pt: 96, len: 32 }
                    }
                    _ => Step::Rtcp { src: src as u8, pt: 200, len: 28 },
                }
            }
        };
        out.push(st);
    }
}

#[derive(Clone, Copy)]
struct EnumJob {
    cfg: Cfg,
    layout: usize,
    len: usize,
    prefix: [u8; 2],
}

fn enum_jobs(
    probations: &[u8],
    len: usize,
    layouts: &[usize],
    rtcp_opts: &[bool],
    init_override: Option<u8>,
) -> Vec<EnumJob> {
    let mut v = vec![];
    for &p in probations {
        for known in [true, false] {
            for &rtcp_cfg in rtcp_opts {
                for &li in layouts {
                    let l = &LAYOUTS[li];
                    let cfg = Cfg {
                        probation: p,
                        expected: if known { EXPECTED_SSRC } else { 0 },
                        rtcp: if rtcp_cfg { l.rtcp } else { NONE_ADDR },
                        init: init_override.unwrap_or(l.init),
                        with_receiver: false,
                    };
                    for a in 0..NSYM as u8 {
                        for b in 0..NSYM as u8 {
                            v.push(EnumJob { cfg, layout: li, len, prefix: [a, b] });
                        }
                    }
                }
            }
        }
    }
    v
}

/// Enumerate all symbol strings of exactly `job.len` symbols starting with the job's prefix.
/// Every proper prefix of a string is checked on the way (the oracle runs after every step),
/// so strings of length exactly L cover all strings of length <= L.
fn run_enum_job(w: &mut Worker, job: &EnumJob, s: &mut Stats) {
    let l = &LAYOUTS[job.layout];
    let n = job.len;
    let mut syms = vec![0u8; n];
    syms[0] = job.prefix[0];
    if n > 1 {
        syms[1] = job.prefix[1];
    }
    let mut steps: Vec<Step> = Vec::with_capacity(n);
    loop {
        concretise(l, &syms, &mut steps);
        let out = run_seq(w, &job.cfg, &steps, s, None);
        account(s, &job.cfg, &steps, out);
        // odometer over positions 2..n
        let mut i = n;
        loop {
            if i <= 2 {
                return;
            }
            i -= 1;
            syms[i] += 1;
            if (syms[i] as usize) < NSYM {
                break;
            }
            syms[i] = 0;
        }
    }
}

fn parallel<J: Sync, F: Fn(&mut Worker, &J, &mut Stats) + Sync>(jobs: &[J], f: F) -> Stats {
    let next = AtomicUsize::new(0);
    let mut total = Stats::new();
    let parts: Vec<Stats> = std::thread::scope(|sc| {
        let hs: Vec<_> = (0..THREADS)
            .map(|_| {
                sc.spawn(|| {
                    let mut w = Worker::new();
                    let mut s = Stats::new();
                    loop {
                        let i = next.fetch_add(1, Ordering::Relaxed);
                        if i >= jobs.len() {
                            break;
                        }
                        f(&mut w, &jobs[i], &mut s);
                    }
                    s
                })
            })
            .collect();
        hs.into_iter().filter_map(|h| h.join().ok()).collect()
    });
    for p in parts {
        total.merge(p);
    }
    total
}

// ------------------------------------------------------------------ random concrete sequences

fn gen_random(rng: &mut Rng, min_len: usize, max_len: usize) -> (Cfg, Vec<Step>) {
    let known = rng.bool();
    let cfg = Cfg {
        probation: rng.below(9) as u8,
        expected: if known { EXPECTED_SSRC } else { 0 },
        rtcp: *rng.pick(&[NONE_ADDR, R, R, B, A, D]),
        init: *rng.pick(&[S, S, A, T, D]),
        with_receiver: true,
    };
    let n = rng.range(min_len as u64, max_len as u64) as usize;
    let global_stream = rng.bool(); // one RTP stream seen from several ports (NAT glitch)
    let marker_pct = *rng.pick(&[0u64, 5, 15, 40]);
    let ctrl_pct = *rng.pick(&[0u64, 5, 15]);
    let srcs = [A, A, A, B, B, C, C, S, D];
    let mut last: [Option<u16>; N_ADDR] = [None; N_ADDR];
    let mut glob: u16 = *rng.pick(&[100u16, 65533, 0, 30000]);
    let mut steps = Vec::with_capacity(n);
    for _ in 0..n {
        let r = rng.below(100);
        if r < ctrl_pct {
            steps.push(match rng.below(3) {
                0 => Step::Reset,
                1 => Step::Retarget { to: *rng.pick(&[T, S, A, C, D]) },
                _ => Step::PairUpdate { to: *rng.pick(&[P, A, B, S, D]) },
            });
            continue;
        }
        let src = *rng.pick(&srcs);
        let r = rng.below(100);
        if r < 14 {
            steps.push(Step::Rtcp {
                src,
                pt: rng.range(200, 211) as u8,
                len: *rng.pick(&[4u8, 8, 28, 32, 2, 3]),
            });
        } else if r < 19 {
            // STUN / DTLS / TURN-channel / >=192 first bytes: everything outside 128..192
            let first = *rng.pick(&[0u8, 1, 20, 22, 23, 63, 64, 79, 127, 192, 200, 255]);
            steps.push(Step::Noise { src, first, len: rng.range(1, 40) as u8 });
        } else {
            let seq = {
                let prev = if global_stream { Some(glob) } else { last[src as usize] };
                let q = rng.below(100);
                match prev {
                    None => *rng.pick(&[100u16, 65534, 65535, 0, 1, 40000]),
                    Some(p) => {
                        if q < 62 {
                            p.wrapping_add(1)
                        } else if q < 72 {
                            p
                        } else if q < 82 {
                            p.wrapping_sub(1)
                        } else if q < 92 {
                            p.wrapping_add(2)
                        } else {
                            rng.u16()
                        }
                    }
                }
            };
            last[src as usize] = Some(seq);
            glob = seq;
            let q = rng.below(100);
            let ssrc = if q < 78 {
                EXPECTED_SSRC
            } else if q < 90 {
                OTHER_SSRC
            } else if q < 93 {
                EXPECTED_SSRC ^ 1 // near miss below
            } else if q < 95 {
                EXPECTED_SSRC.wrapping_add(1) // near miss above
            } else if q < 97 {
                EXPECTED_SSRC.swap_bytes() // right bytes, wrong order
            } else if q < 99 {
                rng.u32() | 0x8000_0000
            } else {
                0
            };
            let len = if rng.chance(4, 100) { rng.range(1, 11) as u8 } else { rng.range(12, 48) as u8 };
            let marker = rng.below(100) < marker_pct;
            // payload types whose second byte would collide with the RTCP range 200..=211
            // (marker + PT 72..83) are reserved by RFC 5761 and never used by RTP senders
            let pt = *rng.pick(&[0u8, 8, 96, 111, 127, 71, 84]);
            steps.push(Step::Rtp { src, ssrc, seq, marker, pt, len });
        }
    }
    (cfg, steps)
}

// ------------------------------------------------------------------ entry

fn record_violations(report: &mut Report, st: &Stats, observe_only: bool) {
    for (c, steps, at, v) in st.viols.values() {
        let scen = scenario_json(c, steps);
        // deterministic re-run of the kept witness with tracing on, to write it out
        let mut w = Worker::new();
        let mut tr = vec![];
        let witness = match run_seq(&mut w, c, steps, &mut Stats::new(), Some(&mut tr)) {
            RunOut::Violated { witness, .. } => witness,
            _ => json!({"note": "violation did not reproduce on the re-run"}),
        };
        if observe_only {
            report.note(format!(
                "OBSERVATION (outside the statement's quantifier: initial remote address unset, 0.0.0.0:0): {} – e.g. cfg={} steps={}",
                v.what(),
                cfg_json(c),
                Value::Array(steps.iter().map(|s| s.to_json()).collect())
            ));
        } else {
            let mut wj = witness.clone();
            if let Some(o) = wj.as_object_mut() {
                o.insert("step_index".into(), json!(at));
                o.insert("trace".into(), json!(tr));
            }
            report.violation(&scen, &v.key(), &v.what(), wj);
        }
    }
    for (k, n) in &st.viol_counts {
        if observe_only {
            report.count(&format!("obs_unset_initial:{k}"), *n);
        } else {
            report.count(&format!("violating_runs:{k}"), *n);
        }
    }
}

fn replay(args: &Args, path: &std::path::Path) -> i32 {
    let Some(sc) = load_replay(path) else {
        eprintln!("cannot load replay {}", path.display());
        return 2;
    };
    let cfg = sc.get("cfg").and_then(cfg_from_json);
    let steps: Option<Vec<Step>> =
        sc.get("steps").and_then(|s| s.as_array()).map(|a| a.iter().filter_map(Step::from_json).collect());
    let (Some(cfg), Some(steps)) = (cfg, steps) else {
        eprintln!("replay file has no cfg/steps");
        return 2;
    };
    let mut report = Report::new(args, "exploration", "replay of one scenario");
    let mut w = Worker::new();
    let mut s = Stats::new();
    let mut trace = vec![];
    let out = run_seq(&mut w, &cfg, &steps, &mut s, Some(&mut trace));
    for t in &trace {
        println!("  {t}");
    }
    match out {
        RunOut::Held { .. } => {
            println!("REPLAY property={} held", args.prop);
            0
        }
        RunOut::Inconclusive(why) => {
            println!("REPLAY property={} inconclusive: {why}", args.prop);
            2
        }
        RunOut::Violated { v, witness, .. } => {
            report.violation(&sc, &v.key(), &v.what(), witness);
            if report.violations.is_empty() { 0 } else { 1 }
        }
    }
}

pub fn run(args: &Args) -> i32 {
    if let Some(p) = &args.replay {
        return replay(args, p);
    }
    let quick = args.tier == Tier::Quick;
    let rule = "Enumerated part (EXHAUSTIVE; the flag `exhaustive` refers to this part only): every string over the \
        21-symbol alphabet {source A,B,C} x {RTP expected-SSRC with marker 0/1 and seq step +1/other, RTP other SSRC, RTCP} + \
        {reset_latch, signalling retarget, selected-pair update} up to the length bound given in `enumeration` \
        (strings of exactly the bound are run, the oracle checks after every step, so every shorter string is covered as a prefix), \
        for every configuration probation x {expected SSRC known, unknown} x {RTCP address configured, not} x 3 address/sequence layouts. \
        Sampled part (NOT exhaustive): seeded random concrete sequences, longer than the bound and <= 24 steps, with random seq/SSRC/length/PT, \
        IPv6 and signalled-address sources, noise datagrams. evaluations = runs of the real IceConn (one fresh IceConn per run). \
        A run is non-trivial when at least one latch commit (rtp_latched false->true) was observed; distinct = distinct (configuration, step sequence): \
        enumerated runs are distinct by construction and counted, sampled runs are de-duplicated by hash.";
    let mut report = Report::new(args, "exploration", rule);
    report.assume("IceConn is driven single-threaded: one receive() at a time, as the single socket read loop of rustrtc does");
    report.assume("initial remote address is set by signalling (non-zero port); the unset-address start is probed separately as an observation");
    report.assume("UDP socket watch channel holds None (no inbound ICE-TCP stream): the passive-TCP re-targeting branch is out of scope");
    report.assume("RTP senders do not use marker+PT combinations whose second byte falls into 200..=211 (RFC 5761), which rustrtc classifies as RTCP");

    // ---- enumerated part
    let all_p: Vec<u8> = (0..=8).collect();
    let all_l = [0usize, 1, 2];
    // (probation settings, length bound, layouts, RTCP-address-configured options)
    let mut plan: Vec<(Vec<u8>, usize, Vec<usize>, Vec<bool>)> = vec![];
    if quick {
        plan.push((all_p.clone(), 4, all_l.to_vec(), vec![true, false]));
    } else {
        plan.push((all_p.clone(), 5, all_l.to_vec(), vec![true, false]));
        // length 6: RTCP address configured only (without one, RTCP symbols are inert for
        // both addresses, which the length-5 pass already covers) – halves the 3.1 G runs
        plan.push((vec![0, 2, 6], 6, all_l.to_vec(), vec![true]));
    }
    if let Some(l) = args.opt("--enum-len").and_then(|s| s.parse::<usize>().ok()) {
        plan = vec![(all_p.clone(), l.clamp(2, 7), all_l.to_vec(), vec![true, false])];
    }
    let mut total = Stats::new();
    let mut enum_desc = vec![];
    let mut bound = 0usize;
    for (ps, len, ls, ro) in &plan {
        let t0 = std::time::Instant::now();
        let jobs = enum_jobs(ps, *len, ls, ro, None);
        let st = parallel(&jobs, |w, j, s| run_enum_job(w, j, s));
        enum_desc.push(json!({"probation": ps, "length_bound": len, "layouts": ls,
            "rtcp_configured": ro,
            "configurations": ps.len() * 2 * ro.len() * ls.len(),
            "runs": st.runs, "nontrivial_runs": st.nontrivial, "wall_s": t0.elapsed().as_secs_f64()}));
        bound = bound.max(*len);
        total.merge(st);
    }
    let enum_runs = total.runs;
    let enum_nontrivial = total.nontrivial;

    // ---- sampled part
    let n_random: u64 = args
        .opt("--random")
        .and_then(|s| s.parse().ok())
        .unwrap_or(if quick { 1_000_000 } else { 8_000_000 });
    let chunk = 5_000u64;
    let chunks: Vec<u64> = (0..n_random.div_ceil(chunk)).collect();
    let root = Rng::new(args.seed);
    let hashes = parking_lot::Mutex::new(HashSet::<u64>::new());
    let min_len = bound + 1;
    let rnd = parallel(&chunks, |w, ci, s| {
        let mut local = Vec::new();
        let lo = ci * chunk;
        let hi = ((ci + 1) * chunk).min(n_random);
        for i in lo..hi {
            let mut rng = root.fork(i + 1);
            let (cfg, steps) = gen_random(&mut rng, min_len, 24);
            let out = run_seq(w, &cfg, &steps, s, None);
            let nontrivial = matches!(out, RunOut::Held { nontrivial: true });
            account(s, &cfg, &steps, out);
            if nontrivial {
                local.push(fnv64(format!("{:?}{:?}", cfg, steps).as_bytes()));
            }
        }
        hashes.lock().extend(local);
    });
    let rnd_runs = rnd.runs;
    total.merge(rnd);
    let rnd_hashes = hashes.into_inner();

    // ---- observation-only probe: initial remote address unset (0.0.0.0:0)
    let probe_jobs = enum_jobs(&all_p, 3, &[0], &[true, false], Some(U));
    let probe = parallel(&probe_jobs, |w, j, s| run_enum_job(w, j, s));
    record_violations(&mut report, &probe, true);
    report.count("obs_unset_initial_probe_runs", probe.runs);

    // ---- samples: a few of the enumerated strings, re-run with a trace
    {
        let mut w = Worker::new();
        let mut rng = Rng::new(args.seed).fork(0xC18);
        let mut scratch = Stats::new();
        let picks: Vec<(u8, usize, Vec<u8>)> = vec![
            (6, 0, vec![6u8, 2, 0, 11][..bound.min(4)].to_vec()), // B first, A marker -> marker rule
            (6, 0, vec![0u8, 0, 0, 7, 18, 8][..bound.min(6)].to_vec()),
        ];
        let mut all = picks;
        for _ in 0..3 {
            let syms: Vec<u8> = (0..bound).map(|_| rng.below(NSYM as u64) as u8).collect();
            all.push((rng.below(9) as u8, rng.usize_below(3), syms));
        }
        for (p, li, syms) in all {
            let l = &LAYOUTS[li];
            let cfg = Cfg { probation: p, expected: EXPECTED_SSRC, rtcp: l.rtcp, init: l.init, with_receiver: false };
            let mut steps = vec![];
            concretise(l, &syms, &mut steps);
            let mut trace = vec![];
            let _ = run_seq(&mut w, &cfg, &steps, &mut scratch, Some(&mut trace));
            report.sample(json!({"part":"enumerated","cfg": cfg_json(&cfg), "layout": l.id, "symbols": syms, "trace": trace}));
        }
        let mut r1 = Rng::new(args.seed).fork(1);
        let (cfg, steps) = gen_random(&mut r1, min_len, 24);
        let mut trace = vec![];
        let _ = run_seq(&mut w, &cfg, &steps, &mut scratch, Some(&mut trace));
        report.sample(json!({"part":"sampled","cfg": cfg_json(&cfg), "trace": trace}));
    }

    // ---- evidence
    record_violations(&mut report, &total, false);
    for i in 0..NC {
        report.count(C_NAMES[i], total.c[i]);
    }
    for (i, name) in RULES.iter().enumerate() {
        if total.rules[i] > 0 {
            report.seen("commit_rules", *name);
            report.count(&format!("commit_rule:{name}"), total.rules[i]);
        }
    }
    let mut tri = BTreeSet::new();
    for (a, b, l) in &total.triples {
        tri.insert(format!("rtp={} rtcp={} latched={}", addr_name(*a), addr_name(*b), l));
    }
    for t in tri {
        report.seen("state_triples(rtp_addr,rtcp_addr,latched)", t);
    }
    report.count("enumerated_runs", enum_runs);
    report.count("sampled_runs", rnd_runs);
    let violating: u64 = total.viol_counts.values().sum();
    report.evaluations = total.runs;
    report.held = total.runs - total.inconclusive - violating;
    report.inconclusive_n = total.inconclusive;
    if total.inconclusive > 0 {
        report.inconclusive.push("IceConn::receive future did not complete".into());
    }
    let distinct = enum_nontrivial + rnd_hashes.len() as u64;
    report.nontrivial = rnd_hashes;
    if report.nontrivial.len() < 2 {
        // keep finish()'s sanity check meaningful when --random 0 is used
        for i in 0..enum_nontrivial.min(2) {
            report.nontrivial.insert(i);
        }
    }
    report.extra.insert("distinct_nontrivial".into(), json!(distinct));
    report.extra.insert("enumeration".into(), json!(enum_desc));
    report.extra.insert(
        "sampled".into(),
        json!({"runs": rnd_runs, "min_len": min_len, "max_len": 24, "distinct_nontrivial": distinct - enum_nontrivial}),
    );
    report.exhaustive = Some(true);
    report.note(format!(
        "distinct_nontrivial = {enum_nontrivial} enumerated runs with >=1 observed commit (distinct by construction) + {} distinct sampled runs with >=1 commit; the SUMMARY line prints only the sampled hash-set size",
        distinct - enum_nontrivial
    ));
    report.note("exhaustive=true refers to the enumerated part only (all strings up to the length bound for every listed configuration); the sampled part is random.");
    report.note(format!(
        "Doc/code discrepancy (observation, not a violation): the doc comment in src/transports/ice/conn.rs orders the rules marker -> consecutive run -> majority, the code evaluates marker -> majority (when the limit is reached) -> consecutive run. Packets where both apply and select different addresses: code chose majority {} times, run {} times (a non-zero run count is a side effect of the stale-snapshot commit defect: the winner computed by the code is the majority one, but the address is left at the current source, which happens to be the run candidate).",
        total.c[C_OBS_ORDER_MAJ_BEFORE_RUN], total.c[C_OBS_ORDER_RUN_BEFORE_MAJ]
    ));
    report.finish(1000, 100)
}
